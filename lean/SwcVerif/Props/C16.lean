import SwcVerif.Model.Resample
import Mathlib.Algebra.Order.Field.Rat
import Mathlib.Algebra.Order.Floor.Ring
import Mathlib.Tactic.Linarith
import Mathlib.Tactic.FieldSimp
import Mathlib.Tactic.Ring
/-! # C16 — resampling and smoothing keep the neuron's shape

Theorems over ℚ about the models of `Model/Resample.lean` (tied to the code by the `c16.branch`
correspondence, values compared with tolerance). Arc length enters as data (`lens`, the segment lengths
`≥ 0`); `cumdist lens` are the arc-length positions of the original points. -/
namespace C16
open Resample

/-- sorted (nondecreasing) abscissae -/
def Mono : List Rat → Prop
  | a :: b :: t => a ≤ b ∧ Mono (b :: t)
  | _ => True

theorem mono_map_add : ∀ (l : List Rat) (c : Rat), Mono l → Mono (l.map (· + c))
  | [], _, _ => trivial
  | [_], _, _ => trivial
  | a :: b :: t, c, h => ⟨by have := h.1; simp only; linarith, mono_map_add (b :: t) c h.2⟩

theorem cumdist_spec (lens : List Rat) (h : ∀ l ∈ lens, 0 ≤ l) :
    (cumdist lens).length = lens.length + 1 ∧ (cumdist lens).head? = some 0 ∧
    (cumdist lens).getLast? = some lens.sum ∧ Mono (cumdist lens) := by
  induction lens with
  | nil => simp [cumdist, Mono]
  | cons l ls ih =>
    obtain ⟨hlen, hhead, hlast, hmono⟩ := ih (fun x hx => h x (List.mem_cons_of_mem _ hx))
    have hl : 0 ≤ l := h l List.mem_cons_self
    refine ⟨by simp [cumdist, hlen], by simp [cumdist], ?_, ?_⟩
    · simp [cumdist, List.getLast?_cons, List.getLast?_map, hlast, add_comm]
    · have hm := mono_map_add _ l hmono
      cases hc : cumdist ls with
      | nil => rw [hc] at hlen; simp at hlen
      | cons a t =>
        rw [hc] at hhead hm
        simp at hhead
        subst hhead
        simp only [cumdist, hc]
        exact ⟨by linarith, hm⟩

/-! ## the new arc-length positions -/

theorem linspace_getElem (L : Rat) (n : Nat) (hn : 2 ≤ n) (i : Nat) (h : i < (linspace L n).length) :
    (linspace L n)[i] = if i + 1 = n then L else (i : Rat) * (L / ((n - 1 : Nat) : Rat)) := by
  simp [linspace, show ¬ n ≤ 1 by omega]

theorem linspace_length (L : Rat) (n : Nat) : (linspace L n).length = n := by
  unfold linspace; split <;> simp

/-- **equal steps, from 0 to the branch length**: `linspace L n` has `n` entries, starts at 0, ends at `L`, and
consecutive entries differ by exactly `L / (n - 1)` -/
theorem linspace_spec (L : Rat) (n : Nat) (hn : 2 ≤ n) :
    (linspace L n).length = n ∧ (linspace L n).head? = some 0 ∧ (linspace L n).getLast? = some L ∧
    ∀ i (h : i + 1 < (linspace L n).length),
      (linspace L n)[i + 1] - (linspace L n)[i]'(by omega) = L / ((n - 1 : Nat) : Rat) := by
  have hlen := linspace_length L n
  refine ⟨hlen, ?_, ?_, ?_⟩
  · rw [List.head?_eq_getElem?, List.getElem?_eq_getElem (by omega), linspace_getElem L n hn]
    simp [show ¬ (1 = n) by omega]
  · rw [List.getLast?_eq_getElem?, List.getElem?_eq_getElem (by omega), linspace_getElem L n hn]
    simp [hlen, show n - 1 + 1 = n by omega]
  · intro i h
    rw [linspace_getElem L n hn, linspace_getElem L n hn]
    rw [hlen] at h
    rw [if_neg (by omega : ¬ i + 1 = n)]
    have hc : ((n - 1 : Nat) : Rat) = (n : Rat) - 1 := by
      rw [Nat.cast_sub (by omega)]; simp
    by_cases h2 : i + 1 + 1 = n
    · rw [if_pos h2, hc]
      have : (n : Rat) = (i : Rat) + 2 := by rw [← h2]; push_cast; ring
      rw [this]
      have : (i : Rat) + 2 - 1 ≠ 0 := by
        have : (0 : Rat) ≤ (i : Rat) := Nat.cast_nonneg i
        linarith
      field_simp
      ring
    · rw [if_neg h2]; push_cast; ring

theorem ceil_pos {q : Rat} (hq : 0 < q) : 1 ≤ q.ceil := by
  have : (0 : Int) < q.ceil := Rat.lt_ceil_iff.mpr (by simpa using hq)
  omega

theorem ceil_toNat_cast {q : Rat} (hq : 0 < q) : ((q.ceil.toNat : Nat) : Rat) = ((q.ceil : Int) : Rat) := by
  have h := ceil_pos hq
  have h2 : ((q.ceil.toNat : Nat) : Int) = q.ceil := Int.toNat_of_nonneg (by omega)
  have := congrArg (Int.cast (R := Rat)) h2
  rwa [Int.cast_natCast] at this

/-- **the number of nodes is ⌈L/d⌉ + 1 and the step is no longer than the spacing** -/
theorem iso_step_le (L d : Rat) (hL : 0 < L) (hd : 0 < d) :
    2 ≤ isoCount L d ∧ L / ((isoCount L d - 1 : Nat) : Rat) ≤ d := by
  have hq : 0 < L / d := div_pos hL hd
  have h1 := ceil_pos hq
  have hle : L / d ≤ ((L / d).ceil : Rat) := Rat.le_ceil
  refine ⟨by unfold isoCount; omega, ?_⟩
  have : isoCount L d - 1 = (L / d).ceil.toNat := by unfold isoCount; omega
  rw [this, ceil_toNat_cast hq]
  have hc : (0 : Rat) < ((L / d).ceil : Rat) := by exact_mod_cast (by omega : 0 < (L / d).ceil)
  rw [div_le_iff₀ hc]
  rw [div_le_iff₀ hd] at hle
  linarith

/-- with `adjust_last_gap` (the default) the positions are `linspace`; a zero-length branch gives the single
position 0 -/
theorem isoPositions_adjust (L d : Rat) (hL : 0 < L) (hd : 0 < d) :
    isoPositions L d true = linspace L (isoCount L d) := by
  have := (iso_step_le L d hL hd).1
  simp [isoPositions, show isoCount L d > 1 by omega]
theorem isoPositions_zero (d : Rat) (hd : 0 < d) (adj : Bool) : isoPositions 0 d adj = [0] := by
  have _ := hd
  have h0 : (0 : Rat).ceil = 0 := by decide
  simp [isoPositions, isoCount, arange, h0]

theorem noadj_getElem (L d : Rat) (i : Nat) (h : i < (arange L d ++ [L]).length) :
    (arange L d ++ [L])[i] = if i < (L / d).ceil.toNat then (i : Rat) * d else L := by
  simp [arange, List.getElem_append]

/-- without `adjust_last_gap`: multiples of `d` below `L`, then `L` itself — again ⌈L/d⌉ + 1 positions, every
step at most `d` -/
theorem isoPositions_noadjust (L d : Rat) (hL : 0 < L) (hd : 0 < d) :
    let pos := isoPositions L d false
    pos.length = isoCount L d ∧ pos.getLast? = some L ∧
    (∀ i (h : i + 1 < pos.length), i + 2 < pos.length → pos[i + 1] - pos[i]'(by omega) = d) ∧
    (∀ i (h : i + 1 < pos.length), pos[i + 1] - pos[i]'(by omega) ≤ d ∧ 0 ≤ pos[i + 1] - pos[i]'(by omega)) := by
  have hpos : isoPositions L d false = arange L d ++ [L] := by simp [isoPositions]
  suffices H : ∀ pos : List Rat, pos = arange L d ++ [L] →
      pos.length = isoCount L d ∧ pos.getLast? = some L ∧
      (∀ i (h : i + 1 < pos.length), i + 2 < pos.length → pos[i + 1] - pos[i]'(by omega) = d) ∧
      (∀ i (h : i + 1 < pos.length), pos[i + 1] - pos[i]'(by omega) ≤ d ∧ 0 ≤ pos[i + 1] - pos[i]'(by omega)) from
    H _ hpos
  intro pos hp
  subst hp
  have hq : 0 < L / d := div_pos hL hd
  have h1 := ceil_pos hq
  have hle : L / d ≤ ((L / d).ceil : Rat) := Rat.le_ceil
  have hcast := ceil_toNat_cast hq
  have hlen : (arange L d ++ [L]).length = (L / d).ceil.toNat + 1 := by simp [arange]
  refine ⟨by simp [arange, isoCount], by simp, ?_, ?_⟩
  · intro i h h2
    rw [noadj_getElem, noadj_getElem]
    rw [hlen] at h h2
    rw [if_pos (by omega), if_pos (by omega)]
    push_cast; ring
  · intro i h
    rw [noadj_getElem, noadj_getElem]
    rw [hlen] at h
    rw [if_pos (by omega : i < (L / d).ceil.toNat)]
    by_cases h2 : i + 1 < (L / d).ceil.toNat
    · rw [if_pos h2]; push_cast
      constructor <;> linarith
    · rw [if_neg h2]
      have hi : i + 1 = (L / d).ceil.toNat := by omega
      have hi' : ((i : Rat) + 1) = ((L / d).ceil : Rat) := by
        rw [← hcast, ← hi]; push_cast; ring
      have hlt : ((i : Int) : Rat) < L / d := Rat.lt_ceil_iff.mp (by omega)
      have hlt' : (i : Rat) < L / d := by simpa using hlt
      rw [div_le_iff₀ hd] at hle
      rw [lt_div_iff₀ hd] at hlt'
      rw [← hi'] at hle
      constructor <;> linarith

/-! ## interpolation -/

theorem mono_le_last : ∀ (l : List Rat) (a : Rat), Mono (a :: l) → ∀ b ∈ a :: l, b ≤ l.getLastD a
  | [], a, _, b, hb => by simp at hb; simp [hb]
  | c :: t, a, h, b, hb => by
    rw [List.getLastD_cons]
    have ih := mono_le_last t c h.2
    rcases List.mem_cons.mp hb with rfl | hb
    · exact le_trans h.1 (ih c List.mem_cons_self)
    · exact ih b hb

theorem go_cons (x xa fa xb fb : Rat) (xr fr : List Rat) :
    interp1.go x xa fa (xb :: xr) (fb :: fr) =
      if x < xb then fa + (x - xa) * ((fb - fa) / (xb - xa)) else interp1.go x xb fb xr fr := rfl

theorem go_last (X : Rat) : ∀ (xr fr : List Rat) (xa fa : Rat), xr.length = fr.length →
    (∀ xb ∈ xr, xb ≤ X) → interp1.go X xa fa xr fr = fr.getLastD fa
  | [], [], _, _, _, _ => rfl
  | [], _ :: _, _, _, h, _ => by simp at h
  | _ :: _, [], _, _, h, _ => by simp at h
  | xb :: xr, fb :: fr, xa, fa, h, hx => by
    rw [go_cons, if_neg (not_lt.mpr (hx xb List.mem_cons_self)), List.getLastD_cons]
    exact go_last X xr fr xb fb (by simpa using h) (fun y hy => hx y (List.mem_cons_of_mem _ hy))

/-- **the end points are kept**: at arc length 0 and at the full length the interpolation returns the first
and the last original value (`xp` = `cumdist lens`; at the start this needs a first segment of positive length —
otherwise the value of the last point coinciding with the start is returned, as `np.interp` does) -/
theorem interp_endpoints (xp fp : List Rat) (x0 f0 : Rat) (xr fr : List Rat) (hxp : xp = x0 :: xr) (hfp : fp = f0 :: fr)
    (hl : xr.length = fr.length) (hm : Mono xp) :
    ((∀ x1, xr.head? = some x1 → x0 < x1) → interp1 xp fp x0 = f0) ∧
    interp1 xp fp (xp.getLastD x0) = fp.getLastD f0 := by
  subst hxp hfp
  constructor
  · intro h
    unfold interp1
    simp only [lt_irrefl, if_false]
    match xr, fr, hl, h with
    | [], [], _, _ => rfl
    | [], _ :: _, hl, _ => simp at hl
    | _ :: _, [], hl, _ => simp at hl
    | x1 :: xr, f1 :: fr, _, h =>
      rw [go_cons, if_pos (h x1 rfl)]; simp
  · have hle := mono_le_last xr x0 hm
    rw [List.getLastD_cons, List.getLastD_cons]
    unfold interp1
    simp only
    rw [if_neg (not_lt.mpr (hle x0 List.mem_cons_self))]
    exact go_last _ xr fr x0 f0 hl (fun y hy => hle y (List.mem_cons_of_mem _ hy))

theorem go_seg (x : Rat) : ∀ (xr : List Rat) (xa : Rat), Mono (xa :: xr) → xa ≤ x → x < xr.getLastD xa →
    ∃ j, ∃ t : Rat, j + 1 < (xa :: xr).length ∧ 0 ≤ t ∧ t < 1 ∧
      (xa :: xr).getD j 0 ≤ x ∧ x < (xa :: xr).getD (j + 1) 0 ∧
      t = (x - (xa :: xr).getD j 0) / ((xa :: xr).getD (j + 1) 0 - (xa :: xr).getD j 0) ∧
      ∀ (fa : Rat) (fr : List Rat), fr.length = xr.length →
        interp1.go x xa fa xr fr = (1 - t) * (fa :: fr).getD j 0 + t * (fa :: fr).getD (j + 1) 0
  | [], xa, _, h0, h1 => by simp at h1; exact absurd h1 (not_lt.mpr h0)
  | xb :: xr, xa, hm, h0, h1 => by
    by_cases hx : x < xb
    · have hpos : 0 < xb - xa := by linarith
      refine ⟨0, (x - xa) / (xb - xa), by simp, div_nonneg (by linarith) hpos.le,
        by rw [div_lt_one hpos]; linarith, by simpa using h0, by simpa using hx, by simp, ?_⟩
      intro fa fr hfr
      match fr, hfr with
      | [], hfr => simp at hfr
      | fb :: fr, _ =>
        rw [go_cons, if_pos hx]
        simp only [List.getD_cons_zero, List.getD_cons_succ]
        field_simp
        ring
    · rw [List.getLastD_cons] at h1
      obtain ⟨j, t, hj, ht0, ht1, hxj, hxj1, ht, hgo⟩ := go_seg x xr xb hm.2 (not_lt.mp hx) h1
      refine ⟨j + 1, t, by simpa using hj, ht0, ht1, by simpa using hxj, by simpa using hxj1,
        by simpa using ht, ?_⟩
      intro fa fr hfr
      match fr, hfr with
      | [], hfr => simp at hfr
      | fb :: fr, hfr =>
        rw [go_cons, if_neg hx]
        simp only [List.getD_cons_succ]
        exact hgo fb fr (by simpa using hfr)

/-- **every new point lies on the original polyline, in order**: for `x` inside the range, the interpolated
value is `(1 - t)·fp[j] + t·fp[j+1]` for the segment `j` with `xp[j] ≤ x < xp[j+1]` and `t = (x - xp[j]) /
(xp[j+1] - xp[j]) ∈ [0, 1)` — the SAME `j` and `t` for every column (coordinates and radius alike, so radii
are linear in arc length) -/
theorem interp_on_segment (xp : List Rat) (hm : Mono xp) (x : Rat) (hx0 : xp.head?.getD 0 ≤ x) (hx1 : x < xp.getLastD 0) :
    ∃ j, ∃ t : Rat, j + 1 < xp.length ∧ 0 ≤ t ∧ t < 1 ∧
      xp.getD j 0 ≤ x ∧ x < xp.getD (j + 1) 0 ∧ t = (x - xp.getD j 0) / (xp.getD (j + 1) 0 - xp.getD j 0) ∧
      ∀ fp : List Rat, fp.length = xp.length →
        interp1 xp fp x = (1 - t) * fp.getD j 0 + t * fp.getD (j + 1) 0 := by
  match xp, hm, hx0, hx1 with
  | [], _, hx0, hx1 => simp at hx0 hx1; exact absurd hx1 (not_lt.mpr hx0)
  | x0 :: xr, hm, hx0, hx1 =>
    simp only [List.head?_cons, Option.getD_some] at hx0
    rw [List.getLastD_cons] at hx1
    have hx1' : x < xr.getLastD x0 := by
      cases xr with
      | nil => simpa using hx1
      | cons a t => simpa [List.getLastD_cons] using hx1
    obtain ⟨j, t, hj, ht0, ht1, hxj, hxj1, ht, hgo⟩ := go_seg x xr x0 hm hx0 hx1'
    refine ⟨j, t, hj, ht0, ht1, hxj, hxj1, ht, ?_⟩
    intro fp hfp
    match fp, hfp with
    | [], hfp => simp at hfp
    | f0 :: fr, hfp =>
      unfold interp1
      simp only
      rw [if_neg (not_lt.mpr hx0)]
      exact hgo f0 fr (by simpa using hfp)

/-- a convex combination of two points is no farther from either than they are from each other: the
chord between two samples on one segment is a sub-segment, so resampling never lengthens a straight piece -/
theorem convex_between (a b t : Rat) (h0 : 0 ≤ t) (h1 : t ≤ 1) (hab : a ≤ b) :
    a ≤ (1 - t) * a + t * b ∧ (1 - t) * a + t * b ≤ b := by
  constructor <;> nlinarith [mul_nonneg h0 (sub_nonneg.mpr hab), mul_nonneg (sub_nonneg.mpr h1) (sub_nonneg.mpr hab)]

/-- the resamplers apply this interpolation column by column -/
theorem isoResample_columns (lens : List Rat) (cols : List (List Rat)) (d : Rat) (adj : Bool) :
    isoResample lens cols d adj =
      cols.map (interp (isoPositions ((cumdist lens).getLastD 0) d adj) (cumdist lens)) := by
  rfl
theorem linearResample_columns (lens : List Rat) (cols : List (List Rat)) (n : Nat) :
    linearResample lens cols n = cols.map (interp (linspace ((cumdist lens).getLastD 0) n) (cumdist lens)) ∧
    ∀ c ∈ linearResample lens cols n, c.length = n := by
  refine ⟨rfl, ?_⟩
  intro c hc
  simp only [linearResample, List.mem_map] at hc
  obtain ⟨col, _, rfl⟩ := hc
  simp [interp, linspace_length]

/-! ## smoothing -/

/-- **smoothing keeps the end points and the node count** (radii and connectivity are not touched by the code
at all: only `x`, `y`, `z` are assigned, and only at positions `1..n-2`) -/
theorem smooth_endpoints_count (v : List Rat) (k : Nat) :
    (convSmooth v k).length = v.length ∧
    (convSmooth v k).head? = v.head? ∧ (convSmooth v k).getLast? = v.getLast? := by
  have hlen : (convSmooth v k).length = v.length := by simp [convSmooth]
  have hget : ∀ i (h : i < (convSmooth v k).length), i = 0 ∨ i + 1 = v.length →
      (convSmooth v k)[i] = v[i]'(by omega) := by
    intro i h hi
    have hi' : i < v.length := by omega
    simp [convSmooth, hi, List.getD_eq_getElem?_getD, hi']
  refine ⟨hlen, ?_, ?_⟩
  · cases v with
    | nil => simp [convSmooth]
    | cons a t =>
      rw [List.head?_eq_getElem?, List.getElem?_eq_getElem (by rw [hlen]; simp), hget 0 _ (Or.inl rfl)]
      simp
  · cases v with
    | nil => simp [convSmooth]
    | cons a t =>
      rw [List.getLast?_eq_getElem?, List.getLast?_eq_getElem?, hlen,
        List.getElem?_eq_getElem (by rw [hlen]; simp), hget _ _ (Or.inr (by simp)),
        List.getElem?_eq_getElem (by simp)]

/-! ## re-assembly -/

/-- **no interior sample is lost**: between the parent end point and the child, the assembled branch keeps every
sample except a first one that coincides with the parent end and a last one that coincides with the child
(which is appended by the caller) -/
theorem assemble_keeps_interior {α : Type} (first last : α) (mid : List α) :
    assembleBranch (first :: mid ++ [last]) true true = mid ∧
    assembleBranch (first :: mid ++ [last]) false true = first :: mid ∧
    assembleBranch (first :: mid ++ [last]) true false = mid ++ [last] ∧
    assembleBranch (first :: mid ++ [last]) false false = first :: mid ++ [last] := by
  have : (first :: (mid ++ [last])).dropLast = first :: mid := by
    rw [← List.cons_append, List.dropLast_concat]
  simp [assembleBranch, this]

-- non-vacuity / concrete behaviour
example : isoPositions 2 (2/5) true = [0, 2/5, 4/5, 6/5, 8/5, 2] := by decide +kernel
example : isoPositions 2 (3/4) false = [0, 3/4, 3/2, 2] := by decide +kernel
example : interp [0, 1/2, 1, 3] [0, 1, 1, 3] [5, 6, 7, 9] = [5, 11/2, 7, 9] := by decide +kernel
example : convSmooth [0, 3, 0, 3, 0] 3 = [0, 1, 2, 1, 0] := by decide +kernel

end C16
