import SwcVerif.Model.Resample
