import SwcVerif.Model.Resample
import Mathlib.Algebra.Order.Field.Rat
import Mathlib.Algebra.Order.Floor.Ring
import Mathlib.Tactic.Linarith
import Mathlib.Tactic.FieldSimp
import Mathlib.Tactic.Ring
/-! # C16 — resampling and smoothing keep the neuron's shape

Theorems over ℚ about the models of `Model/Resample.lean` (tied to the code by the `c16.branch`
correspondence, values compared with tolerance). Arc length enters as data (`lens`, the segment lengths
`≥ 0`); `cumdist lens` are the arc-length positions of the original points. -/
namespace C16
open Resample

/-- sorted (nondecreasing) abscissae -/
def Mono : List Rat → Prop
  | a :: b :: t => a ≤ b ∧ Mono (b :: t)
  | _ => True

theorem cumdist_spec (lens : List Rat) (h : ∀ l ∈ lens, 0 ≤ l) :
    (cumdist lens).length = lens.length + 1 ∧ (cumdist lens).head? = some 0 ∧
    (cumdist lens).getLast? = some lens.sum ∧ Mono (cumdist lens) := by
  sorry

/-! ## the new arc-length positions -/

/-- **equal steps, from 0 to the branch length**: `linspace L n` has `n` entries, starts at 0, ends at `L`, and
consecutive entries differ by exactly `L / (n - 1)` -/
theorem linspace_spec (L : Rat) (n : Nat) (hn : 2 ≤ n) :
    (linspace L n).length = n ∧ (linspace L n).head? = some 0 ∧ (linspace L n).getLast? = some L ∧
    ∀ i (h : i + 1 < (linspace L n).length),
      (linspace L n)[i + 1] - (linspace L n)[i]'(by omega) = L / ((n - 1 : Nat) : Rat) := by
  sorry

/-- **the number of nodes is ⌈L/d⌉ + 1 and the step is no longer than the spacing** -/
theorem iso_step_le (L d : Rat) (hL : 0 < L) (hd : 0 < d) :
    2 ≤ isoCount L d ∧ L / ((isoCount L d - 1 : Nat) : Rat) ≤ d := by
  sorry

/-- with `adjust_last_gap` (the default) the positions are `linspace`; a zero-length branch gives the single
position 0 -/
theorem isoPositions_adjust (L d : Rat) (hL : 0 < L) (hd : 0 < d) :
    isoPositions L d true = linspace L (isoCount L d) := by
  sorry
theorem isoPositions_zero (d : Rat) (hd : 0 < d) (adj : Bool) : isoPositions 0 d adj = [0] := by
  sorry

/-- without `adjust_last_gap`: multiples of `d` below `L`, then `L` itself — again ⌈L/d⌉ + 1 positions, every
step at most `d` -/
theorem isoPositions_noadjust (L d : Rat) (hL : 0 < L) (hd : 0 < d) :
    let pos := isoPositions L d false
    pos.length = isoCount L d ∧ pos.getLast? = some L ∧
    (∀ i (h : i + 1 < pos.length), i + 2 < pos.length → pos[i + 1] - pos[i]'(by omega) = d) ∧
    (∀ i (h : i + 1 < pos.length), pos[i + 1] - pos[i]'(by omega) ≤ d ∧ 0 ≤ pos[i + 1] - pos[i]'(by omega)) := by
  sorry

/-! ## interpolation -/

/-- **the end points are kept**: at arc length 0 and at the full length the interpolation returns the first
and the last original value (`xp` = `cumdist lens`; at the start this needs a first segment of positive length —
otherwise the value of the last point coinciding with the start is returned, as `np.interp` does) -/
theorem interp_endpoints (xp fp : List Rat) (x0 f0 : Rat) (xr fr : List Rat) (hxp : xp = x0 :: xr) (hfp : fp = f0 :: fr)
    (hl : xr.length = fr.length) (hm : Mono xp) :
    ((∀ x1, xr.head? = some x1 → x0 < x1) → interp1 xp fp x0 = f0) ∧
    interp1 xp fp (xp.getLastD x0) = fp.getLastD f0 := by
  sorry

/-- **every new point lies on the original polyline, in order**: for `x` inside the range, the interpolated
value is `(1 - t)·fp[j] + t·fp[j+1]` for the segment `j` with `xp[j] ≤ x < xp[j+1]` and `t = (x - xp[j]) /
(xp[j+1] - xp[j]) ∈ [0, 1)` — the SAME `j` and `t` for every column (coordinates and radius alike, so radii
are linear in arc length) -/
theorem interp_on_segment (xp : List Rat) (hm : Mono xp) (x : Rat) (hx0 : xp.head?.getD 0 ≤ x) (hx1 : x < xp.getLastD 0) :
    ∃ j, ∃ t : Rat, j + 1 < xp.length ∧ 0 ≤ t ∧ t < 1 ∧
      xp.getD j 0 ≤ x ∧ x < xp.getD (j + 1) 0 ∧ t = (x - xp.getD j 0) / (xp.getD (j + 1) 0 - xp.getD j 0) ∧
      ∀ fp : List Rat, fp.length = xp.length →
        interp1 xp fp x = (1 - t) * fp.getD j 0 + t * fp.getD (j + 1) 0 := by
  sorry

/-- a convex combination of two points is no farther from either than they are from each other: the
chord between two samples on one segment is a sub-segment, so resampling never lengthens a straight piece -/
theorem convex_between (a b t : Rat) (h0 : 0 ≤ t) (h1 : t ≤ 1) (hab : a ≤ b) :
    a ≤ (1 - t) * a + t * b ∧ (1 - t) * a + t * b ≤ b := by
  sorry

/-- the resamplers apply this interpolation column by column -/
theorem isoResample_columns (lens : List Rat) (cols : List (List Rat)) (d : Rat) (adj : Bool) :
    isoResample lens cols d adj =
      cols.map (interp (isoPositions ((cumdist lens).getLastD 0) d adj) (cumdist lens)) := by
  sorry
theorem linearResample_columns (lens : List Rat) (cols : List (List Rat)) (n : Nat) :
    linearResample lens cols n = cols.map (interp (linspace ((cumdist lens).getLastD 0) n) (cumdist lens)) ∧
    ∀ c ∈ linearResample lens cols n, c.length = n := by
  sorry

/-! ## smoothing -/

/-- **smoothing keeps the end points and the node count** (radii and connectivity are not touched by the code
at all: only `x`, `y`, `z` are assigned, and only at positions `1..n-2`) -/
theorem smooth_endpoints_count (v : List Rat) (k : Nat) :
    (convSmooth v k).length = v.length ∧
    (convSmooth v k).head? = v.head? ∧ (convSmooth v k).getLast? = v.getLast? := by
  sorry

/-! ## re-assembly -/

/-- **no interior sample is lost**: between the parent end point and the child, the assembled branch keeps every
sample except a first one that coincides with the parent end and a last one that coincides with the child
(which is appended by the caller) -/
theorem assemble_keeps_interior {α : Type} (first last : α) (mid : List α) :
    assembleBranch (first :: mid ++ [last]) true true = mid ∧
    assembleBranch (first :: mid ++ [last]) false true = first :: mid ∧
    assembleBranch (first :: mid ++ [last]) true false = mid ++ [last] ∧
    assembleBranch (first :: mid ++ [last]) false false = first :: mid ++ [last] := by
  sorry

-- non-vacuity / concrete behaviour
example : isoPositions 2 (2/5) true = [0, 2/5, 4/5, 6/5, 8/5, 2] := by decide +kernel
example : isoPositions 2 (3/4) false = [0, 3/4, 3/2, 2] := by decide +kernel
example : interp [0, 1/2, 1, 3] [0, 1, 1, 3] [5, 6, 7, 9] = [5, 11/2, 7, 9] := by decide +kernel
example : convSmooth [0, 3, 0, 3, 0] 3 = [0, 1, 2, 1, 0] := by decide +kernel

end C16
