import SwcVerif.Props.C08
import SwcVerif.Props.C08Gen
import SwcVerif.Props.C06
import SwcVerif.Proofs.Represent
import SwcVerif.Refine.BranchTree
import Mathlib.Data.List.Nodup
/-! # C08, `BranchTree.from_tree` tied to the source by the translator

`Gen.Algo.bt_from_tree` is regenerated from `swcgeom/core/branch_tree.py::BranchTree.from_tree` on every run and runs on the translated
`Tree.get_branches` (on the translated `_traverse_dfs`) and the translated `to_sub_topology`.  On every tree (`C06.IsTree r pids`: any
shape, any numbering with the root first) it is proved EQUAL to the model `Branches.branchTree` of the structural decomposition
`branchesOf r`, and the model is characterised: the nodes of the branch tree are the root, the furcations and the tips, each once; every
node hangs from the first node of the branch that ends in it; every branch is remembered under the new index of its first node. -/
namespace C08
open Branches Trav Gen.Algo Sub

/-! ## facts about the decomposition that the branch tree needs -/

-- a node is a furcation or a tip at most as often as it is a node
mutual
theorem ft_count (a : Int) : ∀ r : Rose, (furcsOf r).count a + (tipsOf r).count a ≤ r.ids.count a
  | .node i [] => by simp [furcsOf, furcsOfL, tipsOf, Rose.ids, idsL]
  | .node i (k :: ks) => by
    have := ft_countL a (k :: ks)
    simp only [furcsOf, tipsOf, Rose.ids, List.count_append, List.count_cons, List.count_nil]
    by_cases hia : i = a <;> split <;> simp [hia] <;> omega
theorem ft_countL (a : Int) : ∀ ks : List Rose, (furcsOfL ks).count a + (tipsOfL ks).count a ≤ (idsL ks).count a
  | [] => by simp [furcsOfL, tipsOfL, idsL]
  | r :: rs => by
    have h1 := ft_count a r
    have h2 := ft_countL a rs
    simp only [furcsOfL, tipsOfL, idsL, List.count_append]; omega
end

/-- no node is listed twice among the furcations and tips -/
theorem furcs_tips_nodup (r : Rose) (hD : r.ids.Nodup) : (furcsOf r ++ tipsOf r).Nodup := by
  rw [List.nodup_iff_count_le_one]
  intro a
  have h1 := ft_count a r
  have h2 := List.nodup_iff_count_le_one.1 hD a
  rw [List.count_append]; omega

/-- every member of every (closed or open) branch of a subtree is a node of the subtree -/
theorem bv_mem (r : Rose) : (∀ b ∈ (branchVal r).1, ∀ x ∈ b, x ∈ r.ids) ∧ ∀ x ∈ (branchVal r).2, x ∈ r.ids := by
  induction r using rose_ind with
  | h i ks ih =>
    rcases ks with _ | ⟨k, _ | ⟨k2, t⟩⟩
    · simp [branchVal_node, cb_nil, Rose.ids]
    · have hk := ih k (List.mem_cons_self ..)
      simp only [branchVal_node, List.map_cons, List.map_nil, cb_one, Rose.ids, idsL, List.append_nil, List.mem_cons,
        List.mem_append, List.mem_singleton]
      exact ⟨fun b hb x hx => Or.inr (hk.1 b hb x hx), fun x hx => hx.elim (fun h => Or.inr (hk.2 x h)) (fun h => Or.inl (by simpa using h))⟩
    · rw [branchVal_many]
      simp only [Rose.ids, idsL_eq, List.mem_cons, List.mem_flatMap]
      refine ⟨?_, fun x hx => Or.inl (by simpa using hx)⟩
      intro b hb x hx
      simp only [List.mem_flatMap, List.mem_map, closeAt] at hb
      obtain ⟨sc, ⟨k', hk', rfl⟩, hb⟩ := hb
      have hk'' := ih k' hk'
      simp only [List.mem_reverse, List.mem_append, List.mem_singleton] at hb
      rcases hb with hb | rfl
      · exact Or.inr ⟨k', by simpa using hk', hk''.1 b hb x hx⟩
      · simp only [List.mem_reverse, List.mem_append, List.mem_singleton] at hx
        rcases hx with hx | rfl
        · exact Or.inr ⟨k', by simpa using hk', hk''.2 x hx⟩
        · exact Or.inl rfl

/-- every member of every branch is a node of the tree -/
theorem branch_mem (r : Rose) (b : List Int) (hb : b ∈ branchesOf r) (x : Int) (hx : x ∈ b) : x ∈ r.ids := by
  obtain ⟨h1, h2⟩ := bv_mem r
  simp only [branchesOf, finish] at hb
  split at hb
  · simp only [List.mem_cons] at hb
    rcases hb with rfl | hb
    · exact h2 x (by simpa using hx)
    · exact h1 b hb x hx
  · exact h1 b hb x hx

/-- the first node of every branch is the root or the end point of a branch -/
theorem branch_head_mem (kidsOf : Int → List Int) (r : Rose) (hA : Agrees kidsOf r) (hD : r.ids.Nodup) (b : List Int)
    (hb : b ∈ branchesOf r) : b.headD r.id ∈ r.id :: (branchesOf r).map (fun b => b.getLastD r.id) := by
  obtain ⟨top, mid, last, rfl, htop, _, _⟩ := branch_shape kidsOf r hA b hb
  simp only [List.headD_cons, List.mem_cons]
  rcases htop with h | h
  · exact Or.inl h
  · by_cases h0 : top = r.id
    · exact Or.inl h0
    · right
      have hm : top ∈ r.ids := branch_mem r _ hb top (List.mem_cons_self ..)
      have hf : top ∈ furcsOf r := (furcsOf_ge2 kidsOf r hA hD top).2 ⟨hm, h⟩
      have : top ∈ (furcsOf r ++ tipsOf r).erase r.id :=
        ((furcs_tips_nodup r hD).mem_erase_iff).2 ⟨h0, List.mem_append_left _ hf⟩
      exact (branch_ends r hD).mem_iff.2 this

/-- the root and the end points of the branches are pairwise distinct -/
theorem branch_nodes_nodup (r : Rose) (hD : r.ids.Nodup) : (r.id :: (branchesOf r).map (fun b => b.getLastD r.id)).Nodup := by
  have hp := branch_ends r hD
  have hn : ((furcsOf r ++ tipsOf r).erase r.id).Nodup := (furcs_tips_nodup r hD).erase _
  rw [List.nodup_cons]
  refine ⟨fun hmem => ?_, hp.nodup_iff.2 hn⟩
  have := hp.mem_iff.1 hmem
  rw [(furcs_tips_nodup r hD).mem_erase_iff] at this
  exact this.1 rfl

/-! ## the generated `BranchTree.from_tree` -/

/-- on a tree the decomposition hands `from_tree` non-empty lists of valid rows (of a `Tree` object: `ids[x] = x`) -/
theorem goodBrs_tree (r : Rose) (pids : List Int) (h : C06.IsTree r pids) :
    RefineBranchTree.GoodBrs (rangeI pids.length) (branchesOf r) := by
  intro b hb
  constructor
  · obtain ⟨top, mid, last, rfl, _⟩ := branch_shape _ r h.1.1 b hb
    simp
  · intro x hx
    have := (C06.isTree_mem h x).1 (branch_mem r b hb x hx)
    exact RefineNode.idx_rangeI _ x this.1 (by omega)

/-- **`BranchTree.from_tree` as translated IS the model** `Branches.branchTree` of the structural decomposition, on every tree, for every
fuel `≥ 2 n + 1`: the translated `get_branches` (and the traversal below it) does not run out of fuel, no branch is empty, no row index is
invalid, the kept ids are distinct -/
theorem generated_fromTree_eq_model (r : Rose) (pids : List Int) (h : C06.IsTree r pids) (F : Nat) :
    bt_from_tree (2 * r.size + F + 1) (rangeI pids.length) pids =
      (branchTree 0 (branchesOf r)).map RefineBranchTree.toObj := by
  have hn := branch_nodes_nodup r h.1.2
  rw [h.2.2.1] at hn
  exact RefineBranchTree.fromTree_refines_on _ pids (branchesOf r) _
    (generated_getBranches_eq _ pids r h.1 h.2.2.1 F) (goodBrs_tree r pids h) hn

/-- **what the model builds on a tree** (`nodes` = the root followed by the end point of every branch, in the order of `get_branches`):
* it succeeds (no KeyError in `to_sub_topology`, no IndexError in `np.nonzero(…)[0][0]`);
* the new node `j` is the original node `nodes[j]`; `nodes` lists the root, the furcations and the tips, each exactly once;
* node 0 is the root (`pid = -1`); the node ending branch `b` hangs from the new index of `b`'s first node (which is a listed node);
* under key `k` the dictionary holds exactly the branches whose first node has new index `k`, in order; a node starting no branch has no entry. -/
theorem branchTree_model_spec (r : Rose) (pids : List Int) (h : C06.IsTree r pids) :
    ∃ groups,
      branchTree 0 (branchesOf r) = some ⟨-1 :: (branchesOf r).map (fun b =>
          (((0 :: (branchesOf r).map (fun b => b.getLastD 0)).idxOf (b.headD 0) : Nat) : Int)),
        0 :: (branchesOf r).map (fun b => b.getLastD 0), groups⟩ ∧
      (0 :: (branchesOf r).map (fun b => b.getLastD 0)).Perm (0 :: (furcsOf r ++ tipsOf r).erase 0) ∧
      (0 :: (branchesOf r).map (fun b => b.getLastD 0)).Nodup ∧
      (∀ b ∈ branchesOf r, b.headD 0 ∈ 0 :: (branchesOf r).map (fun b => b.getLastD 0)) ∧
      (∀ k, glookup groups k =
        if (branchesOf r).filter (fun b => decide ((((0 :: (branchesOf r).map (fun b => b.getLastD 0)).idxOf (b.headD 0) : Nat) : Int) = k)) = []
        then none
        else some ((branchesOf r).filter (fun b => decide ((((0 :: (branchesOf r).map (fun b => b.getLastD 0)).idxOf (b.headD 0) : Nat) : Int) = k)))) := by
  have hr := h.2.2.1
  have hnd := branch_nodes_nodup r h.1.2
  have hhead := branch_head_mem _ r h.1.1 h.1.2
  have hends := branch_ends r h.1.2
  rw [hr] at hnd hhead hends
  generalize hbrs : branchesOf r = brs at *
  have hnn : ∀ b ∈ brs, ∀ x ∈ b, 0 ≤ x := by
    intro b hb x hx
    exact ((C06.isTree_mem h x).1 (branch_mem r b (hbrs ▸ hb) x hx)).1
  have hne : ∀ b ∈ brs, b ≠ [] := by
    intro b hb
    obtain ⟨top, mid, last, rfl, _⟩ := branch_shape _ r h.1.1 b (hbrs ▸ hb)
    simp
  have hlast : ∀ b ∈ brs, b.getLastD 0 ∈ b := by
    intro b hb
    rw [List.getLastD_eq_getLast?, List.getLast?_eq_some_getLast (hne b hb)]; exact List.getLast_mem _
  have hhd : ∀ b ∈ brs, b.headD 0 ∈ b := by
    intro b hb
    cases b with
    | nil => exact absurd rfl (hne _ hb)
    | cons a t => simp
  -- to_sub_topology keeps every row
  have htot := RefineBranchTree.toSubTopology_total (0 :: brs.map (fun b => b.getLastD 0)) (-1 :: brs.map (fun b => b.headD 0))
    (by simp)
    (by
      intro x hx
      simp only [List.mem_cons, List.mem_map] at hx
      rcases hx with rfl | ⟨b, hb, rfl⟩
      · decide
      · have := hnn b hb _ (hlast b hb); omega)
    (by
      intro y hy
      simp only [List.mem_cons, List.mem_map] at hy
      rcases hy with rfl | ⟨b, hb, rfl⟩
      · exact Or.inl rfl
      · exact Or.inr (hhead b hb))
  obtain ⟨d', hd', hsp⟩ := RefineBranchTree.fileBranches_spec 0 (0 :: brs.map (fun b => b.getLastD 0)) brs [] hhead
  refine ⟨d', ?_, ?_, hnd, hhead, ?_⟩
  · simp only [branchTree, branchTreeTable, htot, hd', Option.map_some]
    congr 2
    simp only [List.map_cons, if_true, List.map_map, List.cons.injEq, true_and]
    apply List.map_congr_left
    intro b hb
    have : ¬ b.headD 0 = -1 := by have := hnn b hb _ (hhd b hb); omega
    simp only [Function.comp_def, this, if_false]
  · exact List.Perm.cons _ hends
  · intro k
    have := hsp k
    simpa [glookup] using this

/-- **C08, the branch tree, for the code as translated** (transport of `branchTree_table` to the generated `BranchTree.from_tree`): on every
tree, with every fuel `≥ 2 n + 1`, the call succeeds and returns the object with
* `src` (the original row each new row is gathered from) = the root followed by the end point of every branch of `get_branches`, which
  lists the root, the furcations and the tips, each exactly once — *"exactly the root, furcations and tips as nodes"*;
* `n` = their number, `id = arange(n)`;
* `pid`: `-1` for the root; the node that ends branch `b` hangs from the new index of `b`'s first node, which is a node of the branch
  tree — *"joined as the branches join them"*;
* `branches[k]` = the branches (complete lists of original nodes) whose first node has new index `k`, in order; no entry for a node
  that starts no branch — *"remembers each original branch's points"*. -/
theorem generated_branchTree_table (r : Rose) (pids : List Int) (h : C06.IsTree r pids) (F : Nat) :
    ∃ groups,
      bt_from_tree (2 * r.size + F + 1) (rangeI pids.length) pids =
        some ⟨((branchesOf r).length + 1 : Nat), Py.range (((branchesOf r).length + 1 : Nat) : Int),
          -1 :: (branchesOf r).map (fun b => (((0 :: (branchesOf r).map (fun b => b.getLastD 0)).idxOf (b.headD 0) : Nat) : Int)),
          0 :: (branchesOf r).map (fun b => b.getLastD 0), groups⟩ ∧
      (0 :: (branchesOf r).map (fun b => b.getLastD 0)).Perm (0 :: (furcsOf r ++ tipsOf r).erase 0) ∧
      (0 :: (branchesOf r).map (fun b => b.getLastD 0)).Nodup ∧
      (∀ b ∈ branchesOf r, b.headD 0 ∈ 0 :: (branchesOf r).map (fun b => b.getLastD 0)) ∧
      (∀ k, Py.Dict.get? groups k =
        if (branchesOf r).filter (fun b => decide ((((0 :: (branchesOf r).map (fun b => b.getLastD 0)).idxOf (b.headD 0) : Nat) : Int) = k)) = []
        then none
        else some ((branchesOf r).filter (fun b => decide ((((0 :: (branchesOf r).map (fun b => b.getLastD 0)).idxOf (b.headD 0) : Nat) : Int) = k)))) := by
  obtain ⟨groups, hm, h1, h2, h3, h4⟩ := branchTree_model_spec r pids h
  refine ⟨groups, ?_, h1, h2, h3, h4⟩
  rw [generated_fromTree_eq_model r pids h F, hm]
  simp [RefineBranchTree.toObj]


/-! ## non-vacuity (kernel-evaluated) -/

/-- `0 → 1 → {2, 3 → 4}`: the stem through the root, the furcation 1, the tips 2 and 4 -/
example : bt_from_tree 12 (rangeI 5) [-1, 0, 1, 1, 3] =
    some ⟨4, [0, 1, 2, 3], [-1, 0, 1, 1], [0, 1, 2, 4], [(0, [[0, 1]]), (1, [[1, 2], [1, 3, 4]])]⟩ := by decide +kernel
/-- the root is itself a furcation: two branches are filed under the new index 0 -/
example : bt_from_tree 14 (rangeI 6) [-1, 0, 0, 1, 1, 2] =
    some ⟨5, [0, 1, 2, 3, 4], [-1, 0, 1, 1, 0], [0, 1, 4, 3, 5], [(0, [[0, 1], [0, 2, 5]]), (1, [[1, 4], [1, 3]])]⟩ := by decide +kernel
/-- the one-node tree: the branch tree is the root alone, the dictionary is empty -/
example : bt_from_tree 4 (rangeI 1) [-1] = some ⟨1, [0], [-1], [0], []⟩ := by decide +kernel
/-- the model on the same trees, and where the real code raises: a branch whose first node is not kept -/
example : branchTree 0 (branchesOf exR) = some ⟨[-1, 0, 1, 2, 2, 1], [0, 1, 2, 5, 3, 6],
    [(0, [[0, 1]]), (1, [[1, 2], [1, 6]]), (2, [[2, 4, 5], [2, 3]])]⟩ := by decide +kernel
example : branchTree 0 [[7, 8]] = none := by decide +kernel
/-- the hypothesis `IsTree` is satisfiable (and, by `Represent.wf_represented`, holds for EVERY well-formed parent list) -/
example : ∃ r, C06.IsTree r [-1, 0, 0, 1, 1, 2] :=
  Represent.wf_represented _ ⟨rfl, by decide, by decide +kernel⟩

end C08
