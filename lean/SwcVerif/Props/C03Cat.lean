import SwcVerif.Props.C03
import SwcVerif.Props.C07Cat
/-! # C03, concatenation included

`Props/C03.lean` composes the one-tree operations; here `cat_tree` (a second, arbitrary well-formed tree joined at
arbitrary nodes, with or without translation, junction nodes merged when they coincide) is added to the pipelines:
`C07.cat_separate_sorted` / `C07.cat_merged_sorted` give the well-formedness of its result in both cases, so every
intermediate result of every admissible pipeline of sort / re-root / subtree / prune / geometric / round trip / CONCATENATE
steps is a well-formed tree. -/
namespace C03
open Redir

/-- the data `cat_tree(tree1, tree2, node1, node2, translate=…)` reads besides tree 1's parents: tree 1's types and
coordinates (they decide whether the junction nodes coincide) and all of tree 2 -/
structure CatArgs where
  t1 : List Int
  x1 : List Int
  y1 : List Int
  z1 : List Int
  p2 : List Int
  t2 : List Int
  x2 : List Int
  y2 : List Int
  z2 : List Int
  node1 : Nat
  node2 : Nat
  translate : Bool

inductive Op2 where
  | base (op : Op)
  | cat (a : CatArgs)

def applyOp2 (pids : List Int) : Op2 → Option (List Int)
  | .base op => applyOp pids op
  | .cat a => (catTree pids a.t1 a.x1 a.y1 a.z1 a.p2 a.t2 a.x2 a.y2 a.z2 (a.node1 : Int) (a.node2 : Int) a.translate).map (·.1)

/-- admissible: the columns have the trees' lengths, the junction nodes exist, the second tree is well formed -/
def Admissible2 (pids : List Int) : Op2 → Prop
  | .base op => Admissible pids op
  | .cat a =>
    (a.t1.length = pids.length ∧ a.x1.length = pids.length ∧ a.y1.length = pids.length ∧ a.z1.length = pids.length) ∧
    (a.t2.length = a.p2.length ∧ a.x2.length = a.p2.length ∧ a.y2.length = a.p2.length ∧ a.z2.length = a.p2.length) ∧
    a.node1 < pids.length ∧ a.node2 < a.p2.length ∧ WF a.p2

/-- **one step, concatenation included**: the result is a well-formed tree (and for `cat_tree` a sorted one with
|t1| + |t2| nodes, one fewer when the junction nodes were merged) -/
theorem op2_wf (pids : List Int) (hw : WF pids) (op : Op2) (ha : Admissible2 pids op) :
    ∃ out, applyOp2 pids op = some out ∧ WF out := by
  cases op with
  | base op =>
    obtain ⟨out, h1, h2, _⟩ := op_wf pids hw op ha
    exact ⟨out, h1, h2⟩
  | cat a =>
    obtain ⟨h1, h2, hn1, hn2, hw2⟩ := ha
    by_cases hc : C07.Coincident a.x1 a.y1 a.z1 a.x2 a.y2 a.z2 a.node1 a.node2 a.translate
    · obtain ⟨np, im, c', e, hwf, _, _⟩ :=
        C07.cat_merged_sorted pids a.t1 a.x1 a.y1 a.z1 a.p2 a.t2 a.x2 a.y2 a.z2 a.node1 a.node2 a.translate h1 h2 hn1 hn2 hw hw2 hc
      exact ⟨np, by simp [applyOp2, e], hwf⟩
    · obtain ⟨np, im, c', e, hwf, _, _⟩ :=
        C07.cat_separate_sorted pids a.t1 a.x1 a.y1 a.z1 a.p2 a.t2 a.x2 a.y2 a.z2 a.node1 a.node2 a.translate h1 h2 hn1 hn2 hw hw2 hc
      exact ⟨np, by simp [applyOp2, e], hwf⟩

def runOps2 : List Int → List Op2 → List (List Int)
  | _, [] => []
  | pids, op :: ops => match applyOp2 pids op with
    | some out => out :: runOps2 out ops
    | none => []

def AdmissibleAll2 : List Int → List Op2 → Prop
  | _, [] => True
  | pids, op :: ops => Admissible2 pids op ∧ ∀ out, applyOp2 pids op = some out → AdmissibleAll2 out ops

/-- **every pipeline, concatenation included**: no step fails and every intermediate result is a well-formed tree -/
theorem pipeline2_wf (pids : List Int) (hw : WF pids) (ops : List Op2) (ha : AdmissibleAll2 pids ops) :
    (runOps2 pids ops).length = ops.length ∧ ∀ t ∈ runOps2 pids ops, WF t := by
  induction ops generalizing pids with
  | nil => simp [runOps2]
  | cons op ops ih =>
    obtain ⟨hadm, hrest⟩ := ha
    obtain ⟨out, h1, h2⟩ := op2_wf pids hw op hadm
    obtain ⟨i1, i2⟩ := ih out h2 (hrest out h1)
    simp only [runOps2, h1, List.length_cons, i1, List.mem_cons, true_and]
    rintro t (rfl | ht)
    · exact h2
    · exact i2 t ht


-- non-vacuity: sort, concatenate a 3-node tree at node 2 (translated onto it: the junction nodes merge, 5 + 3 - 1 nodes), prune
example : runOps2 exP [.base .sort,
      .cat ⟨[1, 3, 3, 3, 3], [0, 1, 2, 3, 4], [0, 0, 0, 0, 0], [0, 0, 0, 0, 0], [-1, 0, 0], [1, 3, 3], [9, 8, 7], [0, 0, 0], [0, 0, 0], 2, 1, true⟩,
      .base (.prune [1])] =
    [[-1, 0, 1, 1, 0], [-1, 0, 0, 2, 2, 4, 5], [-1, 0, 1, 1, 3, 4]] := by decide +kernel

end C03
