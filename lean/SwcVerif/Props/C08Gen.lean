import SwcVerif.Props.C08
import SwcVerif.Refine.Branches
/-! # C08, tied to the source by the translator

`Gen.Algo.get_branches / get_furcations / get_paths` and their closures `collect_branches`, `collect_furcations`, `assign_path`,
`collect_path` are regenerated from `swcgeom/core/tree.py` on every run and run on the translated `_traverse_dfs`.  The closures are
proved equal to the callback models; `get_branches` and `get_furcations` as translated are proved equal to the structural recursions
`branchesOf`, `spec fEnter fLeave` that every C08 theorem (`branches_partition_edges`, `branch_shape`, `furcations_eq`, …) is about. -/
namespace C08
open Branches Trav Gen.Algo

/-- **`Tree.get_branches` as translated computes `branchesOf`** (every tree whose root is node 0, any shape, numbering and depth) -/
theorem generated_getBranches_eq (ids pids : List Int) (r : Rose) (h : Represents r ids pids) (h0 : r.id = 0) (F : Nat) :
    get_branches (2 * r.size + F + 1) ids pids = some (branchesOf r) :=
  RefineBranches.getBranches_refines ids pids r h h0 F

/-- the translated method and the hand-written loop model agree -/
theorem generated_getBranches_eq_model (ids pids : List Int) (r : Rose) (h : Represents r ids pids) (h0 : r.id = 0) :
    get_branches (2 * r.size + 1) ids pids = some (getBranches ids pids r.id (2 * r.size)) := by
  rw [getBranches_eq ids pids r h]
  exact generated_getBranches_eq ids pids r h h0 0

/-- **`Tree.get_furcations` as translated returns exactly the nodes with two or more children** (as a permutation of `furcsOf`) -/
theorem generated_furcations_eq (ids pids : List Int) (r : Rose) (h : Represents r ids pids) (h0 : r.id = 0) (F : Nat) :
    ∃ l, get_furcations (2 * r.size + F + 1) ids pids = some l ∧ l.Perm (furcsOf r) := by
  refine ⟨_, RefineBranches.getFurcations_refines ids pids r h h0 F, ?_⟩
  simpa using spec_f r none []

/-- non-vacuity (kernel-evaluated): a root with one child (the stem), a furcation, two tips -/
example : get_branches 12 [0, 1, 2, 3, 4] [-1, 0, 1, 1, 3] = some [[0, 1], [1, 2], [1, 3, 4]] ∧
          get_furcations 12 [0, 1, 2, 3, 4] [-1, 0, 1, 1, 3] = some [1] ∧
          get_paths 12 [0, 1, 2, 3, 4] [-1, 0, 1, 1, 3] = some [[0, 1, 2], [0, 1, 3, 4]] := by decide +kernel

end C08
