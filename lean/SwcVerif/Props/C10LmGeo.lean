import SwcVerif.Refine.LmGeo
import SwcVerif.Refine.NodeBranch
/-! # C10, geometric L-Measure functions, tied to the source by the translator (T21 `lmgeo`)

`LMeasure.path_distance / euc_distance / diameter / _rall_power_d / pk_2 / _bif_vector_local / bif_ampl_local / branch_pathlength / contraction /
taper_1 / taper_2` of `swcgeom/analysis/lmeasure.py`, with `Node.xyz`, `Node.distance` (`swcgeom/core/node.py`) and `Path.length`
(`swcgeom/core/path.py`), are regenerated on every run (`Gen/AlgoLmGeo.lean`) over a numeric type parameter `K`; the Euclidean norm is the
pure parameter `norm`.  The theorems state that the definitions AS TRANSLATED compute the quantities of `Model/LmGeo.lean` (written from the
L-Measure manual) for EVERY `K`, EVERY `norm`, every well-formed tree object (ids = positions, `C07.WF pids`, geometry columns of the length of
`pids`) and every node / bifurcation / branch in the function's domain, and raise (`none`) outside it.  What they pin is WHICH nodes, vectors and
radii each function reads, and in which order the lengths are added. -/
namespace C10
open Gen.Algo LmGeo RefineLmGeo
variable {K : Type} [Inhabited K] [Add K] [Sub K] [Mul K] [OfNat K 0] [OfNat K 1] [LT K] [DecidableLT K] [LE K] [DecidableLE K]

/-- **PathDistance**: `LMeasure.path_distance` as translated returns the sum of `norm (pos c − pos parent(c))` over the compartments of the
root path of the node, added from the node upwards, at every node of every well-formed tree, for every fuel `≥ n + 2` -/
theorem generated_path_distance (norm : List K → K) {xs ys zs : List K} (pids : List Int) (hw : C07.WF pids)
    (hx : xs.length = pids.length) (hy : ys.length = pids.length) (hz : zs.length = pids.length) (k : Nat) (hk : k < pids.length) (F : Nat) :
    lm_path_distance norm (pids.length + 2 + F) pids xs ys zs (k : Int) =
      some (sumFrom 0 ((steps (Redir.rootPath pids pids.length (k : Int))).map fun e => norm (vsub (pos xs ys zs e.1) (pos xs ys zs e.2)))) :=
  pathDistance_refines norm pids hw ⟨hx, hy, hz⟩ k hk F

/-- **EucDistance**: `LMeasure.euc_distance` as translated returns `norm (pos node − pos 0)` when the first row is typed as soma, and raises
otherwise (`Tree.soma`'s ValueError) -/
theorem generated_euc_distance (norm : List K → K) {xs ys zs : List K} (ids pids types : List Int)
    (hx : xs.length = pids.length) (hy : ys.length = pids.length) (hz : zs.length = pids.length) (k : Nat) (hk : k < pids.length) :
    (types.head? = some Gen.Consts.type_soma →
      lm_euc_distance norm ids pids types xs ys zs (k : Int) = some (norm (vsub (pos xs ys zs (k : Int)) (pos xs ys zs 0)))) ∧
    (types.head? ≠ some Gen.Consts.type_soma → lm_euc_distance norm ids pids types xs ys zs (k : Int) = none) := by
  have := eucDistance_refines norm ids pids types (xs := xs) (ys := ys) (zs := zs) ⟨hx, hy, hz⟩ k hk
  constructor
  · intro h; simpa [h, eucDistance, dist] using this
  · intro h; simpa [h] using this

/-- **Diameter** = 2 · radius of the node -/
theorem generated_diameter (F : Py.Fld K) (rs : List K) (k : Nat) (hk : k < rs.length) :
    lm_diameter F rs (k : Int) = some ((Py.Fld.ofInt 2 : K) * rs.getD k default) := by
  simpa [diameter] using diameter_refines F rs k hk

/-- **`_rall_power_d`** (the diameters Rall_Power / Pk are computed from): at a node with exactly two children `a`, `b` (table order) and parent
`p`, `(2·r[p], 2·r[a], 2·r[b])`; it raises when the node has another number of children, and at the root -/
theorem generated_rall_power_d (F : Py.Fld K) (pids : List Int) (rs : List K) (hr : rs.length = pids.length) (k : Nat) (hk : k < pids.length) :
    (∀ a b : Int, kids pids (k : Int) = [a, b] → ∀ p : Nat, pids.getD k (-1) = (p : Int) → p < pids.length →
      lm_rall_power_d F (Sub.rangeI pids.length) pids rs (k : Int) = some (diameter F rs (p : Int), diameter F rs a, diameter F rs b)) ∧
    ((kids pids (k : Int)).length ≠ 2 → lm_rall_power_d F (Sub.rangeI pids.length) pids rs (k : Int) = none) ∧
    (pids.getD k (-1) = -1 → lm_rall_power_d F (Sub.rangeI pids.length) pids rs (k : Int) = none) :=
  ⟨fun a b h p hp hpv => rallPowerD_refines F pids rs hr k hk a b h p hp hpv, rallPowerD_not_bif F pids rs k hk, rallPowerD_root F pids rs k hk⟩

/-- **Pk_2** = (d_a² + d_b²) / d_p² on those diameters -/
theorem generated_pk_2 (F : Py.Fld K) (pids : List Int) (rs : List K) (hr : rs.length = pids.length) (k : Nat) (hk : k < pids.length)
    (a b : Int) (hkids : kids pids (k : Int) = [a, b]) (p : Nat) (hp : pids.getD k (-1) = (p : Int)) (hpv : p < pids.length) :
    lm_pk_2 F (Sub.rangeI pids.length) pids rs (k : Int) = pk2 F rs (p : Int) a b :=
  pk2_refines F pids rs hr k hk a b hkids p hp hpv

/-- **Bif_ampl_local**: at a bifurcation `v` with children `a`, `b` the angle is taken between `pos a − pos v` and `pos b − pos v`
(`_bif_vector_local`), and `bif_ampl_local` is `degrees (angle …)` of exactly these; both raise when the node does not have two children -/
theorem generated_bif_ampl_local (angle : List K → List K → Option K) (degrees : K → K) {xs ys zs : List K} (pids : List Int)
    (hx : xs.length = pids.length) (hy : ys.length = pids.length) (hz : zs.length = pids.length) (k : Nat) (hk : k < pids.length) :
    (∀ a b : Int, kids pids (k : Int) = [a, b] →
      lm_bif_vector_local (Sub.rangeI pids.length) pids xs ys zs (k : Int) =
        some (vsub (pos xs ys zs a) (pos xs ys zs (k : Int)), vsub (pos xs ys zs b) (pos xs ys zs (k : Int))) ∧
      lm_bif_ampl_local angle degrees (Sub.rangeI pids.length) pids xs ys zs (k : Int) =
        (angle (vsub (pos xs ys zs a) (pos xs ys zs (k : Int))) (vsub (pos xs ys zs b) (pos xs ys zs (k : Int)))).map degrees) ∧
    ((kids pids (k : Int)).length ≠ 2 → lm_bif_vector_local (Sub.rangeI pids.length) pids xs ys zs (k : Int) = none) :=
  ⟨fun a b h => ⟨bifVectorLocal_refines pids ⟨hx, hy, hz⟩ k hk a b h, bifAmplLocal_refines angle degrees pids ⟨hx, hy, hz⟩ k hk a b h⟩,
   bifVectorLocal_not_bif pids k hk⟩

/-- **Bif_ampl_remote**: at a bifurcation `v` with children `a`, `b` of a well-formed tree the vectors of `_bif_vector_remote` are
(point of the LAST node of `Tree.Node.branch` of `a` − point of `v`, the same for `b`) — "between two bifurcation points or between bifurcation point
and terminal point" — and `bif_ampl_remote` is `degrees (angle …)` of exactly these, for every fuel `≥ n + 1`; not a bifurcation → raises -/
theorem generated_bif_ampl_remote (angle : List K → List K → Option K) (degrees : K → K) {xs ys zs : List K} (pids : List Int) (hw : C07.WF pids)
    (hx : xs.length = pids.length) (hy : ys.length = pids.length) (hz : zs.length = pids.length) (k : Nat) (hk : k < pids.length) (Fu : Nat)
    (hF : pids.length + 1 ≤ Fu) :
    (∀ a b : Int, kids pids (k : Int) = [a, b] → ∃ la lb : Nat,
      (RefineNodeBranch.nodeBranch pids Fu a).getLast? = some (la : Int) ∧ (RefineNodeBranch.nodeBranch pids Fu b).getLast? = some (lb : Int) ∧
      lm_bif_vector_remote Fu (Sub.rangeI pids.length) pids xs ys zs (k : Int) =
        some (vsub (pos xs ys zs (la : Int)) (pos xs ys zs (k : Int)), vsub (pos xs ys zs (lb : Int)) (pos xs ys zs (k : Int))) ∧
      lm_bif_ampl_remote angle degrees Fu (Sub.rangeI pids.length) pids xs ys zs (k : Int) =
        (angle (vsub (pos xs ys zs (la : Int)) (pos xs ys zs (k : Int))) (vsub (pos xs ys zs (lb : Int)) (pos xs ys zs (k : Int)))).map degrees) ∧
    ((kids pids (k : Int)).length ≠ 2 → lm_bif_vector_remote Fu (Sub.rangeI pids.length) pids xs ys zs (k : Int) = none) := by
  refine ⟨fun a b h => ?_, fun h => bifVectorRemote_not_bif pids k hk h Fu⟩
  obtain ⟨la, lb, hla, hlb, e⟩ := bifVectorRemote_refines pids hw ⟨hx, hy, hz⟩ k hk a b h Fu hF
  obtain ⟨la', lb', hla', hlb', e'⟩ := bifAmplRemote_refines angle degrees pids hw ⟨hx, hy, hz⟩ k hk a b h Fu hF
  have h1 : la' = la := by rw [hla] at hla'; simpa using hla'.symm
  have h2 : lb' = lb := by rw [hlb] at hlb'; simpa using hlb'.symm
  subst h1 h2
  exact ⟨la', lb', hla, hlb, e, e'⟩

/-- **Branch_pathlength / Contraction / Taper_1 / Taper_2** on any branch given as the list of its node indices: path length = the sum in order of
`norm (pos later − pos earlier)`; contraction = distance(first, last) / path length; taper_1 = (2r[first] − 2r[last]) / path length;
taper_2 = (2r[first] − 2r[last]) / 2r[first]; `none` (the source raises / yields inf, nan) on an empty branch or a zero divisor -/
theorem generated_branch_measures (F : Py.Fld K) (norm : List K → K) {n : Nat} {xs ys zs rs : List K}
    (hx : xs.length = n) (hy : ys.length = n) (hz : zs.length = n) (hr : rs.length = n) (br : List Int) (hb : ∀ i ∈ br, 0 ≤ i ∧ i < (n : Int)) :
    path_length norm xs ys zs br = some (branchLength norm xs ys zs br) ∧
    lm_branch_pathlength norm xs ys zs br = some (branchLength norm xs ys zs br) ∧
    lm_contraction F norm xs ys zs br = contraction F norm xs ys zs br ∧
    lm_taper_1 F norm xs ys zs rs br = taper1 F norm xs ys zs rs br ∧
    lm_taper_2 F rs br = taper2 F rs br :=
  ⟨pathLength_refines norm ⟨hx, hy, hz⟩ br hb, branchPathlength_refines norm ⟨hx, hy, hz⟩ br hb, contraction_refines F norm ⟨hx, hy, hz⟩ br hb,
   taper1_refines F norm ⟨hx, hy, hz⟩ hr br hb, taper2_refines F hr br hb⟩

/-- **Length / SectionArea / Surface / Volume** of a compartment `[a, b]` (parent `a`, node `b`): length = `0 + norm (pos b − pos a)`; section area of a
node = π·r²; with the option `compartment_point = 0` the radius of surface / volume is read at `a`, with `-1` (the default) at `b`:
surface = 2·π·r·length, volume = π·r²·length -/
theorem generated_compartment_measures (F : Py.Fld K) (norm : List K → K) (pi : K) {n : Nat} {xs ys zs rs : List K}
    (hx : xs.length = n) (hy : ys.length = n) (hz : zs.length = n) (hr : rs.length = n) (a b : Int)
    (ha : 0 ≤ a ∧ a < (n : Int)) (hb : 0 ≤ b ∧ b < (n : Int)) :
    lm_length norm xs ys zs [a, b] = some ((0 : K) + norm (vsub (pos xs ys zs b) (pos xs ys zs a))) ∧
    lm_surface F norm pi 0 xs ys zs rs [a, b] = some (surface F norm pi xs ys zs rs [a, b] a) ∧
    lm_surface F norm pi (-1) xs ys zs rs [a, b] = some (surface F norm pi xs ys zs rs [a, b] b) ∧
    lm_volume norm pi 0 xs ys zs rs [a, b] = some (volume norm pi xs ys zs rs [a, b] a) ∧
    lm_volume norm pi (-1) xs ys zs rs [a, b] = some (volume norm pi xs ys zs rs [a, b] b) ∧
    (∀ k : Nat, k < n → lm_section_area pi rs (k : Int) = some (pi * ((1 : K) * rs.getD k default * rs.getD k default))) := by
  have hv : ValidBranch n [a, b] := by
    intro i hi; simp only [List.mem_cons, List.not_mem_nil, or_false] at hi; rcases hi with rfl | rfl <;> assumption
  have hc : Cols n xs ys zs := ⟨hx, hy, hz⟩
  refine ⟨?_, surface_refines F norm pi 0 hc hr _ hv a (comp_point a b).1, surface_refines F norm pi (-1) hc hr _ hv b (comp_point a b).2,
    volume_refines norm pi 0 hc hr _ hv a (comp_point a b).1, volume_refines norm pi (-1) hc hr _ hv b (comp_point a b).2, ?_⟩
  · rw [length_refines norm hc _ hv]; simp [branchLength, sumFrom, dist]
  · intro k hk; simpa [sectionArea] using sectionArea_refines pi rs k (by omega)

/-- the branch-level theorems apply to the branch the GENERATED `Tree.Node.branch` returns for any node of a well-formed tree (its members are
nodes of the tree): **contraction of a node's branch** = distance(first, last) / path length of `nodeBranch` -/
theorem generated_contraction_of_node_branch (F : Py.Fld K) (norm : List K → K) {xs ys zs : List K} (pids : List Int) (hw : C07.WF pids)
    (hx : xs.length = pids.length) (hy : ys.length = pids.length) (hz : zs.length = pids.length) (k : Int) (h0 : 0 ≤ k) (hk : k < pids.length)
    (Fu : Nat) (hF : pids.length + 1 ≤ Fu) :
    (node_branch Fu (Sub.rangeI pids.length) pids k).bind (lm_contraction F norm xs ys zs) =
      contraction F norm xs ys zs (RefineNodeBranch.nodeBranch pids Fu k) := by
  rw [RefineNodeBranch.nodeBranch_refines hw k h0 hk Fu hF]
  simp only [Option.bind_some]
  apply contraction_refines F norm ⟨hx, hy, hz⟩
  intro i hi
  simp only [RefineNodeBranch.nodeBranch, List.mem_append, List.mem_reverse] at hi
  rcases hi with hi | hi
  · exact RefineNodeBranch.upC_valid hw Fu k h0 hk i hi
  · exact RefineNodeBranch.downC_valid hw Fu k h0 i hi

/-! non-vacuity (kernel-evaluated at `K = Int`, `norm` = sum of squares, integer division) on the tree `0 → 1 → {2, 3 → 4}` -/
section examples
def lgNorm (v : List Int) : Int := v.foldl (fun acc x => acc + x * x) 0
@[instance_reducible] def lgF : Py.Fld Int := ⟨fun a b => a / b, fun i => i, fun x => x⟩
def lgP : List Int := [-1, 0, 1, 1, 3]
def lgX : List Int := [0, 1, 1, 2, 4]
def lgY : List Int := [0, 0, 2, 0, 0]
def lgZ : List Int := [0, 0, 0, 0, 1]
def lgR : List Int := [3, 2, 1, 2, 1]

example : lm_path_distance lgNorm 7 lgP lgX lgY lgZ 4 = some 7 ∧ pathDistance lgNorm lgP lgX lgY lgZ 4 = 7 ∧
    lm_euc_distance lgNorm (Sub.rangeI 5) lgP [1, 3, 3, 3, 3] lgX lgY lgZ 4 = some 17 ∧
    lm_euc_distance lgNorm (Sub.rangeI 5) lgP [3, 3, 3, 3, 3] lgX lgY lgZ 4 = none ∧
    lm_diameter lgF lgR 0 = some 6 := by decide +kernel
example : lm_rall_power_d lgF (Sub.rangeI 5) lgP lgR 1 = some (6, 2, 4) ∧ lm_rall_power_d lgF (Sub.rangeI 5) lgP lgR 0 = none ∧
    lm_rall_power_d lgF (Sub.rangeI 5) lgP lgR 3 = none ∧ lm_pk_2 lgF (Sub.rangeI 5) lgP lgR 1 = some 0 ∧
    lm_bif_vector_local (Sub.rangeI 5) lgP lgX lgY lgZ 1 = some ([0, 2, 0], [1, 0, 0]) ∧
    lm_bif_vector_local (Sub.rangeI 5) lgP lgX lgY lgZ 3 = none ∧
    lm_bif_vector_remote 7 (Sub.rangeI 5) lgP lgX lgY lgZ 1 = some ([0, 2, 0], [3, 0, 1]) ∧
    lm_bif_vector_remote 7 (Sub.rangeI 5) lgP lgX lgY lgZ 3 = none := by decide +kernel
example : path_length lgNorm lgX lgY lgZ [1, 3, 4] = some 6 ∧ branchLength lgNorm lgX lgY lgZ [1, 3, 4] = 6 ∧
    lm_contraction lgF lgNorm lgX lgY lgZ [1, 3, 4] = some 1 ∧ lm_contraction lgF lgNorm lgX lgY lgZ [] = none ∧
    lm_contraction lgF lgNorm lgX lgY lgZ [2] = none ∧
    lm_taper_1 lgF lgNorm lgX lgY lgZ lgR [0, 1] = some 2 ∧ lm_taper_2 lgF lgR [0, 1] = some 0 := by decide +kernel
example : lm_length lgNorm lgX lgY lgZ [3, 4] = some 5 ∧ lm_section_area 3 lgR 1 = some 12 ∧
    lm_volume lgNorm 3 0 lgX lgY lgZ lgR [3, 4] = some 60 ∧ lm_volume lgNorm 3 (-1) lgX lgY lgZ lgR [3, 4] = some 15 ∧
    lm_surface lgF lgNorm 3 0 lgX lgY lgZ lgR [3, 4] = some 60 ∧ lm_surface lgF lgNorm 3 (-1) lgX lgY lgZ lgR [3, 4] = some 30 := by decide +kernel
example : C07.WF lgP := by
  refine ⟨rfl, ?_, ?_⟩
  · intro k h hk; have : k = 1 ∨ k = 2 ∨ k = 3 ∨ k = 4 := by simp [lgP] at h; omega
    rcases this with rfl | rfl | rfl | rfl <;> simp [lgP]
  · intro k h; have : k = 0 ∨ k = 1 ∨ k = 2 ∨ k = 3 ∨ k = 4 := by simp [lgP] at h; omega
    rcases this with rfl | rfl | rfl | rfl | rfl <;> decide
end examples

end C10
