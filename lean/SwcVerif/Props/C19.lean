import SwcVerif.Model.Population
/-! # C19 — population containers index correctly and load each file at most once, on demand

Theorems about the models of `Model/Population.lean` (tied to the code by the `c19.lazy` / `c19.chain`
correspondence over real directories with the reads observed). -/
namespace C19
open Pop

/-- **index normalisation**: `0 ≤ k < n` is itself, `-n ≤ k < 0` counts from the end, anything else is an
IndexError -/
theorem getIdx_spec (key : Int) (n : Nat) :
    (0 ≤ key → key < n → getIdx key n = some key.toNat) ∧
    (-(n : Int) ≤ key → key < 0 → getIdx key n = some (key + n).toNat) ∧
    (key < -(n : Int) ∨ (n : Int) ≤ key → getIdx key n = none) ∧
    (∀ k, getIdx key n = some k → k < n) := by
  unfold getIdx
  refine ⟨?_, ?_, ?_, ?_⟩
  · intro h1 h2
    rw [if_neg (by simp; omega), if_neg (by omega)]
  · intro h1 h2
    rw [if_neg (by simp; omega), if_pos (by omega)]
  · intro h
    rw [if_pos (by simp; omega)]
  · intro k
    split
    · simp
    · rename_i hc
      simp at hc
      intro hk
      simp at hk
      split at hk <;> omega

theorem lt_of_getD (c : List Bool) (k : Nat) (hc : ¬ c.getD k true = true) : k < c.length := by
  rcases Nat.lt_or_ge k c.length with h | h
  · exact h
  · simp [List.getD, List.getElem?_eq_none h] at hc

theorem load_len (l : Lazy) (k : Nat) : (l.load k).len = l.len := by
  unfold Lazy.load Lazy.len; split <;> simp

theorem foldl_load_len (ks : List Nat) (l : Lazy) : (ks.foldl (fun s k => s.load k) l).len = l.len := by
  induction ks generalizing l with
  | nil => rfl
  | cons a t ih => simp [List.foldl_cons, ih, load_len]

def LInv (l : Lazy) : Prop := l.log.Nodup ∧ ∀ k ∈ l.log, l.cache[k]? = some true

theorem load_inv (l : Lazy) (k : Nat) (h : LInv l) : LInv (l.load k) := by
  unfold Lazy.load
  split
  · exact h
  · rename_i hc
    obtain ⟨h1, h2⟩ := h
    refine ⟨?_, ?_⟩
    · have : k ∉ l.log := by
        intro hk; have := h2 k hk; simp [List.getD, this] at hc
      simp only [List.nodup_append, h1, true_and]
      simp
      intro a ha hak; subst hak; exact this ha
    · intro k' hk'
      simp at hk'
      simp only [List.getElem?_set]
      split
      · rename_i hkk
        subst hkk
        have := lt_of_getD _ _ hc
        simp [this]
      · rcases hk' with hk' | hk'
        · exact h2 k' hk'
        · exact absurd hk'.symm ‹_›

theorem load_mem (l : Lazy) (k k' : Nat) (h : k' ∈ (l.load k).log) : k' ∈ l.log ∨ (k' = k ∧ k < l.len) := by
  unfold Lazy.load at h
  split at h
  · exact Or.inl h
  · rename_i hc
    simp at h
    rcases h with h | h
    · exact Or.inl h
    · right
      refine ⟨h, ?_⟩
      exact lt_of_getD _ _ hc

theorem load_log (l : Lazy) (k : Nat) : ∃ more, (l.load k).log = l.log ++ more := by
  unfold Lazy.load
  split
  · exact ⟨[], by simp⟩
  · exact ⟨[k], rfl⟩

theorem foldl_load_inv (ks : List Nat) (l : Lazy) (h : LInv l) : LInv (ks.foldl (fun s k => s.load k) l) := by
  induction ks generalizing l with
  | nil => exact h
  | cons a t ih => exact ih _ (load_inv l a h)

theorem foldl_load_mem (ks : List Nat) (l : Lazy) (k' : Nat)
    (h : k' ∈ (ks.foldl (fun s k => s.load k) l).log) : k' ∈ l.log ∨ (k' ∈ ks ∧ k' < l.len) := by
  induction ks generalizing l with
  | nil => exact Or.inl h
  | cons a t ih =>
    rcases ih _ h with h' | ⟨h1, h2⟩
    · rcases load_mem _ _ _ h' with h'' | ⟨h1, h2⟩
      · exact Or.inl h''
      · exact Or.inr ⟨by simp [h1], by omega⟩
    · rw [load_len] at h2
      exact Or.inr ⟨by simp [h1], h2⟩

theorem foldl_load_log (ks : List Nat) (l : Lazy) : ∃ more, (ks.foldl (fun s k => s.load k) l).log = l.log ++ more := by
  induction ks generalizing l with
  | nil => exact ⟨[], by simp⟩
  | cons a t ih =>
    obtain ⟨m1, h1⟩ := load_log l a
    obtain ⟨m2, h2⟩ := ih (l.load a)
    exact ⟨m1 ++ m2, by simp [h2, h1]⟩

/-- the files an operation asks for -/
def requestedBy (n : Nat) : LOp → List Nat
  | .get key => (getIdx key n).toList
  | .load k => if k < n then [k] else []
  | .iter => List.range n
  | .len => []

def requested (n : Nat) (ops : List LOp) : List Nat := ops.flatMap (requestedBy n)

theorem step_len (l : Lazy) (op : LOp) : (l.step op).1.len = l.len := by
  cases op with
  | get key =>
    simp only [Lazy.step, Lazy.get]
    cases getIdx key l.len <;> simp [load_len]
  | load k =>
    simp only [Lazy.step]
    split <;> simp [load_len]
  | iter => simp only [Lazy.step, Lazy.iterAll, foldl_load_len]
  | len => rfl

theorem step_inv (l : Lazy) (op : LOp) (h : LInv l) : LInv (l.step op).1 := by
  cases op with
  | get key =>
    simp only [Lazy.step, Lazy.get]
    cases getIdx key l.len <;> simp [load_inv, h]
  | load k =>
    simp only [Lazy.step]
    split <;> simp [load_inv, h]
  | iter => exact foldl_load_inv _ _ h
  | len => exact h

theorem step_mem (l : Lazy) (op : LOp) (k : Nat) (h : k ∈ (l.step op).1.log) :
    k ∈ l.log ∨ k ∈ requestedBy l.len op := by
  cases op with
  | get key =>
    simp only [Lazy.step, Lazy.get] at h
    simp only [requestedBy]
    cases hg : getIdx key l.len with
    | none => rw [hg] at h; exact Or.inl h
    | some i =>
      rw [hg] at h
      rcases load_mem _ _ _ h with h' | ⟨h1, h2⟩
      · exact Or.inl h'
      · exact Or.inr (by simp [h1])
  | load i =>
    simp only [Lazy.step] at h
    simp only [requestedBy]
    split at h
    · rcases load_mem _ _ _ h with h' | ⟨h1, h2⟩
      · exact Or.inl h'
      · exact Or.inr (by simp [h1, h2])
    · exact Or.inl h
  | iter =>
    rcases foldl_load_mem _ _ _ h with h' | ⟨h1, h2⟩
    · exact Or.inl h'
    · exact Or.inr h1
  | len => exact Or.inl h

theorem step_log (l : Lazy) (op : LOp) : ∃ more, (l.step op).1.log = l.log ++ more := by
  cases op with
  | get key =>
    simp only [Lazy.step, Lazy.get]
    cases getIdx key l.len with
    | none => exact ⟨[], by simp⟩
    | some i => exact load_log l i
  | load k =>
    simp only [Lazy.step]
    split
    · exact load_log l k
    · exact ⟨[], by simp⟩
  | iter => exact foldl_load_log _ _
  | len => exact ⟨[], by simp [Lazy.step]⟩

theorem run_len (ops : List LOp) (l : Lazy) : (l.run ops).len = l.len := by
  induction ops generalizing l with
  | nil => rfl
  | cons a t ih =>
    show (Lazy.run (l.step a).1 t).len = _
    rw [ih, step_len]

theorem run_inv (ops : List LOp) (l : Lazy) (h : LInv l) : LInv (l.run ops) := by
  induction ops generalizing l with
  | nil => exact h
  | cons a t ih => exact ih _ (step_inv l a h)

theorem run_mem (ops : List LOp) (l : Lazy) (k : Nat) (h : k ∈ (l.run ops).log) :
    k ∈ l.log ∨ k ∈ requested l.len ops := by
  induction ops generalizing l with
  | nil => exact Or.inl h
  | cons a t ih =>
    have h' : k ∈ (Lazy.run (l.step a).1 t).log := h
    simp only [requested, List.flatMap_cons, List.mem_append]
    rcases ih _ h' with h1 | h1
    · rcases step_mem _ _ _ h1 with h2 | h2
      · exact Or.inl h2
      · exact Or.inr (Or.inl h2)
    · rw [step_len] at h1
      exact Or.inr (Or.inr h1)

theorem init_inv (n : Nat) : LInv (Lazy.init n) := by
  simp [LInv, Lazy.init]

theorem popInit_inv (n : Nat) : LInv (populationInit n) := by
  unfold populationInit
  split
  · exact load_inv _ _ (init_inv n)
  · exact init_inv n

theorem init_len (n : Nat) : (Lazy.init n).len = n := by simp [Lazy.init, Lazy.len]

theorem popInit_len (n : Nat) : (populationInit n).len = n := by
  unfold populationInit
  split <;> simp [load_len, init_len]

/-- **each file is read at most once, whatever the history of operations** — for a bare
`LazyLoadingTrees` and for a `Population` built on it -/
theorem load_at_most_once (n : Nat) (ops : List LOp) :
    ((Lazy.init n).run ops).log.Nodup ∧ ((populationInit n).run ops).log.Nodup :=
  ⟨(run_inv ops _ (init_inv n)).1, (run_inv ops _ (popInit_inv n)).1⟩

/-- **files are read only on demand**: every file in the read log was asked for by some operation of the
history — apart from the probe of file 0 when the `Population` is constructed -/
theorem loads_only_on_demand (n : Nat) (ops : List LOp) (k : Nat) :
    (k ∈ ((Lazy.init n).run ops).log → k ∈ requested n ops) ∧
    (k ∈ ((populationInit n).run ops).log → k = 0 ∨ k ∈ requested n ops) := by
  constructor
  · intro h
    rcases run_mem _ _ _ h with h | h
    · simp [Lazy.init] at h
    · rwa [init_len] at h
  · intro h
    rcases run_mem _ _ _ h with h | h
    · left
      unfold populationInit at h
      split at h
      · rcases load_mem _ _ _ h with h | h
        · simp [Lazy.init] at h
        · exact h.1
      · simp [Lazy.init] at h
    · rw [popInit_len] at h
      exact Or.inr h

/-- whatever was asked for is loaded afterwards and is not read again by later operations (its slot is
filled): the log after further operations keeps the earlier log as a prefix -/
theorem log_monotone (l : Lazy) (ops : List LOp) : ∃ more, (l.run ops).log = l.log ++ more := by
  induction ops generalizing l with
  | nil => exact ⟨[], by simp [Lazy.run]⟩
  | cons a t ih =>
    obtain ⟨m1, h1⟩ := step_log l a
    obtain ⟨m2, h2⟩ := ih (l.step a).1
    refine ⟨m1 ++ m2, ?_⟩
    show (Lazy.run (l.step a).1 t).log = _
    simp [h2, h1]

/-- **index i returns the tree of the i-th file** (negative indices count from the end; out of range is
an IndexError and reads nothing) -/
theorem get_returns (l : Lazy) (key : Int) :
    (∀ l' k, l.get key = some (l', k) → getIdx key l.len = some k ∧ l'.len = l.len ∧ l'.cache.getD k false = true) ∧
    (getIdx key l.len = none → l.get key = none ∧ (l.step (.get key)).1 = l) := by
  constructor
  · intro l' k h
    simp only [Lazy.get] at h
    cases hg : getIdx key l.len with
    | none => simp [hg] at h
    | some i =>
      simp [hg] at h
      obtain ⟨h1, h2⟩ := h
      subst h1 h2
      refine ⟨rfl, load_len _ _, ?_⟩
      have hlt := (getIdx_spec key l.len).2.2.2 _ hg
      unfold Lazy.len at hlt
      unfold Lazy.load
      split
      · rename_i hc
        simp [List.getD, hlt] at hc ⊢
        exact hc
      · simp [List.getD, hlt]
  · intro h
    simp [Lazy.step, Lazy.get, h]

/-- iteration returns the files in order -/
theorem iter_returns (l : Lazy) : (l.step .iter).2 = some (List.range l.len) := rfl


/-! ## chaining -/

theorem cumsum_snoc (l : List Nat) (x : Nat) :
    cumsum (l ++ [x]) = cumsum l ++ [(cumsum l).getLastD 0 + x] := by
  simp [cumsum, List.foldl_append]

theorem cumsum_spec_rev (l : List Nat) :
    (cumsum l.reverse).length = l.length + 1 ∧ (cumsum l.reverse).getLastD 0 = l.reverse.sum ∧
    ∀ i (h : i < (cumsum l.reverse).length), (cumsum l.reverse)[i] = (l.reverse.take i).sum := by
  induction l with
  | nil => simp [cumsum]
  | cons a t ih =>
    obtain ⟨h1, h2, h3⟩ := ih
    have h2' : (cumsum t.reverse).getLast?.getD 0 = t.sum := by simpa using h2
    rw [List.reverse_cons, cumsum_snoc]
    refine ⟨by simp [h1], by simp [h2'], ?_⟩
    intro i hi
    rw [List.getElem_append]
    split
    · rename_i hlt
      rw [h3 i hlt, List.take_append_of_le_length (by simp; omega)]
    · rename_i hge
      simp at hi
      have : i = t.length + 1 := by omega
      subst this
      simp [h2', List.take_of_length_le]

theorem cumsum_full (lens : List Nat) :
    (cumsum lens).length = lens.length + 1 ∧ (cumsum lens).getLastD 0 = lens.sum ∧
    ∀ i (h : i < (cumsum lens).length), (cumsum lens)[i] = (lens.take i).sum := by
  have := cumsum_spec_rev lens.reverse
  simpa using this

theorem cumsum_spec (lens : List Nat) :
    (cumsum lens).length = lens.length + 1 ∧
    ∀ i (h : i < (cumsum lens).length), (cumsum lens)[i] = (lens.take i).sum :=
  ⟨(cumsum_full lens).1, (cumsum_full lens).2.2⟩

/-- **chaining has the right total length** -/
theorem chain_len (lens : List Nat) : chainLen lens = lens.sum := (cumsum_full lens).2.1

theorem cumsum_getD (lens : List Nat) (i : Nat) (h : i ≤ lens.length) :
    (cumsum lens).getD i 0 = (lens.take i).sum := by
  have hl := (cumsum_full lens).1
  have hi : i < (cumsum lens).length := by omega
  rw [← (cumsum_full lens).2.2 i hi]
  simp [List.getD, hi]

theorem bsearch_spec (cum : List Nat) (idx : Nat) (f i j : Nat)
    (h1 : 1 ≤ i) (h2 : i ≤ j) (hf : j - i < f)
    (hlo : cum.getD (i - 1) 0 ≤ idx) (hhi : idx < cum.getD j 0) :
    1 ≤ bsearch cum idx f i j ∧ bsearch cum idx f i j ≤ j ∧
    cum.getD (bsearch cum idx f i j - 1) 0 ≤ idx ∧ idx < cum.getD (bsearch cum idx f i j) 0 := by
  induction f generalizing i j with
  | zero => omega
  | succ f ih =>
    unfold bsearch
    split
    · rename_i hij
      simp only
      have hm1 : i ≤ (i + j) / 2 := by omega
      have hm2 : (i + j) / 2 < j := by omega
      split
      · rename_i hc
        have := ih ((i + j) / 2 + 1) j (by omega) (by omega) (by omega) (by simpa using hc) hhi
        exact this
      · rename_i hc
        have := ih i ((i + j) / 2) h1 hm1 (by omega) hlo (by omega)
        exact ⟨this.1, by omega, this.2.2⟩
    · have : i = j := by omega
      subst this
      exact ⟨h1, Nat.le_refl _, hlo, hhi⟩

theorem sum_take_succ (l : List Nat) (m : Nat) (h : m < l.length) :
    (l.take (m + 1)).sum = (l.take m).sum + l[m] := by
  rw [List.take_succ_eq_append_getElem h, List.sum_append, List.sum_singleton]

/-- **chaining concatenates in order**: for every position `idx` of the concatenation (members may be
empty) the binary search returns the member `m` and the offset `j` with
`idx = |member 0| + … + |member m-1| + j` and `j < |member m|` -/
theorem chain_index (lens : List Nat) (idx : Nat) (h : idx < lens.sum) :
    ∃ m j, chainGet lens (idx : Int) = some (m, j) ∧ m < lens.length ∧ j < lens.getD m 0 ∧ (lens.take m).sum + j = idx := by
  have hn : 1 ≤ lens.length := by
    cases lens with
    | nil => simp at h
    | cons a t => simp
  have hfull := cumsum_full lens
  have hg : getIdx (idx : Int) lens.sum = some idx := by
    have := (getIdx_spec (idx : Int) lens.sum).1 (by omega) (by omega)
    simpa using this
  have hb := bsearch_spec (cumsum lens) idx (lens.length + 1) 1 lens.length (Nat.le_refl _) hn (by omega)
    (by rw [cumsum_getD lens _ (by omega)]; simp)
    (by rw [cumsum_getD lens _ (Nat.le_refl _)]; simpa using h)
  generalize hr : bsearch (cumsum lens) idx (lens.length + 1) 1 lens.length = r at hb
  obtain ⟨hb1, hb2, hb3, hb4⟩ := hb
  have hm : r - 1 < lens.length := by omega
  rw [cumsum_getD lens _ (by omega)] at hb3
  rw [cumsum_getD lens _ hb2] at hb4
  have hr' : r = (r - 1) + 1 := by omega
  rw [hr', sum_take_succ lens (r - 1) hm] at hb4
  refine ⟨r - 1, idx - (lens.take (r - 1)).sum, ?_, hm, ?_, by omega⟩
  · simp only [chainGet, hfull.2.1, hg, Option.map_some, hr]
    rw [cumsum_getD lens _ (by omega)]
  · simp only [List.getD, List.getElem?_eq_getElem hm, Option.getD_some]
    omega

/-- negative indices count from the end of the concatenation; out of range is an IndexError -/
theorem chain_index_neg (lens : List Nat) (key : Int) :
    (-(lens.sum : Int) ≤ key → key < 0 → chainGet lens key = chainGet lens (key + lens.sum)) ∧
    (key < -(lens.sum : Int) ∨ (lens.sum : Int) ≤ key → chainGet lens key = none) := by
  have hfull := cumsum_full lens
  constructor
  · intro h1 h2
    have ha := (getIdx_spec key lens.sum).2.1 h1 h2
    have hb := (getIdx_spec (key + lens.sum) lens.sum).1 (by omega) (by omega)
    simp only [chainGet, hfull.2.1, ha, hb]
  · intro h
    have ha := (getIdx_spec key lens.sum).2.2.1 h
    simp only [chainGet, hfull.2.1, ha, Option.map_none]

/-- a slice / filter view indexes through its index list -/
theorem nest_index (idx : List Int) (key : Int) :
    nestGet idx key = (getIdx key idx.length).map (fun k => idx.getD k 0) := rfl

-- non-vacuity / concrete behaviour
example : ((populationInit 4).run [.get 2, .get (-1), .get 2, .iter, .get 0]).log = [0, 2, 3, 1] := by decide +kernel
example : chainGet [1, 5, 0, 3] 6 = some (3, 0) ∧ chainGet [1, 5, 0, 3] (-1) = some (3, 2) ∧ chainGet [1, 5, 0, 3] 9 = none := by decide +kernel
example : chainLen [1, 5, 0, 3] = 9 := by decide +kernel

end C19
