import SwcVerif.Model.Population
/-! # C19 — population containers index correctly and load each file at most once, on demand

Theorems about the models of `Model/Population.lean` (tied to the code by the `c19.lazy` / `c19.chain`
correspondence over real directories with the reads observed). -/
namespace C19
open Pop

/-- **index normalisation**: `0 ≤ k < n` is itself, `-n ≤ k < 0` counts from the end, anything else is an
IndexError -/
theorem getIdx_spec (key : Int) (n : Nat) :
    (0 ≤ key → key < n → getIdx key n = some key.toNat) ∧
    (-(n : Int) ≤ key → key < 0 → getIdx key n = some (key + n).toNat) ∧
    (key < -(n : Int) ∨ (n : Int) ≤ key → getIdx key n = none) ∧
    (∀ k, getIdx key n = some k → k < n) := by
  sorry

/-- the files an operation asks for -/
def requestedBy (n : Nat) : LOp → List Nat
  | .get key => (getIdx key n).toList
  | .load k => if k < n then [k] else []
  | .iter => List.range n
  | .len => []

def requested (n : Nat) (ops : List LOp) : List Nat := ops.flatMap (requestedBy n)

theorem step_len (l : Lazy) (op : LOp) : (l.step op).1.len = l.len := by
  sorry

/-- **each file is read at most once, whatever the history of operations** — for a bare
`LazyLoadingTrees` and for a `Population` built on it -/
theorem load_at_most_once (n : Nat) (ops : List LOp) :
    ((Lazy.init n).run ops).log.Nodup ∧ ((populationInit n).run ops).log.Nodup := by
  sorry

/-- **files are read only on demand**: every file in the read log was asked for by some operation of the
history — apart from the probe of file 0 when the `Population` is constructed -/
theorem loads_only_on_demand (n : Nat) (ops : List LOp) (k : Nat) :
    (k ∈ ((Lazy.init n).run ops).log → k ∈ requested n ops) ∧
    (k ∈ ((populationInit n).run ops).log → k = 0 ∨ k ∈ requested n ops) := by
  sorry

/-- whatever was asked for is loaded afterwards and is not read again by later operations (its slot is
filled): the log after further operations keeps the earlier log as a prefix -/
theorem log_monotone (l : Lazy) (ops : List LOp) : ∃ more, (l.run ops).log = l.log ++ more := by
  sorry

/-- **index i returns the tree of the i-th file** (negative indices count from the end; out of range is
an IndexError and reads nothing) -/
theorem get_returns (l : Lazy) (key : Int) :
    (∀ l' k, l.get key = some (l', k) → getIdx key l.len = some k ∧ l'.len = l.len ∧ l'.cache.getD k false = true) ∧
    (getIdx key l.len = none → l.get key = none ∧ (l.step (.get key)).1 = l) := by
  sorry

/-- iteration returns the files in order -/
theorem iter_returns (l : Lazy) : (l.step .iter).2 = some (List.range l.len) := by
  sorry

/-! ## chaining -/

theorem cumsum_spec (lens : List Nat) :
    (cumsum lens).length = lens.length + 1 ∧
    ∀ i (h : i < (cumsum lens).length), (cumsum lens)[i] = (lens.take i).sum := by
  sorry

/-- **chaining has the right total length** -/
theorem chain_len (lens : List Nat) : chainLen lens = lens.sum := by
  sorry

/-- **chaining concatenates in order**: for every position `idx` of the concatenation (members may be
empty) the binary search returns the member `m` and the offset `j` with
`idx = |member 0| + … + |member m-1| + j` and `j < |member m|` -/
theorem chain_index (lens : List Nat) (idx : Nat) (h : idx < lens.sum) :
    ∃ m j, chainGet lens (idx : Int) = some (m, j) ∧ m < lens.length ∧ j < lens.getD m 0 ∧ (lens.take m).sum + j = idx := by
  sorry

/-- negative indices count from the end of the concatenation; out of range is an IndexError -/
theorem chain_index_neg (lens : List Nat) (key : Int) :
    (-(lens.sum : Int) ≤ key → key < 0 → chainGet lens key = chainGet lens (key + lens.sum)) ∧
    (key < -(lens.sum : Int) ∨ (lens.sum : Int) ≤ key → chainGet lens key = none) := by
  sorry

/-- a slice / filter view indexes through its index list -/
theorem nest_index (idx : List Int) (key : Int) :
    nestGet idx key = (getIdx key idx.length).map (fun k => idx.getD k 0) := by
  sorry

-- non-vacuity / concrete behaviour
example : ((populationInit 4).run [.get 2, .get (-1), .get 2, .iter, .get 0]).log = [0, 2, 3, 1] := by decide +kernel
example : chainGet [1, 5, 0, 3] 6 = some (3, 0) ∧ chainGet [1, 5, 0, 3] (-1) = some (3, 2) ∧ chainGet [1, 5, 0, 3] 9 = none := by decide +kernel
example : chainLen [1, 5, 0, 3] = 9 := by decide +kernel

end C19
