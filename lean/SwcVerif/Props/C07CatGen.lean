import SwcVerif.Props.C07Cat
import SwcVerif.Props.C07Gen
import SwcVerif.Refine.Cat
/-! # C07 (concatenation), tied to the source by the translator

`Gen.Algo.cat_tree` and the six-column `Gen.Algo.sort_tree6_` are regenerated from `swcgeom/core/tree_utils.py::cat_tree / _sort_tree`
on every run (two trees as column variables id, pid, type, x, y, z; node handles are row indices; `redirect_tree`, `Tree.Node.is_root`,
`Tree.Node.children` are the generated definitions of `Gen/AlgoRedirect`, `Gen/AlgoNode`).  `RefineCat.cat_core` proves that the generated
function builds exactly the table of the model `Redir.catPre` and hands it to the generated `_sort_tree`; here the domain is stated as
"two well-formed trees with equally long columns and a node of each", and `C07.cat_separate_sorted` / `C07.cat_merged_sorted` are
transported to the generated function: the call succeeds and returns a well-formed sorted tree with |t1|+|t2| (merged: −1) nodes. -/
namespace C07
open Redir SortM Gen.Algo

section cat
variable (p1 t1 x1 y1 z1 p2 t2 x2 y2 z2 : List Int) (node1 node2 : Nat) (translate : Bool)

/-- the domain: two tree objects with equally long columns, a node of each -/
structure CatDom : Prop where
  h1 : t1.length = p1.length ∧ x1.length = p1.length ∧ y1.length = p1.length ∧ z1.length = p1.length
  h2 : t2.length = p2.length ∧ x2.length = p2.length ∧ y2.length = p2.length ∧ z2.length = p2.length
  hn1 : node1 < p1.length
  hn2 : node2 < p2.length
  hw1 : WF p1
  hw2 : WF p2

theorem second_types_length : (second p2 t2 node2).types.length = t2.length := by
  unfold second
  split
  · rfl
  · exact redirect_types_length p2 t2 _

theorem redirected_root (hw2 : WF p2) (hn2 : node2 < p2.length) : (redirect p2 t2 (node2 : Int)).pids.getD node2 (-1) = -1 := by
  have hl := (redirect_pids p2 t2 hw2 node2 hn2).1
  rw [getD_default_irrel _ _ (by omega) (-1) 0]
  exact (redirect_root p2 t2 hw2 node2 hn2 node2 hn2).2 rfl

theorem eraseAt_nodup {α} (l : List α) (k : Nat) (h : l.Nodup) : (eraseAt l k).Nodup := by
  have : (eraseAt l k).Sublist l := by
    unfold eraseAt
    conv => rhs; rw [← List.take_append_drop k l]
    exact List.Sublist.append (List.Sublist.refl _) (List.drop_sublist_drop_left l (Nat.le_succ k))
  exact List.Nodup.sublist this h

theorem rangeI_nodup (n : Nat) : ((List.range n).map Int.ofNat).Nodup :=
  List.Pairwise.map _ (fun _ _ hab he => hab (Int.ofNat.inj he)) List.nodup_range

/-- the shape of the concatenated table: distinct ids, equally long columns, `|t1| + |t2|` rows (one less when merged) -/
theorem catPre_shape (d : CatDom p1 t1 x1 y1 z1 p2 t2 x2 y2 z2 node1 node2) :
    let c := catPre p1 t1 x1 y1 z1 p2 t2 x2 y2 z2 (node1 : Int) (node2 : Int) translate
    c.ids.Nodup ∧ c.ids.length ≤ p1.length + p2.length ∧
      (c.pids.length = c.ids.length ∧ c.types.length = c.ids.length ∧ c.x.length = c.ids.length ∧ c.y.length = c.ids.length ∧
        c.z.length = c.ids.length) := by
  obtain ⟨⟨ht1, hx1, hy1, hz1⟩, ⟨ht2, hx2, hy2, hz2⟩, hn1, hn2, hw1, hw2⟩ := d
  have hsl := second_length p2 t2 node2
  have hst := second_types_length p2 t2 node2
  by_cases hc : Coincident x1 y1 z1 x2 y2 z2 node1 node2 translate
  · rw [catPre_merged p1 t1 x1 y1 z1 p2 t2 x2 y2 z2 node1 node2 translate (by omega) (by omega) (by omega) hc]
    dsimp only
    rw [ids_eq]
    have hk : node2 + p1.length < p1.length + p2.length := by omega
    have e0 : ((List.range (p1.length + p2.length)).map Int.ofNat).length = p1.length + p2.length := by simp
    have e1 : (((tableKids ((List.range p2.length).map Int.ofNat) (second p2 t2 node2).pids (node2 : Int)).map
            (· + (p1.length : Int))).foldl (fun ps n => setAt ps n (node1 : Int))
            (p1 ++ (second p2 t2 node2).pids.map (· + (p1.length : Int)))).length = p1.length + p2.length := by
      rw [foldl_setAt_length]; simp [hsl]
    have e2 : (t1 ++ (second p2 t2 node2).types).length = p1.length + p2.length := by simp [hst]; omega
    have e3 : ∀ (a b : List Int) (f : Int → Int), a.length = p1.length → b.length = p2.length →
        (a ++ b.map f).length = p1.length + p2.length := by intro a b f ha hb; simp [ha, hb]
    have el : ∀ l : List Int, l.length = p1.length + p2.length → (eraseAt l (node2 + p1.length)).length = p1.length + p2.length - 1 := by
      intro l h; rw [eraseAt_length _ _ (by rw [h]; exact hk), h]
    refine ⟨eraseAt_nodup _ _ (rangeI_nodup _), ?_, ?_⟩
    · rw [el _ e0]; omega
    · simp only [el _ e0, el _ e1, el _ e2, el _ (e3 _ _ _ hx1 hx2), el _ (e3 _ _ _ hy1 hy2), el _ (e3 _ _ _ hz1 hz2), and_self]
  · rw [catPre_sep p1 t1 x1 y1 z1 p2 t2 x2 y2 z2 node1 node2 translate (by omega) (by omega) (by omega) hc]
    dsimp only
    rw [ids_eq]
    refine ⟨rangeI_nodup _, by simp, ?_⟩
    simp [setAt_length, hsl, hst]
    omega

/-- **`cat_tree` as translated on this run, on EVERY pair of well-formed trees with equally long columns and every pair of nodes**: the
call does not raise, the final renumbering of the model succeeds, and the returned columns are the model's: ids `arange`, the new
parents, and the type / x / y / z columns of `Redir.catPre` carried along by the row permutation — the generated function as a
whole IS `Redir.catTree` -/
theorem generated_cat_eq_model (d : CatDom p1 t1 x1 y1 z1 p2 t2 x2 y2 z2 node1 node2) (F : Nat) :
    let c := catPre p1 t1 x1 y1 z1 p2 t2 x2 y2 z2 (node1 : Int) (node2 : Int) translate
    ∃ r, sortNodesImpl c.ids c.pids = .ok r ∧
      cat_tree (p1.length + p2.length + 1 + F) (idsOf p1.length) p1 t1 x1 y1 z1 (idsOf p2.length) p2 t2 x2 y2 z2 node1 node2 translate =
        some (Py.range (c.ids.length : Int), r.newPids, permute c.types r.indices, permute c.x r.indices, permute c.y r.indices,
          permute c.z r.indices, ()) ∧
      catTree p1 t1 x1 y1 z1 p2 t2 x2 y2 z2 node1 node2 translate =
        some (r.newPids, r.idMap, ⟨r.idMap, r.newPids, permute c.x r.indices, permute c.y r.indices, permute c.z r.indices,
          permute c.types r.indices⟩) ∧
      WF r.newPids ∧ (∀ k (h : k < r.newPids.length), 0 < k → r.newPids[k] < (k : Int)) ∧
      r.newPids.length = c.ids.length := by
  intro c
  have d' := d
  obtain ⟨h1, h2, hn1, hn2, hw1, hw2⟩ := d
  obtain ⟨hnd, hle, hl⟩ := catPre_shape p1 t1 x1 y1 z1 p2 t2 x2 y2 z2 node1 node2 translate d'
  obtain ⟨hval, hlast⟩ := walk_ok p2 hw2 node2 hn2
  have hq := redirected_root p2 t2 node2 hw2 hn2
  -- the model's final sort succeeds (C07.cat_separate_sorted / cat_merged_sorted)
  have hsorted : ∃ newPids idMap c', catTree p1 t1 x1 y1 z1 p2 t2 x2 y2 z2 (node1 : Int) (node2 : Int) translate = some (newPids, idMap, c') ∧
      WF newPids ∧ (∀ k (h : k < newPids.length), 0 < k → newPids[k] < (k : Int)) ∧ newPids.length = c.pids.length := by
    by_cases hc : Coincident x1 y1 z1 x2 y2 z2 node1 node2 translate
    · obtain ⟨np, im, c', e, hwf, hs, hlen⟩ := cat_merged_sorted p1 t1 x1 y1 z1 p2 t2 x2 y2 z2 node1 node2 translate h1 h2 hn1 hn2 hw1 hw2 hc
      refine ⟨np, im, c', e, hwf, hs, ?_⟩
      rw [hlen, (cat_merged p1 t1 x1 y1 z1 p2 t2 x2 y2 z2 node1 node2 translate h1 h2 hn1 hn2 hw2 hc).1]
    · obtain ⟨np, im, c', e, hwf, hs, hlen⟩ := cat_separate_sorted p1 t1 x1 y1 z1 p2 t2 x2 y2 z2 node1 node2 translate h1 h2 hn1 hn2 hw1 hw2 hc
      refine ⟨np, im, c', e, hwf, hs, ?_⟩
      rw [hlen, (cat_separate p1 t1 x1 y1 z1 p2 t2 x2 y2 z2 node1 node2 translate h1 h2 hn1 hn2 hw2 hc).2.1]
  obtain ⟨np, im, c', e, hwf, hs, hlen⟩ := hsorted
  cases hr : sortNodesImpl c.ids c.pids with
  | error err =>
    have : catTree p1 t1 x1 y1 z1 p2 t2 x2 y2 z2 (node1 : Int) (node2 : Int) translate = none := by
      simp only [catTree]; rw [hr]
    rw [this] at e; cases e
  | ok r =>
    have hnp : np = r.newPids := by
      have : catTree p1 t1 x1 y1 z1 p2 t2 x2 y2 z2 (node1 : Int) (node2 : Int) translate =
          some (r.newPids, r.idMap, ⟨r.idMap, r.newPids, permute c.x r.indices, permute c.y r.indices, permute c.z r.indices,
            permute c.types r.indices⟩) := by
        simp only [catTree]; rw [hr]
      rw [this] at e
      cases e; rfl
    subst hnp
    obtain ⟨g1, g2⟩ := RefineCat.cat_refines p1 t1 x1 y1 z1 p2 t2 x2 y2 z2 node1 node2 translate h1 h2 hn1 hn2 hval hlast hq c rfl
      hnd hle hl r hr F
    exact ⟨r, rfl, g1, g2, hwf, hs, by rw [hlen, hl.1]⟩

/-- **non-coincident junction, the code as translated**: `cat_tree` returns a well-formed, sorted tree with every node of both trees -/
theorem generated_cat_separate_sorted (d : CatDom p1 t1 x1 y1 z1 p2 t2 x2 y2 z2 node1 node2) (hc : ¬ Coincident x1 y1 z1 x2 y2 z2 node1 node2 translate) (F : Nat) :
    ∃ ids pids types xs ys zs,
      cat_tree (p1.length + p2.length + 1 + F) (idsOf p1.length) p1 t1 x1 y1 z1 (idsOf p2.length) p2 t2 x2 y2 z2 node1 node2 translate =
        some (ids, pids, types, xs, ys, zs, ()) ∧
      ids = Py.range ((p1.length + p2.length : Nat) : Int) ∧ WF pids ∧ (∀ k (h : k < pids.length), 0 < k → pids[k] < (k : Int)) ∧
      pids.length = p1.length + p2.length := by
  obtain ⟨r, _, g1, _, hwf, hs, hlen⟩ := generated_cat_eq_model p1 t1 x1 y1 z1 p2 t2 x2 y2 z2 node1 node2 translate d F
  have hshape := catPre_shape p1 t1 x1 y1 z1 p2 t2 x2 y2 z2 node1 node2 translate d
  have hl : (catPre p1 t1 x1 y1 z1 p2 t2 x2 y2 z2 (node1 : Int) (node2 : Int) translate).ids.length = p1.length + p2.length := by
    rw [← hshape.2.2.1,
      (cat_separate p1 t1 x1 y1 z1 p2 t2 x2 y2 z2 node1 node2 translate d.h1 d.h2 d.hn1 d.hn2 d.hw2 hc).2.1]
  rw [hl] at g1 hlen
  exact ⟨_, _, _, _, _, _, g1, rfl, hwf, hs, hlen⟩

/-- **coincident junction nodes (always, when translation is requested), the code as translated**: `cat_tree` returns a well-formed,
sorted tree with `|tree1| + |tree2| − 1` nodes (the two junction nodes are one) -/
theorem generated_cat_merged_sorted (d : CatDom p1 t1 x1 y1 z1 p2 t2 x2 y2 z2 node1 node2) (hc : Coincident x1 y1 z1 x2 y2 z2 node1 node2 translate) (F : Nat) :
    ∃ ids pids types xs ys zs,
      cat_tree (p1.length + p2.length + 1 + F) (idsOf p1.length) p1 t1 x1 y1 z1 (idsOf p2.length) p2 t2 x2 y2 z2 node1 node2 translate =
        some (ids, pids, types, xs, ys, zs, ()) ∧
      ids = Py.range ((p1.length + p2.length - 1 : Nat) : Int) ∧ WF pids ∧ (∀ k (h : k < pids.length), 0 < k → pids[k] < (k : Int)) ∧
      pids.length = p1.length + p2.length - 1 := by
  obtain ⟨r, _, g1, _, hwf, hs, hlen⟩ := generated_cat_eq_model p1 t1 x1 y1 z1 p2 t2 x2 y2 z2 node1 node2 translate d F
  have hshape := catPre_shape p1 t1 x1 y1 z1 p2 t2 x2 y2 z2 node1 node2 translate d
  have hl : (catPre p1 t1 x1 y1 z1 p2 t2 x2 y2 z2 (node1 : Int) (node2 : Int) translate).ids.length = p1.length + p2.length - 1 := by
    rw [← hshape.2.2.1,
      (cat_merged p1 t1 x1 y1 z1 p2 t2 x2 y2 z2 node1 node2 translate d.h1 d.h2 d.hn1 d.hn2 d.hw2 hc).1]
  rw [hl] at g1 hlen
  exact ⟨_, _, _, _, _, _, g1, rfl, hwf, hs, hlen⟩

end cat

/-- non-vacuity (kernel-evaluated): the translated function on concrete trees — a coincident junction (translation; the junction node of
tree 2 is merged away, its two children hang from node 1 of tree 1) and a separate junction at an inner node of tree 2 (re-rooted first) -/
example : (cat_tree 8 (idsOf 2) [-1, 0] [1, 3] [0, 1] [0, 0] [0, 0] (idsOf 3) [-1, 0, 0] [1, 3, 3] [5, 6, 7] [0, 0, 0] [0, 0, 0] 1 0 true).map
      (fun t => [t.1, t.2.1, t.2.2.1, t.2.2.2.1, t.2.2.2.2.1, t.2.2.2.2.2.1]) =
    some [idsOf 4, [-1, 0, 1, 1], [1, 3, 3, 3], [0, 1, 3, 2], [0, 0, 0, 0], [0, 0, 0, 0]] := by decide +kernel
example : (cat_tree 8 (idsOf 2) [-1, 0] [1, 3] [0, 1] [0, 0] [0, 0] (idsOf 3) [-1, 0, 0] [1, 3, 4] [5, 6, 7] [0, 0, 0] [0, 0, 0] 1 2 false).map
      (fun t => [t.1, t.2.1, t.2.2.1, t.2.2.2.1, t.2.2.2.2.1, t.2.2.2.2.2.1]) =
    some [idsOf 5, [-1, 0, 1, 2, 3], [1, 3, 1, 4, 3], [0, 1, 7, 5, 6], [0, 0, 0, 0, 0], [0, 0, 0, 0, 0]] := by decide +kernel
example : CatDom [-1, 0] [1, 3] [0, 1] [0, 0] [0, 0] [-1, 0, 0] [1, 3, 4] [5, 6, 7] [0, 0, 0] [0, 0, 0] 1 2 :=
  ⟨by decide, by decide, by decide, by decide, by unfold WF; decide +kernel, by unfold WF; decide +kernel⟩

end C07
