import SwcVerif.Refine.Ctor
/-! # C03 ("no operation modifies what it was given"), tied to the source by the translator: the copying spellings of the normalizer

`Gen.Algo.copy_and_apply`, `mark_roots_as_somas`, `reset_index`, `sort_nodes`, `link_roots_to_nearest` are regenerated from
`swcgeom/core/swc_utils/normalizer.py` on every run, over a HEAP of frame objects (`Model/PyCtor.lean`): a DataFrame variable is a reference,
the in-place procedures update the frame their argument refers to, `df.copy()` allocates.  The frame condition is therefore a theorem about the
code as translated — with the `df = df.copy()` of `_copy_and_apply` removed the in-place procedure updates the caller's frame and
`generated_copy_and_apply_pure` (and everything below it) no longer holds. -/
namespace C03
open Gen.Algo Py RefineCtor

/-- **`_copy_and_apply(P_, df, …)` as translated leaves every frame that existed before the call as it was** (the frame handed in, and every
other one), for EVERY in-place procedure `P`, every heap and every reference: a successful call returns a NEW reference, the heap has exactly
one more object, and that object is `P` applied to the input's columns. -/
theorem generated_copy_and_apply_pure (P : Frame → Option Frame) (heap : Frames) (df : Int) (h' : Frames) (r : Int)
    (h : copy_and_apply (fun h d => Frames.apply h d P) heap df = some (h', r)) : Pure P heap df h' r :=
  pure_of_eq P heap df h' r (by rw [← copy_and_apply_lift]; exact h)

/-- … and it succeeds exactly when the reference is valid and the procedure succeeds on the input's columns; the result equals the in-place
procedure run on a copy -/
theorem generated_copy_and_apply_eq (P : Frame → Option Frame) (heap : Frames) (df : Int) :
    copy_and_apply (fun h d => Frames.apply h d P) heap df =
      (Frames.get? heap df).bind fun fr => (P fr).map fun fr' => (heap ++ [fr'], (heap.length : Int)) :=
  copy_and_apply_lift P heap df

/-- **`mark_roots_as_somas(df, update_type)`** = `mark_roots_as_somas_` on a copy; the input frame and every other frame are unchanged -/
theorem generated_mark_roots_as_somas_pure (heap : Frames) (df : Int) (ut : Option Int) (h' : Frames) (r : Int)
    (h : mark_roots_as_somas heap df ut = some (h', r)) : Pure (somasP ut) heap df h' r :=
  pure_of_eq _ heap df h' r (by rw [← mark_roots_as_somas_eq]; exact h)

/-- **`reset_index(df)`** = `reset_index_` on a copy; the input frame and every other frame are unchanged -/
theorem generated_reset_index_pure (heap : Frames) (df : Int) (h' : Frames) (r : Int)
    (h : reset_index heap df = some (h', r)) : Pure resetP heap df h' r :=
  pure_of_eq _ heap df h' r (by rw [← reset_index_eq]; exact h)

/-- **`sort_nodes(df)`** = `sort_nodes_` on a copy (every fuel); the input frame and every other frame are unchanged -/
theorem generated_sort_nodes_pure (fuel : Nat) (heap : Frames) (df : Int) (h' : Frames) (r : Int)
    (h : sort_nodes fuel heap df = some (h', r)) : Pure (sortP fuel) heap df h' r :=
  pure_of_eq _ heap df h' r (by rw [← sort_nodes_eq]; exact h)

/-- **`link_roots_to_nearest(df)`** = `link_roots_to_nearest_` on a copy (every distance callback, every fuel); the input frame and every
other frame are unchanged, and so is the callback state -/
theorem generated_link_roots_to_nearest_pure {σ : Type} [Inhabited σ] (norm : σ → Int → σ × List Int) (fuel : Nat) (heap : Frames) (df : Int)
    (cbs cbs' : σ) (h' : Frames) (r : Int) (h : link_roots_to_nearest norm fuel heap df cbs = some (h', cbs', r)) :
    Pure (nearestP norm fuel cbs) heap df h' r ∧ cbs' = cbs := by
  rw [link_roots_to_nearest_eq] at h
  cases hg : Frames.get? heap df with
  | none => rw [hg] at h; exact absurd h (by simp)
  | some fr =>
    rw [hg] at h
    simp only [Option.bind_some] at h
    cases hp : nearestP norm fuel cbs fr with
    | none => rw [hp] at h; exact absurd h (by simp)
    | some fr' =>
      rw [hp] at h
      simp only [Option.map_some, Option.some.injEq, Prod.mk.injEq] at h
      obtain ⟨rfl, rfl, rfl⟩ := h
      exact ⟨pure_of_eq _ heap df _ _ (by rw [hg]; simp only [Option.bind_some]; rw [hp]; rfl), rfl⟩

/-- the equational forms (success conditions included): the copying spelling = the in-place procedure on a copy appended to the heap -/
theorem generated_copying_eq (fuel : Nat) (heap : Frames) (df : Int) (ut : Option Int) :
    (mark_roots_as_somas heap df ut =
      (Frames.get? heap df).bind fun fr => (somasP ut fr).map fun fr' => (heap ++ [fr'], (heap.length : Int))) ∧
    (reset_index heap df = (Frames.get? heap df).bind fun fr => (resetP fr).map fun fr' => (heap ++ [fr'], (heap.length : Int))) ∧
    (sort_nodes fuel heap df = (Frames.get? heap df).bind fun fr => (sortP fuel fr).map fun fr' => (heap ++ [fr'], (heap.length : Int))) :=
  ⟨mark_roots_as_somas_eq heap df ut, reset_index_eq heap df, sort_nodes_eq fuel heap df⟩

/-- non-vacuity (kernel-evaluated): a bystander frame, the input frame (two roots, ids from 5); the result is object 2, objects 0 and 1 are as
they were -/
example :
    let heap : Frames := [⟨[7, 8], [-1, 7], [1, 2], [4, 4]⟩, ⟨[5, 6, 7, 9], [-1, 5, -1, 7], [1, 3, 3, 3], [4, 4, 4, 4]⟩]
    mark_roots_as_somas heap 1 (some 1) = some (heap ++ [⟨[5, 6, 7, 9], [-1, 5, 5, 7], [1, 3, 3, 3], [4, 4, 4, 4]⟩], 2) ∧
    reset_index heap 1 = some (heap ++ [⟨[0, 1, 2, 4], [-1, 0, -1, 2], [1, 3, 3, 3], [4, 4, 4, 4]⟩], 2) ∧
    sort_nodes 20 heap 0 = some (heap ++ [⟨[0, 1], [-1, 0], [1, 2], [4, 4]⟩], 2) ∧
    sort_nodes 20 heap 1 = none ∧ reset_index heap 2 = none := by decide +kernel

end C03
