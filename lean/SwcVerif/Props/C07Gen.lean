import SwcVerif.Props.C07
import SwcVerif.Refine.Redirect
import SwcVerif.Proofs.Pipeline
/-! # C07, tied to the source by the translator

`Gen.Algo.redirect_tree`, `Gen.Algo.sort_tree_` and the node-handle methods (`Gen.Algo.node_parent`, …) are regenerated from
`swcgeom/core/tree_utils.py::redirect_tree / _sort_tree` and `swcgeom/core/tree.py::Tree.Node.parent` on every run (node handles are
row indices, the copied tree is its columns `ids`, `pids`, `types`).  `RefineRedirect.redirect_core` proves that the generated
function rewrites the columns exactly as the model `Redir.redirect` says — so the C07 theorems (`redirect_pids`, `redirect_edges`,
`redirect_root`, `redirect_types`) speak about the code as translated — and that with `sort=True` the generated `_sort_tree`
(C05's `sort_nodes_impl` as translated, plus the gather of every column) is applied to exactly those columns. -/
namespace C07
open Redir SortM Gen.Algo

/-- the tree object: ids = positions -/
def idsOf (n : Nat) : List Int := (List.range n).map (fun (j : Nat) => (j : Int))

theorem walk_ok (pids : List Int) (hw : WF pids) (k : Nat) (hk : k < pids.length) :
    (∀ w ∈ rootPath pids pids.length (k : Int), 0 ≤ w ∧ w < pids.length) ∧
    (∀ z, (rootPath pids pids.length (k : Int)).getLast? = some z → pids.getD z.toNat (-1) = -1) := by
  obtain ⟨_, hlast, _, hval, _⟩ := rootPath_spec pids hw k hk
  refine ⟨hval, ?_⟩
  intro z hz
  rw [hlast] at hz
  cases hz
  exact hw.par_root

/-- **`Tree.Node.parent` as translated** is the entry of the parent column (`None` for the root's −1) -/
theorem generated_parent (pids : List Int) (k : Nat) (hk : k < pids.length) :
    node_parent pids (k : Int) = some (if pids.getD k (-1) = -1 then none else some (pids.getD k (-1))) := by
  have := RefineRedirect.node_parent_spec pids (k : Int) (by omega) (by omega)
  simpa using this

/-- **`redirect_tree(tree, k, sort=False)` as translated on this run, on EVERY well-formed tree and node**: nothing raises, the id
column is untouched and the parent / type columns are exactly the model's -/
theorem generated_redirect_eq_model (pids types : List Int) (hw : WF pids) (hl : types.length = pids.length) (k : Nat)
    (hk : k < pids.length) (F : Nat) :
    redirect_tree (pids.length + 1 + F) (idsOf pids.length) pids types (k : Int) false =
      some (idsOf pids.length, (redirect pids types (k : Int)).pids, (redirect pids types (k : Int)).types, ()) := by
  obtain ⟨hval, hlast⟩ := walk_ok pids hw k hk
  exact RefineRedirect.redirect_nosort pids types (k : Int) hl hval hlast F

/-- the clauses of the property for the code as translated (`sort=False`): the requested node is the unique root, every node keeps
its position, and the undirected edge set is unchanged -/
theorem generated_redirect_root (pids types : List Int) (hw : WF pids) (hl : types.length = pids.length) (k : Nat)
    (hk : k < pids.length) (F : Nat) :
    ∃ ps ts, redirect_tree (pids.length + 1 + F) (idsOf pids.length) pids types (k : Int) false = some (idsOf pids.length, ps, ts, ()) ∧
      ps.length = pids.length ∧ (∀ v, v < pids.length → (ps.getD v 0 = -1 ↔ v = k)) :=
  ⟨_, _, generated_redirect_eq_model pids types hw hl k hk F, (redirect_pids pids types hw k hk).1,
    fun v hv => redirect_root pids types hw k hk v hv⟩

theorem redirect_types_length (pids types : List Int) (k : Int) : (redirect pids types k).types.length = types.length := by
  simp [redirect, setAt_length]

/-- **`redirect_tree(tree, k, sort=True)` as translated, on EVERY well-formed tree and node**: the final renumbering succeeds, the
result has ids `arange(n)`, the parents of a well-formed SORTED tree, and the (exchanged) type column carried along by the row
permutation of C05's model -/
theorem generated_redirect_sorted (pids types : List Int) (hw : WF pids) (hl : types.length = pids.length) (k : Nat)
    (hk : k < pids.length) (F : Nat) :
    ∃ res, sortNodesImpl (idsOf pids.length) (redirect pids types (k : Int)).pids = .ok res ∧
      redirect_tree (pids.length + 1 + F) (idsOf pids.length) pids types (k : Int) true =
        some (Py.range (pids.length : Int), res.newPids, permute (redirect pids types (k : Int)).types res.indices, ()) ∧
      WF res.newPids ∧ (∀ j (h : j < res.newPids.length), 0 < j → res.newPids[j] < (j : Int)) ∧ res.newPids.length = pids.length := by
  obtain ⟨hval, hlast⟩ := walk_ok pids hw k hk
  have hlen := (redirect_pids pids types hw k hk).1
  have hwr := Pipeline.redirect_wfr pids types hw k hk
  obtain ⟨res, hres, hwf, hs, hl2⟩ := Pipeline.wfr_sorted _ k hwr
  rw [hlen] at hres hl2
  have hres' : sortNodesImpl (idsOf pids.length) (redirect pids types (k : Int)).pids = .ok res := hres
  refine ⟨res, hres', ?_, hwf, hs, hl2⟩
  exact RefineRedirect.redirect_sort pids types (k : Int) hl hval hlast hlen
    (by rw [redirect_types_length, hl]) res hres' F

/-- with `sort=True` the generated function returns exactly what the model `redirectSorted` returns -/
theorem generated_redirect_sorted_eq_model (pids types : List Int) (hw : WF pids) (hl : types.length = pids.length) (k : Nat)
    (hk : k < pids.length) (F : Nat) :
    (redirect_tree (pids.length + 1 + F) (idsOf pids.length) pids types (k : Int) true).map (fun t => (t.2.1, t.2.2.1)) =
      (redirectSorted pids types (k : Int)).map (fun m => (m.1, m.2.2)) := by
  obtain ⟨res, hres, hgen, _⟩ := generated_redirect_sorted pids types hw hl k hk F
  have hres' : sortNodesImpl ((List.range pids.length).map Int.ofNat) (redirect pids types (k : Int)).pids = .ok res := hres
  rw [hgen]
  simp [redirectSorted, hres']

/-- non-vacuity (kernel-evaluated): the translated function on a concrete 5-node tree, re-rooted at node 3, both modes -/
example : redirect_tree 8 (idsOf 5) [-1, 0, 1, 1, 0] [1, 3, 3, 2, 4] 3 false = some (idsOf 5, [1, 3, 1, -1, 0], [2, 3, 3, 1, 4], ()) := by
  decide +kernel
example : redirect_tree 8 (idsOf 5) [-1, 0, 1, 1, 0] [1, 3, 3, 2, 4] 3 true = some (idsOf 5, [-1, 0, 1, 1, 3], [1, 3, 3, 2, 4], ()) := by
  decide +kernel

end C07
