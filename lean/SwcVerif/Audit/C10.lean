import SwcVerif.Props.C10
import SwcVerif.Proofs.Represent
import SwcVerif.Props.C10Gen
#print axioms C10.length_eq_sum_edges
#print axioms C10.chainLength_eq
#print axioms C10.length_eq_sum_branches
#print axioms C10.branches_eq
#print axioms C10.counts
#print axioms C10.path_distance_eq_sum
#print axioms C10.branch_order_eq_furcations_on_path
#print axioms C10.terminal_degree_eq_tips_below
#print axioms C10.sholl_eq_straddle_count
#print axioms C10.partition_asymmetry_def
#print axioms C10.fragmentation_eq
#print axioms C10.population_rows
#print axioms Represent.wf_represented
#print axioms RefineLm.branchOrder_refines
#print axioms RefineLm.nStems_refines
#print axioms RefineLm.getTips_refines
#print axioms RefineLm.nTips_refines
#print axioms RefineLm.nBifs_refines
#print axioms RefineLm.nBranch_refines
#print axioms RefineLm.fragmentation_refines
#print axioms RefineLm.node_subtree_eq
#print axioms RefineLm.terminalDegree_reduces
#print axioms RefineLm.subtree_bound
#print axioms RefineLm.kids_closed
#print axioms RefineLm.terminalDegree_refines
#print axioms C10.generated_terminal_degree
#print axioms C10.generated_terminal_degree_wf
#print axioms C10.generated_branch_order
#print axioms C10.generated_branch_order_eq_model
#print axioms C10.generated_n_stems
#print axioms C10.generated_n_tips
#print axioms C10.generated_n_tips_tree
#print axioms C10.generated_n_bifs
#print axioms C10.generated_n_branch
#print axioms C10.generated_fragmentation
