import SwcVerif.Props.C10
import SwcVerif.Proofs.Represent
#print axioms C10.length_eq_sum_edges
#print axioms C10.chainLength_eq
#print axioms C10.length_eq_sum_branches
#print axioms C10.branches_eq
#print axioms C10.counts
#print axioms C10.path_distance_eq_sum
#print axioms C10.branch_order_eq_furcations_on_path
#print axioms C10.terminal_degree_eq_tips_below
#print axioms C10.sholl_eq_straddle_count
#print axioms C10.partition_asymmetry_def
#print axioms C10.fragmentation_eq
#print axioms C10.population_rows
#print axioms Represent.wf_represented
