import SwcVerif.Props.C01
import SwcVerif.Props.C01Gen
import SwcVerif.Props.C01Front
#print axioms C01.writer_consts_pinned
#print axioms C01.digits_parse
#print axioms C01.fmt4_parse
#print axioms C01.row_roundtrip
#print axioms C01.comment_roundtrip
#print axioms C01.comment_text_same
#print axioms C01.header_dropped
#print axioms C01.written_lines_are_lines
#print axioms C01.table_roundtrip
#print axioms C01.comments_roundtrip
#print axioms C01.reset_restores
#print axioms RefineWriter.get_v_spec
#print axioms RefineWriter.to_swc_refines
#print axioms RefineWriter.swclike_to_swc_refines
#print axioms RefineWriter.to_swc_eq_writeLines
#print axioms RefineWriter.swclike_to_swc_eq_writeSwc
#print axioms C01.generated_to_swc_spec
#print axioms C01.generated_swclike_spec
#print axioms C01.generated_lines_eq_model
#print axioms C01.generated_writer_eq_model
#print axioms C01.generated_row_roundtrip
#print axioms C01.generated_table_roundtrip
#print axioms C01.generated_comments_roundtrip
#print axioms C01.generated_roundtrip_reset
#print axioms C01.generated_write_generated_read
#print axioms C01.generated_write_generated_read_front
