import SwcVerif.Props.C01
