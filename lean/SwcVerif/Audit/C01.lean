import SwcVerif.Props.C01
import SwcVerif.Props.C01Gen
#print axioms C01.writer_consts_pinned
#print axioms C01.digits_parse
#print axioms C01.fmt4_parse
#print axioms C01.row_roundtrip
#print axioms C01.comment_roundtrip
#print axioms C01.comment_text_same
#print axioms C01.header_dropped
#print axioms C01.written_lines_are_lines
#print axioms C01.table_roundtrip
#print axioms C01.comments_roundtrip
#print axioms C01.reset_restores
