import SwcVerif.Props.C18
