import SwcVerif.Props.C18
import SwcVerif.Props.C05
import SwcVerif.Props.C18Gen
#print axioms C18.dsu_refines_partition
#print axioms C18.runOps_cons
#print axioms C18.invalid_rejected
#print axioms C18.hasCyclic_spec
#print axioms C18.isBifurcate_correct
#print axioms C18.jumpPass_stop
#print axioms C18.getDsu_fixpoint
#print axioms C18.getDsu_sorted_forest
#print axioms Dsu.jumpLoop_forest
#print axioms C18.getDsu_forest
#print axioms C18.forest_single_label_iff
#print axioms Dsu.jumpLoop_conn
#print axioms C18.getDsu_labels_are_components
#print axioms C18.repair_somas
#print axioms C18.repair_nearest_partial
#print axioms Dsu.linkLoop_inv
#print axioms C18.repair_nearest_tree
#print axioms Dsu.cycle_strict
#print axioms Dsu.jumpLoop_terminates
#print axioms C18.getDsu_total
#print axioms C18.isSingleRoot_total
#print axioms C05.isSorted_iff
#print axioms RefineDsu.find_refines
#print axioms RefineDsu.union_refines
#print axioms RefineDsu.same_refines
#print axioms RefineDsu.init_refines
#print axioms RefineDsu.script_refines
#print axioms RefineDsu.script_refines_init
#print axioms C18.generated_dsu_refines_partition
#print axioms RefineCheckers.getDsu_refines
#print axioms C18.generated_getDsu_eq_model
#print axioms C18.generated_getDsu_total
