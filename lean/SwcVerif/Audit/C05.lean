import SwcVerif.Props.C05
import SwcVerif.Props.C05Gen
import SwcVerif.Props.C05Wrap
#print axioms C05.machine_eq_pre
#print axioms C05.sort_ok
#print axioms C05.sort_perm
#print axioms C05.sort_sorted
#print axioms C05.sort_parent
#print axioms C05.sort_root
#print axioms C05.sort_indices
#print axioms C05.edge_is_row
#print axioms C05.sort_columns
#print axioms C05.sort_again
#print axioms C05.isSorted_iff
#print axioms RefineSort.sort_refines
#print axioms C05.generated_sort_ok
#print axioms C05.generated_eq_model
#print axioms C05.generated_sort_tree_eq
#print axioms C05.generated_sort_tree_ok
#print axioms C05.sortNodes_refines
#print axioms C05.generated_sort_nodes_inplace_ok
#print axioms C05.generated_sort_nodes_ok
