import SwcVerif.Props.C13
import SwcVerif.Refine.VolCtl
#print axioms C13.sphere_volume
#print axioms C13.cap_volume
#print axioms C13.frustum_volume
#print axioms C13.frustum_symm
#print axioms C13.lens_disjoint
#print axioms C13.lens_nested
#print axioms C13.lens_proper
#print axioms C13.lens_volume
#print axioms C13.lens_symm
#print axioms C13.concentric_wide
#print axioms C13.concentric_narrow
#print axioms C13.concentric_volume
#print axioms C13.exitT_on_sphere
#print axioms C13.exitT_eq_model
#print axioms C13.union_volume
#print axioms RefineVolCtl.sphere_volume_gen
#print axioms RefineVolCtl.generated_sphere2_cases
#print axioms RefineVolCtl.generated_sphere2_true_volume
