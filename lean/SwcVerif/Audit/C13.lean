import SwcVerif.Props.C13
