import SwcVerif.Props.C08
#print axioms C08.getBranches_eq
#print axioms C08.branches_partition_edges
#print axioms C08.branch_shape
#print axioms C08.branch_ends
#print axioms C08.getPaths_eq
#print axioms C08.paths_one_per_tip
#print axioms C08.tips_eq_childless
#print axioms C08.tipsOf_childless
#print axioms C08.furcations_eq
#print axioms C08.furcsOf_ge2
#print axioms C08.branchTree_table
