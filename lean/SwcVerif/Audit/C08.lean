import SwcVerif.Props.C08
import SwcVerif.Props.C08Gen
import SwcVerif.Props.C08Node
#print axioms C08.getBranches_eq
#print axioms C08.branches_partition_edges
#print axioms C08.branch_shape
#print axioms C08.branch_ends
#print axioms C08.getPaths_eq
#print axioms C08.paths_one_per_tip
#print axioms C08.tips_eq_childless
#print axioms C08.tipsOf_childless
#print axioms C08.furcations_eq
#print axioms C08.furcsOf_ge2
#print axioms C08.branchTree_table
#print axioms RefineClosures.spec_wrap
#print axioms RefineClosures.traverse_closures
#print axioms RefineBranches.collectBranches_refines
#print axioms RefineBranches.collectFurcations_refines
#print axioms RefineBranches.assignPath_refines
#print axioms RefineBranches.collectPath_refines
#print axioms RefineBranches.getBranches_refines
#print axioms RefineBranches.getFurcations_refines
#print axioms C08.generated_getBranches_eq
#print axioms C08.generated_getBranches_eq_model
#print axioms C08.generated_furcations_eq
#print axioms RefineNode.node_parent_spec
#print axioms RefineNode.node_is_root_spec
#print axioms RefineNode.node_children_spec
#print axioms RefineNode.node_is_furcation_spec
#print axioms RefineNode.node_is_tip_spec
#print axioms RefineNodeBranch.getTips_refines
#print axioms C08.generated_tips_childless
#print axioms C08.generated_tips_eq_tipsOf
