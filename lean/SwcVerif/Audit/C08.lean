import SwcVerif.Props.C08
