import SwcVerif.Props.C19
import SwcVerif.Props.C19Gen
import SwcVerif.Props.C19Front
import SwcVerif.Props.C19Map
import SwcVerif.Refine.PopFromSwc
#print axioms C19.getIdx_spec
#print axioms C19.step_len
#print axioms C19.load_at_most_once
#print axioms C19.loads_only_on_demand
#print axioms C19.log_monotone
#print axioms C19.get_returns
#print axioms C19.iter_returns
#print axioms C19.cumsum_spec
#print axioms C19.chain_len
#print axioms C19.chain_index
#print axioms C19.chain_index_neg
#print axioms C19.nest_index
#print axioms RefinePop.getIdx_refines
#print axioms RefinePop.nest_refines
#print axioms RefinePop.bsearch_refines
#print axioms RefinePop.load_refines
#print axioms RefinePop.getitem_refines
#print axioms C19.generated_chain_init
#print axioms C19.generated_chain_len
#print axioms C19.generated_chain_getitem
#print axioms C19.genGets_refines
#print axioms C19.generated_load_at_most_once
#print axioms RefinePopFront.pop_len_refines
#print axioms RefinePopFront.pop_getitem_int_refines
#print axioms RefinePopFront.pop_init_refines
#print axioms RefinePopFront.nestl_getitem_refines
#print axioms RefinePopFront.pop_getitem_slice_refines
#print axioms C19.generated_pop_getitem
#print axioms C19.frontStep_inv
#print axioms C19.generated_front_load_at_most_once
#print axioms C19.slice_indices_eq_spec
#print axioms C19.generated_pop_slice
#print axioms C19.generated_to_population
#print axioms RefinePopMap.find_swcs_refines
#print axioms RefinePopMap.lazy_iter_refines
#print axioms RefinePopMap.pop_map_refines
#print axioms C19.generated_find_swcs
#print axioms C19.generated_find_swcs_order
#print axioms C19.frontState_inv
#print axioms C19.generated_map_results
#print axioms C19.generated_map_load_at_most_once
#print axioms RefineFromSwc.lazy_init_eq
#print axioms RefineFromSwc.pop_init_fresh
#print axioms RefineFromSwc.pops_init_eq
#print axioms RefineFromSwc.fs_for5_loop
#print axioms RefineFromSwc.body_split
#print axioms RefineFromSwc.pops_from_swc_tail
#print axioms RefineFromSwc.pops_from_swc_plain
#print axioms RefineFromSwc.pops_from_swc_check
#print axioms RefineFromSwc.pops_from_swc_intersect
#print axioms RefineFromSwc.pops_from_swc_refines
#print axioms RefineFromSwc.mem_interAll
#print axioms RefineFromSwc.from_swc_rows
