import SwcVerif.Props.C19
#print axioms C19.getIdx_spec
#print axioms C19.step_len
#print axioms C19.load_at_most_once
#print axioms C19.loads_only_on_demand
#print axioms C19.log_monotone
#print axioms C19.get_returns
#print axioms C19.iter_returns
#print axioms C19.cumsum_spec
#print axioms C19.chain_len
#print axioms C19.chain_index
#print axioms C19.chain_index_neg
#print axioms C19.nest_index
