import SwcVerif.Props.C19
