import SwcVerif.Props.C14
