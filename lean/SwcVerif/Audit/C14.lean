import SwcVerif.Props.C14
import SwcVerif.Props.C14Gen
#print axioms C14.tree_volume_eq_sum
#print axioms C14.level1_every_tree
#print axioms C14.level2_every_tree
#print axioms C14.level3_every_tree
#print axioms C14.level5_every_tree
#print axioms C14.node_level1
#print axioms C14.node_level2
#print axioms C14.node_level3
#print axioms C14.node_level5
#print axioms RefineVolume.vol_leave_eq
#print axioms RefineVolume.spec_vol_leave
#print axioms RefineVolume.getVolume_refines
#print axioms RefineVolume.getVolume_level10
#print axioms C14.generated_volume_eq_model
#print axioms C14.generated_level1_every_tree
#print axioms C14.generated_level2_every_tree
#print axioms C14.generated_level3_every_tree
#print axioms C14.generated_volume_every_tree
#print axioms C14.chain_union
#print axioms C14.chain_hyps_of_pairwise
#print axioms C14.sum_chainRose
#print axioms C14.chain_volume_is_union
#print axioms C14.two_arm_volume_is_union
#print axioms C14.lens_inside_frustum
