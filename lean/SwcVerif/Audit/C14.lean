import SwcVerif.Props.C14
#print axioms C14.tree_volume_eq_sum
#print axioms C14.level1_every_tree
#print axioms C14.level2_every_tree
#print axioms C14.level3_every_tree
#print axioms C14.level5_every_tree
#print axioms C14.node_level1
#print axioms C14.node_level2
#print axioms C14.node_level3
#print axioms C14.node_level5
#print axioms C14.chain_union
#print axioms C14.chain_hyps_of_pairwise
#print axioms C14.sum_chainRose
#print axioms C14.chain_volume_is_union
#print axioms C14.two_arm_volume_is_union
#print axioms C14.lens_inside_frustum
