import SwcVerif.Props.C03
import SwcVerif.Props.C03Cat
#print axioms C03.wf_of_sorted
#print axioms C03.sort_wf
#print axioms C03.subtree_wf
#print axioms C03.prune_wf
#print axioms C03.redirect_wf
#print axioms C03.redirect_nosort_root_position
#print axioms C03.op_wf
#print axioms C03.pipeline_wf
#print axioms C03.inputs_untouched
#print axioms Represent.wf_represented
#print axioms Represent.represented_wf
#print axioms Represent.wf_subtree_represented
#print axioms C03.op2_wf
#print axioms C03.pipeline2_wf
