import SwcVerif.Props.C03
import SwcVerif.Props.C03Cat
import SwcVerif.Props.C03Gen
import SwcVerif.Props.C03Init
#print axioms C03.wf_of_sorted
#print axioms C03.sort_wf
#print axioms C03.subtree_wf
#print axioms C03.prune_wf
#print axioms C03.redirect_wf
#print axioms C03.redirect_nosort_root_position
#print axioms C03.op_wf
#print axioms C03.pipeline_wf
#print axioms C03.inputs_untouched
#print axioms Represent.wf_represented
#print axioms Represent.represented_wf
#print axioms Represent.wf_subtree_represented
#print axioms C03.op2_wf
#print axioms C03.pipeline2_wf
#print axioms RefineCtor.get?_old
#print axioms RefineCtor.get?_fresh
#print axioms RefineCtor.apply_new
#print axioms RefineCtor.copy_and_apply_spec
#print axioms RefineCtor.copy_and_apply_lift
#print axioms RefineCtor.pure_of_eq
#print axioms RefineCtor.mark_roots_as_somas_eq
#print axioms RefineCtor.reset_index_eq
#print axioms RefineCtor.sort_nodes_eq
#print axioms RefineCtor.link_roots_to_nearest_eq
#print axioms C03.generated_copy_and_apply_pure
#print axioms C03.generated_copy_and_apply_eq
#print axioms C03.generated_mark_roots_as_somas_pure
#print axioms C03.generated_reset_index_pure
#print axioms C03.generated_sort_nodes_pure
#print axioms C03.generated_link_roots_to_nearest_pure
#print axioms C03.generated_copying_eq
#print axioms RefineCtorInit.pad_none
#print axioms RefineCtorInit.pad_alias
#print axioms RefineCtorInit.pad_short
#print axioms RefineCtorInit.pad_cast
#print axioms RefineCtorInit.padding1d_none_ok
#print axioms RefineCtorInit.padding1d_some_ok
#print axioms RefineCtorInit.tree_init_eq
#print axioms RefineCtorInit.step_ok
#print axioms RefineCtorInit.padAll_ok
#print axioms RefineCtorInit.tree_init_ok
#print axioms C03.generated_padding1d_spec
#print axioms C03.generated_tree_init_spec
#print axioms C03.generated_tree_init_given
