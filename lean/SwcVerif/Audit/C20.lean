import SwcVerif.Props.C20
import SwcVerif.Props.C20Gen
#print axioms C20.consts_pinned
#print axioms C20.save_puts_z_first
#print axioms C20.axes_roundtrip
#print axioms C20.axes_roundtrip_3d
#print axioms C20.unknown_axis
#print axioms C20.rescale_table
#print axioms C20.uint_float_uint
#print axioms C20.float_uint_float
#print axioms C20.grid_covers
#print axioms C20.bbox_contains
#print axioms C20.swept_ends
#print axioms C20.contained_swept_in_ball
#print axioms C20.contained_swept_in_ball'
#print axioms C20.degenerate_edge_is_ball
#print axioms C20.coincident_is_ball
