import SwcVerif.Props.C20
