import SwcVerif.Props.C06
import SwcVerif.Props.C06Gen
#print axioms C06.toSubTopology_spec
#print axioms C06.toSubTopology_ok_iff
#print axioms C06.attrs_preserved
#print axioms C06.subtree_nodes
#print axioms C06.propagate_marks
#print axioms C06.removedSet_all
#print axioms C06.removedSet_sound
#print axioms C06.toSubtree_kept
#print axioms C06.cutEnter_removed
#print axioms C06.cutLeave_removed
#print axioms C06.cutByType_kept
#print axioms C06.cutByOrder_rule
#print axioms C06.isFurcation_iff
#print axioms C06.cutShortTip_removed
#print axioms RefineSub.toSubTopology_refines
#print axioms C06.generated_toSubTopology_eq_model
#print axioms RefineClosures.spec_wrap
#print axioms RefineClosures.spec_wrap_on
#print axioms RefineClosures.traverse_closures_on
#print axioms RefineClosures.spec_abs
#print axioms C06.generated_getSubtree_eq_model
#print axioms C06.propagate_closure
#print axioms C06.absMark_step
#print axioms C06.generated_propagateRemoval
