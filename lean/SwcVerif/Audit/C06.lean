import SwcVerif.Props.C06
