import SwcVerif.Props.C17
