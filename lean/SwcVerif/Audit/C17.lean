import SwcVerif.Props.C17
#print axioms C17.init_inv
#print axioms C17.greedy_step
#print axioms C17.step_inv
#print axioms C17.spanning
#print axioms C17.branching_limit
#print axioms C17.prim_step
#print axioms C17.prim_minimal
#print axioms C17.prim_attains
