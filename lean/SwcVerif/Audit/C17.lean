import SwcVerif.Props.C17
import SwcVerif.Props.C17Gen
import SwcVerif.Props.C17Front
import SwcVerif.Props.C17Rest
#print axioms C17.init_inv
#print axioms C17.greedy_step
#print axioms C17.step_inv
#print axioms C17.spanning
#print axioms C17.branching_limit
#print axioms C17.prim_step
#print axioms C17.prim_minimal
#print axioms C17.prim_attains
#print axioms Py.maArgmin_spec
#print axioms Py.unravelIndex_nat
#print axioms RefineMst.maArgmin_eq
#print axioms RefineMst.for1_step
#print axioms RefineMst.mst_loop_refines
#print axioms RefineMst.mst_loop_raises
#print axioms C17.generated_mst_eq_model
#print axioms C17.generated_mst_raises
#print axioms C17.generated_spanning
#print axioms C17.generated_branching_limit
#print axioms C17.generated_greedy_step
#print axioms C17.generated_prim_minimal
#print axioms C17.generated_prim_attains
#print axioms RefineMstFront.for1_step'
#print axioms RefineMstFront.mst_call_refines
#print axioms C17.generated_call_eq_model
#print axioms C17.table_rows
#print axioms C17.generated_call_spanning
#print axioms C17.generated_call_branching_limit
#print axioms C17.generated_call_prim_minimal
#print axioms C17.generated_call_prim_attains
#print axioms C17.generated_call_raises_empty
#print axioms C17.generated_call_raises_bad_soma
#print axioms C17.generated_cuntz_init
#print axioms C17.clip_spec
#print axioms C17.generated_mst_init
#print axioms C17.generated_ctor_limit
#print axioms C17.generated_cuntz_ctor
#print axioms C17.rootPath_of_up
#print axioms C17.wfr_of_spanning
#print axioms C17.generated_tail_sorted
#print axioms C17.generated_call_sorted_spanning
