import SwcVerif.Props.C11
import SwcVerif.Proofs.Invariance
import SwcVerif.Props.C11Gen
#print axioms C11.rigid_preserves_distances
#print axioms C11.scale_distances
#print axioms C11.lengths_scale
#print axioms C11.ratio_scale
#print axioms C11.sholl_scale
#print axioms C11.counts_geometry_free
#print axioms C11.features_factor
#print axioms C11.length_relabel
#print axioms C11.volume_scale
#print axioms C11.concentric_scale'
#print axioms C11.concentric_scale_eps0
#print axioms C11.concentric_scale_counterexample
#print axioms C11.exitT_scale
#print axioms C11.edgeDot_from_distances
#print axioms C11.angle_invariant_of_isometry
#print axioms C11.rigid_preserves_angles
#print axioms C11.angle_data_scale
#print axioms C11.generated_lmgeo_under_map
#print axioms C11.generated_bif_angles_under_map
#print axioms C11.generated_nodefeat_under_map
#print axioms C11.generated_sholl_under_map
#print axioms C11.generated_rigid_invariance
#print axioms C11.generated_scale
#print axioms C11.generated_branch_angle_scale
#print axioms C11.generated_rigid_source_matrices
#print axioms C11.generated_counts_coordinate_free
#print axioms C11.generated_counts_renumbered
#print axioms C11.generated_n_stems_renumbered
#print axioms C11.generated_tree_length_renumbered
#print axioms C11.moved_mapCols
#print axioms Invar.rigid_rowRel
#print axioms Invar.scale_rowRel
#print axioms Invar.Homog.scale
#print axioms Invar.path_length_general
