import SwcVerif.Props.C11
#print axioms C11.rigid_preserves_distances
#print axioms C11.scale_distances
#print axioms C11.lengths_scale
#print axioms C11.ratio_scale
#print axioms C11.sholl_scale
#print axioms C11.counts_geometry_free
#print axioms C11.features_factor
#print axioms C11.length_relabel
#print axioms C11.volume_scale
#print axioms C11.concentric_scale'
#print axioms C11.concentric_scale_eps0
#print axioms C11.concentric_scale_counterexample
#print axioms C11.exitT_scale
#print axioms C11.edgeDot_from_distances
#print axioms C11.angle_invariant_of_isometry
#print axioms C11.rigid_preserves_angles
#print axioms C11.angle_data_scale
