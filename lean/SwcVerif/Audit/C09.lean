import SwcVerif.Props.C09
import SwcVerif.Props.C09Gen
import SwcVerif.Props.C09Helpers
#print axioms C09.mkTree_wf
#print axioms C09.step_wf
#print axioms C09.run_wf
#print axioms C09.at_spec
#print axioms C09.view_reads_owner
#print axioms C09.reads_pure
#print axioms C09.node_write_through
#print axioms C09.write_then_view_read
#print axioms C09.copy_fresh
#print axioms C09.detach_fresh
#print axioms C09.write_frame
#print axioms C09.tree_segments
#print axioms C09.branch_segments
#print axioms C09.generated_view_read_eq_model
#print axioms C09.generated_path_column
#print axioms C09.generated_path_getitem_int
#print axioms C09.generated_tree_getitem_int
#print axioms C09.generated_path_getitem_slice
#print axioms C09.generated_tree_getitem_slice
#print axioms C09.generated_node_write_through
#print axioms C09.generated_write_then_view_read
#print axioms C09.generated_path_node_write_lost
#print axioms C09.generated_detach
#print axioms C09.generated_copy
#print axioms C09.generated_branch_segments
#print axioms C09.generated_tree_segments
#print axioms C09.generated_get_node
#print axioms C09.generated_path_iter
#print axioms C09.generated_iter_live
#print axioms C09.generated_branch_detach
#print axioms C09.generated_branch_detach_agrees
#print axioms C09.generated_compartment_detach
#print axioms C09.generated_tree_iter
#print axioms C09.generated_tree_iter_live
