import SwcVerif.Props.C09
