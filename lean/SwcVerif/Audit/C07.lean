import SwcVerif.Props.C07
import SwcVerif.Props.C07Cat
import SwcVerif.Props.C07Gen
import SwcVerif.Props.C07CatGen
#print axioms C07.rootPath_spec
#print axioms C07.redirect_pids
#print axioms C07.redirect_edges
#print axioms C07.redirect_root
#print axioms C07.redirect_types
#print axioms C07.redirect_at_root
#print axioms C07.translate_coincides
#print axioms C07.cat_separate
#print axioms C07.cat_merged
#print axioms RefineRedirect.node_parent_spec
#print axioms RefineRedirect.while_path
#print axioms RefineRedirect.for2_loop
#print axioms RefineRedirect.sortTree_refines
#print axioms RefineRedirect.redirect_core
#print axioms C07.generated_parent
#print axioms C07.generated_redirect_eq_model
#print axioms C07.generated_redirect_root
#print axioms C07.generated_redirect_sorted
#print axioms C07.generated_redirect_sorted_eq_model
#print axioms C07.second_wfr
#print axioms C07.cat_separate_wfr
#print axioms C07.cat_separate_sorted
#print axioms Relabel.isTreeTable_map
#print axioms C07.sorted_wf_gen
#print axioms C07.cat_merged_sorted
#print axioms RefineCat.delete_single
#print axioms RefineCat.for1_loop
#print axioms RefineCat.for2_loop
#print axioms RefineCat.sortTree6_refines
#print axioms RefineCat.cat_core_root
#print axioms RefineCat.cat_redirected
#print axioms RefineCat.cat_core
#print axioms RefineCat.cat_refines
#print axioms C07.catPre_shape
#print axioms C07.generated_cat_eq_model
#print axioms C07.generated_cat_separate_sorted
#print axioms C07.generated_cat_merged_sorted
