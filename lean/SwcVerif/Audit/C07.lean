import SwcVerif.Props.C07
