import SwcVerif.Props.C04
import SwcVerif.Props.C04Gen
#print axioms C04.traverse_eq_spec
#print axioms C04.fuel_suffices
#print axioms C04.outside_untouched
#print axioms C04.enter_once_per_subtree_node
#print axioms C04.leave_once_per_subtree_node
#print axioms C04.spec_unfold
#print axioms C04.specRev_length
#print axioms C04.enterOrder_perm
#print axioms C04.leaveOrder_perm
#print axioms RefineTrav.traverse_refines
#print axioms C04.generated_traverse_eq_spec
#print axioms C04.generated_eq_model
#print axioms C04.generated_enter_once
#print axioms C04.generated_leave_once
