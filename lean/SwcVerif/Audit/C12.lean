import SwcVerif.Props.C12
import SwcVerif.Props.C12Gen
#print axioms C12.translate_moves
#print axioms C12.translate_origin_root
#print axioms C12.scale_origin
#print axioms C12.scale_about_root
#print axioms C12.scale_root_fixed
#print axioms C12.rotate_root_fixed
#print axioms C12.rotate_axis_isometry
#print axioms C12.rotate_axis_isometry_origin
#print axioms C12.rotate_axis_right_handed
#print axioms C12.rodrigues_apply
#print axioms C12.rodrigues_fixes_axis
#print axioms C12.rodrigues_isometry
#print axioms C12.rodrigues_z
#print axioms C12.inverse_restores
#print axioms C12.default_centres
