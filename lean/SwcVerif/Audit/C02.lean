import SwcVerif.Props.C02
