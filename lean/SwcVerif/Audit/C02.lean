import SwcVerif.Props.C02
#print axioms C02.exit_flag_pinned
#print axioms C02.consts_pinned
#print axioms C02.read_ok_iff
#print axioms C02.read_row_count
#print axioms C02.read_never_partial
#print axioms C02.swallow_truncates
#print axioms C02.blank_and_comment_skipped
#print axioms C02.data_line_fields
#print axioms C02.natOf_append
#print axioms C02.float_token_value
#print axioms C02.too_few_fields_invalid
#print axioms C02.trailing_fields_only_warn
#print axioms C02.exponent_is_trailing_char
#print axioms C02.glued_suffix_not_a_tail
