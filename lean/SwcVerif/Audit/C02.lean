import SwcVerif.Props.C02
import SwcVerif.Props.C02Gen
#print axioms C02.exit_flag_pinned
#print axioms C02.consts_pinned
#print axioms C02.read_ok_iff
#print axioms C02.read_row_count
#print axioms C02.read_never_partial
#print axioms C02.swallow_truncates
#print axioms C02.blank_and_comment_skipped
#print axioms C02.data_line_fields
#print axioms C02.natOf_append
#print axioms C02.float_token_value
#print axioms C02.too_few_fields_invalid
#print axioms C02.trailing_fields_only_warn
#print axioms C02.exponent_is_trailing_char
#print axioms C02.glued_suffix_not_a_tail
#print axioms RefineParse.parse_refines
#print axioms RefineParse.loop_valid
#print axioms RefineParse.loop_invalid
#print axioms RefineParse.columns
#print axioms C02.generated_parse_eq_spec
#print axioms C02.generated_read_ok_iff
#print axioms C02.generated_columns
#print axioms C02.generated_never_partial
#print axioms C02.generated_decode_fails_loudly
#print axioms C02.generated_warning_iff
#print axioms C02.generated_exit_propagates
