import SwcVerif.Props.C15
import SwcVerif.Props.C15Gen
#print axioms C15.convert_faithful
#print axioms C15.rows_count
#print axioms C15.trailing_ignored
#print axioms C15.comment_skipped
#print axioms C15.color_skipped
#print axioms C15.leading_comment_skipped
#print axioms C15.bad_point_rejected
#print axioms C15.unbracketed_point_rejected
#print axioms C15.node_error_propagates
#print axioms C15.truncation_rejected_body
#print axioms C15.header_truncation_rejected
#print axioms C15.truncation_rejected
#print axioms C15.lex_skips_blanks
#print axioms C15.lex_structural
#print axioms C15.generated_from_ast_eq_rows
#print axioms C15.generated_walk_fuel
#print axioms C15.generated_rows_ids
#print axioms C15.generated_token_protocol_partial
