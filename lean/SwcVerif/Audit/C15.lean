import SwcVerif.Props.C15
