import SwcVerif.Props.C15
#print axioms C15.convert_faithful
#print axioms C15.rows_count
#print axioms C15.trailing_ignored
#print axioms C15.comment_skipped
#print axioms C15.color_skipped
#print axioms C15.leading_comment_skipped
#print axioms C15.bad_point_rejected
#print axioms C15.unbracketed_point_rejected
#print axioms C15.node_error_propagates
#print axioms C15.truncation_rejected_body
#print axioms C15.header_truncation_rejected
#print axioms C15.truncation_rejected
#print axioms C15.lex_skips_blanks
#print axioms C15.lex_structural
