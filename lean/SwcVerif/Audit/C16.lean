import SwcVerif.Props.C16
