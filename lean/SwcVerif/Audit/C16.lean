import SwcVerif.Props.C16
import SwcVerif.Props.C16Length
import SwcVerif.Props.C16Pair
import SwcVerif.Props.C16PairLoc
import SwcVerif.Props.C16Asm
import SwcVerif.Props.C16AsmGen
import SwcVerif.Props.C16Gen
import SwcVerif.Props.C16Tree
import SwcVerif.Props.C16Tree2
#print axioms C16Asm.machine_eq_sub
#print axioms C16Asm.assemble_eq
#print axioms C16Asm.assemble_sorted
#print axioms C16Asm.assemble_wf
#print axioms C16Asm.assemble_length
#print axioms C16Asm.branch_is_chain
#print axioms RefineAsm.assemble_refines
#print axioms C16Asm.generated_assemble_eq_model
#print axioms C16Asm.generated_assemble_wf
#print axioms C16Asm.generated_branch_is_chain
#print axioms C16.cumdist_spec
#print axioms C16.linspace_spec
#print axioms C16.iso_step_le
#print axioms C16.isoPositions_adjust
#print axioms C16.isoPositions_zero
#print axioms C16.isoPositions_noadjust
#print axioms C16.interp_endpoints
#print axioms C16.interp_on_segment
#print axioms C16.convex_between
#print axioms C16.isoResample_columns
#print axioms C16.linearResample_columns
#print axioms C16.smooth_endpoints_count
#print axioms C16.assemble_keeps_interior
#print axioms Polyline.plen_samples_le
#print axioms C16.resample_length_le
#print axioms C16.linearResample_length_le
#print axioms C16.isoResample_length_le
#print axioms RefineResample.linResample_refines
#print axioms RefineResample.isoResample_refines
#print axioms RefineResample.convSmooth_refines
#print axioms RefineResample.interp_eq
#print axioms RefineResample.linspace0_eq
#print axioms RefineResample.arange0_eq
#print axioms RefineResample.cumsumK_cumdist
#print axioms RefineResample.convolveSame_ones
#print axioms C16.generated_lin_eq_model
#print axioms C16.generated_iso_eq_model
#print axioms C16.generated_smooth_eq_model
#print axioms C16.generated_iso_step_le
#print axioms C16.generated_smooth_endpoints_count
#print axioms C16.generated_lin_last
#print axioms RefineResamTree.for2_loop
#print axioms RefineResamTree.for3_loop
#print axioms RefineResamTree.resam_tree_eq
#print axioms C16Tree.generated_resample_tree_eq_compose
#print axioms C16Tree.generated_resample_tree_wf_partial
#print axioms RefineSmoothTree.for1_step
#print axioms RefineSmoothTree.for1_loop
#print axioms RefineSmoothTree.smooth_tree_eq
#print axioms C16Tree2.stepCol_frame
#print axioms C16Tree2.foldl_gather
#print axioms C16Tree2.pairwise_tree
#print axioms C16Tree2.good_tree
#print axioms C16Tree2.generated_smooth_tree
#print axioms C16Tree2.generated_smooth_tree_endpoints
#print axioms C16Tree2.foldl_perm
#print axioms C16Tree2.generated_smooth_tree_order
#print axioms RefineAsm.rep_exists
#print axioms C16Tree.rep_of_ranked
#print axioms C16Tree2.branch_pre_lt
#print axioms C16Tree.branchTree_ranked
#print axioms C16Tree.generated_resample_tree_wf_rootfuel_partial
#print axioms RefineAsm.rep_exists_sized
#print axioms RefineAsm.Desc.disjoint
#print axioms C16Tree.rep_of_ranked_sized
#print axioms C16Tree.branches_length_le
#print axioms C16Tree.generated_resample_tree_wf
#print axioms C16.pairArgmin_spec
#print axioms C16.pair_step_inv
#print axioms C16.pair_exact
#print axioms C16.pair_step_loc
#print axioms C16.pair_same_place
