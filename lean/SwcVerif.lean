import SwcVerif.Model.Basic
import SwcVerif.Model.Traverse
import SwcVerif.Model.Geom
import SwcVerif.Props.C04
import SwcVerif.Props.C12
