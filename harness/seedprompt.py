"""Build the prompt handed to a fresh sub-agent for a seeded-change round (DESIGN.md §7).

    python harness/seedprompt.py C05 /tmp/s5_C05 7 8     -> prints the prompt (property text + what earlier rounds used)

The agent gets the property text, a scratch worktree and the ideas already used (so that it looks elsewhere);
nothing else from /verif.
"""
import glob
import json
import sys
from pathlib import Path

V = Path(__file__).resolve().parent.parent


def main():
    pid, wt = sys.argv[1], sys.argv[2]
    ks = sys.argv[3:] or ["7", "8"]
    prop = next(json.loads(l) for l in open(V / "properties.jsonl") if json.loads(l)["id"] == pid)
    used = []
    for f in sorted(glob.glob(str(V / "seeded" / f"{pid}_m*" / "meta.json"))):
        m = json.load(open(f))
        used.append("- " + (m.get("summary") or "")[:330].replace("\n", " "))
    names = ", ".join(f"m{k}" for k in ks)
    print(f"""You are helping to evaluate how well a verification suite protects one behavioural property of the Python library
yzx9/swcgeom (neuron morphology: SWC trees, transforms, ASC parsing, morphometrics, volumes). You have your own scratch git worktree of the
repository at {wt} (detached HEAD). Work ONLY inside {wt}. Do not read or touch /verif or /repo, and do not look for
any verification code: your change must be independent of it.

Run Python as:   cd {wt} && PYTHONPATH={wt} PYTHONDONTWRITEBYTECODE=1 /venv/bin/python ...
Run the test suite as:   cd {wt} && PYTHONPATH={wt} PYTHONDONTWRITEBYTECODE=1 /venv/bin/python -m pytest -q -p no:cacheprovider
(81 tests must pass.) There is no network.

THE PROPERTY ({pid}: {prop['title']})
{prop['statement']}
Quantified over: {prop['quantifier']['text']}
Source files involved: {', '.join(prop['anchors']['files'])}
Public entry points where it is observed: {', '.join(prop['anchors']['observe_at'])}

YOUR TASK: produce {len(ks)} DIFFERENT realistic changes to the library source (named {names}), each of which
 (a) looks like something a maintainer could plausibly commit (an optimisation, a refactoring, a robustness fix, vectorisation, caching,
     an API convenience, a numpy/pandas idiom with subtly different meaning) - not sabotage, no dead code, no special-casing on magic values;
 (b) BREAKS the property above for some inputs, while the package still imports and the 81 existing tests still pass;
 (c) needs something SPECIFIC to manifest - a particular multi-step sequence of calls, an unusual but legitimate input, a rarely used option
     or entry point, state carried between calls, two cooperating edits in different places that each look fine alone, a size / depth / numeric
     threshold - so that ordinary use and naive random testing would NOT expose it at once. The harder it is to stumble on, the better,
     but the failing input must be legitimate for the property as stated (inside its quantifier).
Earlier rounds already used the ideas below; find something genuinely different (a different function, mechanism or kind of trigger):
{chr(10).join(used)}

For each change k in ({names}) write, in the directory {wt}/seed_out/ (create it):
  {wt}/seed_out/<k>.diff      - `git diff` of the change against HEAD (apply-able with `git apply` at the worktree root; source files only)
  {wt}/seed_out/<k>_demo.py   - a small standalone program that exits 0 (printing why) when the property holds and exits 1 when it is
                                 violated; it must exit 1 WITH your change and exit 0 WITHOUT it (on the unchanged HEAD). It must check the
                                 property as stated (not an implementation detail), using only the public API.
  {wt}/seed_out/<k>.json      - {{"summary": "...what was changed and why it looks plausible...", "needs": "...what is needed to manifest...",
                                 "why_tests_pass": "...", "files": ["..."]}}
Procedure per change: edit the source, run the 81 tests (must pass), run the demo (must exit 1), save the diff with
`git diff > seed_out/<k>.diff`, then `git checkout -- .` (keep seed_out/, it is untracked), run the demo again (must exit 0). Make sure
the worktree is back at the unchanged HEAD (apart from seed_out/) when you finish. Do not commit. Finally reply with a short summary of the
{len(ks)} changes and confirm the exit codes you observed.""")


if __name__ == "__main__":
    main()
