"""Which parts of the anchored source does a check's correspondence / oracle actually execute?

    python harness/covreport.py C06 [C07 ...]      (uses /venv's coverage; runs the quick suites without rebuilding Lean)

Prints, per anchored file of the property, the functions none of whose lines ran and those that ran only in part.
A development aid for finding generator blind spots systematically (not part of any registered check).
"""
import ast
import json
import os
import subprocess
import sys
from pathlib import Path

V = Path(__file__).resolve().parent.parent
REPO = Path(os.environ.get("SWCGEOM_REPO", "/repo"))


def main():
    props = {json.loads(l)["id"]: json.loads(l) for l in open(V / "properties.jsonl")}
    for pid in sys.argv[1:]:
        data = f"/tmp/cov/{pid}.cov"
        env = dict(os.environ, PYTHONPATH=f"{REPO}:{V}", PYTHONDONTWRITEBYTECODE="1", SWCGEOM_VERIF="1")
        subprocess.run(["/venv/bin/python", "-W", "ignore", "-m", "coverage", "run", f"--data-file={data}", f"--source={REPO}/swcgeom", str(V / "harness" / "covmain.py"), pid],
                       cwd=V, env=env, capture_output=True, text=True, timeout=3000)
        out = f"/tmp/cov/{pid}.json"
        subprocess.run(["/venv/bin/python", "-m", "coverage", "json", f"--data-file={data}", "-o", out], cwd=V, capture_output=True, text=True)
        rep = json.load(open(out))["files"]
        print(f"== {pid}: {props[pid]['title']}")
        for f in props[pid]["anchors"]["files"]:
            key = next((k for k in rep if k.endswith(f)), None)
            if key is None:
                print(f"   {f}: NOT IMPORTED / no data")
                continue
            ex, miss = set(rep[key]["executed_lines"]), set(rep[key]["missing_lines"])
            tree = ast.parse((REPO / f).read_text())
            never, partly = [], []
            for node in ast.walk(tree):
                if isinstance(node, (ast.FunctionDef, ast.AsyncFunctionDef)):
                    body = set(range(node.body[0].lineno, node.end_lineno + 1))
                    b_ex, b_miss = body & ex, body & miss
                    if b_miss and not b_ex:
                        never.append(node.name)
                    elif b_miss and b_ex:
                        partly.append(f"{node.name}({len(b_miss)})")
            pct = rep[key]["summary"]["percent_covered"]
            print(f"   {f}: {pct:.0f}% lines; never run: {', '.join(sorted(set(never))) or '-'}")
            if partly:
                print(f"        partly (missing lines): {', '.join(partly)}")


if __name__ == "__main__":
    main()
