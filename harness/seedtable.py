"""Print the DESIGN.md table rows for one round of seeds:  python harness/seedtable.py m7 m8"""
import json
import sys
from pathlib import Path

V = Path(__file__).resolve().parent.parent
ks = sys.argv[1:] or ["m7", "m8"]
for d in sorted((V / "seeded").iterdir()):
    if d.name.split("_")[-1] not in ks:
        continue
    m = json.loads((d / "meta.json").read_text())
    r = json.loads((d / "recheck.json").read_text()) if (d / "recheck.json").exists() else {}
    first = "caught with input" if m.get("caught_with_failing_input") else ("proof-only" if m.get("caught") else "missed")
    needs = (m.get("needs") or "").replace("\n", " ").replace("|", "/")
    needs = needs[:150] + ("…" if len(needs) > 150 else "")
    print(f"| {d.name} | {needs} | {first} | {r.get('state', '?')}: `{r.get('finding')}` |")
