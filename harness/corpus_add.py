"""Store the failing input of a replay file as a corpus case (run first by every later check of that property).

    python harness/corpus_add.py C05 replays/C05_quick_0.json seed_C05_m1

The case is stored only if, on the CURRENT /repo tree (which must be the unchanged one), the suite runs it
without finding anything: a corpus case must never raise an alarm on code where the property holds.
"""
import importlib
import json
import sys
from pathlib import Path

V = Path(__file__).resolve().parent.parent
sys.path.insert(0, str(V))


def main():
    pid, replay, name = sys.argv[1], sys.argv[2], sys.argv[3]
    r = json.loads(Path(replay).read_text())
    if r.get("kind") != "failing-input" or not r.get("suite") or r.get("case") is None:
        print("corpus: replay has no failing input"); return 1
    from harness import framework
    mod = importlib.import_module(f"harness.props.{pid.lower()}")
    suite = [s for s in mod.SUITES if s.name == r["suite"]]
    if not suite:
        print("corpus: unknown suite", r["suite"]); return 1
    suite = suite[0]
    case = json.loads(json.dumps(r["case"]))
    if len(json.dumps(case)) > 300_000:
        print("corpus: case too large"); return 1
    res = framework.run_case(suite, case)
    found = suite.oracle(case, res)
    if found:
        print("corpus: case raises a finding on the clean tree, not stored:", found[0][0]); return 1
    try:
        ls = suite.lines(case, res)
        outs = framework.run_driver([l for l, _ in ls]) if ls else []
        if any(not framework.same_output(o, e) for (l, e), o in zip(ls, outs)):
            print("corpus: case disagrees with the model on the clean tree, not stored"); return 1
    except Exception as e:  # noqa: BLE001
        print("corpus: lines() raised on the clean tree, not stored:", repr(e)); return 1
    d = V / "corpus" / pid
    d.mkdir(parents=True, exist_ok=True)
    (d / f"{name}.json").write_text(json.dumps({"suite": suite.name, "origin": name, "finding": r.get("finding"), "case": case}, sort_keys=True) + "\n")
    print("corpus: stored", d / f"{name}.json")
    return 0


if __name__ == "__main__":
    sys.exit(main())
