"""Regression over ALL stored seeded changes: apply each seeded/<id>/patch.diff to /repo, run the check of its property
(quick tier), undo, and record whether it is (still) caught.  Generators change over time (new families shift the PRNG
stream), so a seed that was caught once has to be re-run.

    python harness/seedall.py [--only C16_m6,C02_m1] [--props C01,C02] [--seed 0] [--repo <scratch worktree of /repo>] > seedall.log

With `--repo` the patches are applied to a scratch worktree (the checks run with SWCGEOM_REPO / PYTHONPATH pointing at it), so that
several groups of properties can be re-run in parallel from separate copies of /verif without touching /repo.

Writes seeded/<id>/recheck.json and prints one line per seed.  /repo must be clean before and is clean afterwards.
"""
import json
import os
import subprocess
import sys
from pathlib import Path

V = Path(__file__).resolve().parent.parent


def sh(cmd, cwd=None, env=None, timeout=3000):
    e = dict(os.environ)
    if env:
        e.update(env)
    p = subprocess.run(cmd, shell=True, cwd=cwd, env=e, capture_output=True, text=True, timeout=timeout)
    return p.returncode, (p.stdout + p.stderr)


def evidence_backup():
    """evidence files are records of runs on the UNCHANGED tree: a run against a seeded change must not leave its record behind"""
    return {f.name: f.read_text() for f in (V / "evidence").glob("*.json")}


def evidence_restore(saved):
    for name, text in saved.items():
        (V / "evidence" / name).write_text(text)


def main():
    only = None
    start = None
    seed = "0"
    REPO = "/repo"
    props = None
    for i, a in enumerate(sys.argv):
        if a == "--only":
            only = set(sys.argv[i + 1].split(","))
        if a == "--seed":
            seed = sys.argv[i + 1]
        if a == "--from":
            start = sys.argv[i + 1]
        if a == "--repo":
            REPO = sys.argv[i + 1]
        if a == "--props":
            props = set(sys.argv[i + 1].split(","))
    renv = {} if REPO == "/repo" else {"SWCGEOM_REPO": REPO, "PYTHONPATH": REPO}
    rc, o = sh("git status --porcelain --untracked-files=no", cwd=REPO)
    assert o.strip() == "", f"{REPO} is not clean: " + o
    _saved_evidence = evidence_backup()
    summary = {"caught_with_input": 0, "caught_no_input": 0, "missed": 0, "not_applicable": 0}
    for d in sorted((V / "seeded").iterdir()):
        if not (d / "patch.diff").exists() or (only and d.name not in only):
            continue
        pid = d.name.split("_")[0]
        if start and d.name < start:
            continue
        if props and pid not in props:
            continue
        try:
            meta = json.loads((d / "meta.json").read_text())
        except Exception:  # noqa: BLE001
            meta = {}
        if meta.get("superseded_by_fix"):
            # a later fix: commit removed the defect the change relied on: with the fix its own demonstration passes (kept for the record)
            summary["not_applicable"] += 1
            (d / "recheck.json").write_text(json.dumps({"id": d.name, "applies": True, "state": "superseded", "why": meta["superseded_by_fix"]}, indent=1) + "\n")
            print(d.name, "superseded by a fix (its demo passes with the change applied)")
            continue
        if meta.get("judged_outside"):
            # the input family the change needs lies outside the property's quantifier, or the unchanged library cannot be judged on it
            # (reason in meta.json and DESIGN §7): the check is not asked to catch it; kept for the record
            summary["not_applicable"] += 1
            (d / "recheck.json").write_text(json.dumps({"id": d.name, "applies": True, "state": "outside", "why": meta["judged_outside"]}, indent=1) + "\n")
            print(d.name, "judged outside the property's quantifier (not asked of the check)")
            continue
        rc, o = sh(f"git apply --check {d / 'patch.diff'}", cwd=REPO)
        how = "plain"
        if rc != 0:
            # a later fix: commit may have shifted the context by a line or two; a real conflict is NOT forced (3-way merges with
            # conflict markers once ran every later seed on a broken tree, §8)
            rc, o = sh(f"git apply --check -C1 {d / 'patch.diff'}", cwd=REPO)
            how = "C1"
        if rc != 0:
            rec = {"id": d.name, "applies": False, "why": o.strip()[-200:]}
            summary["not_applicable"] += 1
            (d / "recheck.json").write_text(json.dumps(rec, indent=1) + "\n")
            print(d.name, "DOES NOT APPLY to the current /repo (kept for the record)")
            continue
        sh(f"git apply {'-C1 ' if how == 'C1' else ''}{d / 'patch.diff'}", cwd=REPO)
        try:
            rc, o = sh(f"./check {pid} --tier quick", cwd=V, env=dict(renv, VERIF_SEED=seed), timeout=6000)
        finally:
            sh("git reset -q --hard HEAD", cwd=REPO)     # /repo has no uncommitted work of its own (asserted above)
            rc2, o2 = sh("git status --porcelain --untracked-files=no", cwd=REPO)
            assert o2.strip() == "", "/repo not restored: " + o2
        viol = [l for l in o.splitlines() if l.startswith("VIOLATION")]
        summ = [l for l in o.splitlines() if l.startswith(f"[{pid}]")]
        finding = None
        if viol and "replay=" in viol[0]:
            try:
                r = json.loads((V / viol[0].split("replay=")[1].split()[0]).read_text())
                finding = r.get("finding") or r.get("kind")
            except Exception:  # noqa: BLE001
                pass
        state = "missed"
        if rc == 1 and viol:
            state = "caught_no_input" if "no-failing-input-found" in viol[0] else "caught_with_input"
        summary[state] += 1
        rec = {"id": d.name, "applies": True, "apply_mode": how, "seed": seed, "rc": rc, "state": state, "finding": finding, "summary": summ[-1] if summ else o[-300:]}
        (d / "recheck.json").write_text(json.dumps(rec, indent=1) + "\n")
        print(d.name, state, finding, flush=True)
    rc, o = sh("git status --porcelain --untracked-files=no", cwd=REPO)
    assert o.strip() == "", f"{REPO} left dirty: " + o
    sh("/venv/bin/python harness/regen_all.py", cwd=V, env=renv)      # Gen/*.lean back to what the unchanged sources say
    evidence_restore(_saved_evidence)
    print("SUMMARY", json.dumps(summary))


if __name__ == "__main__":
    main()
