"""Imperative Python -> Lean translator (DESIGN.md §2.2b).

`regenerate()` re-reads the CURRENT sources of the listed functions under /repo and rewrites
lean/SwcVerif/Gen/Algo.lean.  Every function body becomes a term over the combinators of
`SwcVerif/Model/Py.lean` (`Py.seq`, `Py.bind`, `Py.forEach`, `Py.whileF`, ...) acting on one record `V` of the
function's variables.  The refinement theorems (`SwcVerif/Props/Refine*.lean`) state that the hand-written
models of `Model/` compute what these generated definitions compute; they are re-checked by the kernel
against what the code says now.  The generated definitions are also executable (driver ops `algo.*`) and are
run against the real functions by the correspondence suites, so the translator itself is cross-checked.

Supported subset (anything else raises `Untranslatable` = a translator failure, handled like a broken proof):
assignments to names / tuples of names / `a[i]` / `self.f` / `self.f[i]`, augmented assignments, `if/elif/else`,
`for` over lists / `range` / `zip` / `enumerate` / `dict.items()`, `while` (with fuel), `break` / `continue` / `return` /
`assert` / `pass`, list / dict / generator comprehensions (lowered to loops), calls to other translated functions and
to state-passing callbacks, list methods `append` / `extend` / `pop`, dict methods `get` / `pop` / `setdefault` /
`items`, `len`, integer arithmetic and comparisons, `and` / `or` / `not`, conditional expressions, and a table of
numpy idioms on 1-d integer arrays (`a[a == v]`, `np.count_nonzero`, `.argmax()`, `np.full_like`, `np.arange`,
`np.where`, `np.unique`, `np.all`, `np.array(list)`, `np.asarray`, `.copy()`, `.item()`); float scalars / arrays over a declared NUMERIC type
parameter (`num_tparams`: `+ - *`, comparisons, `np.zeros/ones/full`), 2-d arrays as lists of rows (`m[i, j]`, `m[i, :] = …`, `m[:, j] = …`,
`a[:, None]` broadcast against a 2-d array, `.shape`), 2-d masked arrays (`ma.array(…, mask=…)`, `.argmin()`, `np.unravel_index`), and the translation
of a SEGMENT of a function body (`seg_from` / `seg_to`).
"""
from __future__ import annotations

import ast
import json
import os
import re
import textwrap
from dataclasses import dataclass, field
from pathlib import Path

VERIF = Path(__file__).resolve().parent.parent
GEN = VERIF / "lean" / "SwcVerif" / "Gen"
REPO = Path(os.environ.get("SWCGEOM_REPO", "/repo"))

LEAN_KEYWORDS = {"from", "end", "at", "do", "then", "else", "if", "fun", "let", "in", "have", "show", "by", "open", "where", "with",
                 "match", "def", "theorem", "structure", "class", "instance", "namespace", "section", "variable", "import", "local"}


class Untranslatable(Exception):
    pass


def lean_string(t: str) -> str:
    return '"' + t.replace("\\", "\\\\").replace('"', '\\"').replace("\n", "\\n").replace("\t", "\\t") + '"'


def lname(n: str) -> str:
    if n == "_":
        return "underscore_"
    if "#" in n:                              # a further typed version of a re-bound variable (`match#2`)
        n, k = n.split("#")
        return f"{n}_{k}"
    return n + "_" if n in LEAN_KEYWORDS else n


# ----------------------------------------------------------------------------- types

def parse_type(s: str):
    """'List (Int × Bool)' -> nested tuples ('List', ('Prod', 'Int', 'Bool'))"""
    s = s.strip()
    toks = []
    i = 0
    while i < len(s):
        c = s[i]
        if c.isspace():
            i += 1
        elif c in "()×":
            toks.append(c); i += 1
        else:
            j = i
            while j < len(s) and not s[j].isspace() and s[j] not in "()×":
                j += 1
            toks.append(s[i:j]); i = j
    pos = [0]

    def atom():
        t = toks[pos[0]]
        if t == "(":
            pos[0] += 1
            r = prod()
            assert toks[pos[0]] == ")", s
            pos[0] += 1
            return r
        pos[0] += 1
        return t

    def app():
        h = atom()
        if h in TYPE_HEADS:                   # type constructors added by an extension (see EXTENSION HOOKS below)
            return (h,) + tuple(atom() for _ in range(TYPE_HEADS[h]))
        if h == "List":
            return ("List", atom())
        if h == "Option":
            return ("Option", atom())
        if h == "Col":                        # a column vector `a[:, None]` (shape (n, 1)): the list of its entries
            return ("Col", atom())
        if h == "Masked2":                    # a 2-d `numpy.ma` masked array: (data, mask)
            return ("Masked2", atom())
        if h == "Stream":                     # an iterator that may raise after its items (Py.Stream)
            return ("Stream", atom())
        if h == "Set":                        # a Python set: a duplicate-free list in insertion order (`Py.Set`)
            return ("Set", atom())
        if h == "Iter":                       # an iterator: the list of the items it has not produced yet
            return ("Iter", atom())
        if h == "Dict":
            k = atom(); v = atom()
            return ("Dict", k, v)
        if h == "DDict":                      # collections.defaultdict(list): reading a missing key inserts []
            k = atom(); v = atom()
            return ("DDict", k, v)
        return h

    def prod():
        a = app()
        if pos[0] < len(toks) and toks[pos[0]] == "×":
            pos[0] += 1
            b = prod()
            return ("Prod", a, b)
        return a

    r = prod()
    assert pos[0] == len(toks), s
    return r


def is_full_slice(x) -> bool:
    """`:`"""
    return isinstance(x, ast.Slice) and x.lower is None and x.upper is None and x.step is None


def is_node(t) -> bool:
    return isinstance(t, str) and t.startswith("Node@")


def node_tree(t) -> str:
    return t[len("Node@"):]


def is_ref(t) -> bool:
    """a reference to a heap-allocated object of class C (`Ref@C`): its index in the heap (a list of records of STRUCTS[C])"""
    return isinstance(t, str) and t.startswith("Ref@")


def ref_class(t) -> str:
    return t[len("Ref@"):]


# EXTENSION HOOKS: further Python constructs / idioms and their meaning can be added WITHOUT editing this file, from a plugin
# (harness/algo_specs/*.py is executed in this namespace): a hook is tried before the built-in rules and returns None when it does not apply.
TYPE_HEADS = {}        # name of a unary / n-ary type constructor -> arity            ("Col": 1)
SHOW_TYPE_HOOKS = []   # fn(t) -> lean type text | None
EXPR_HOOKS = []        # fn(tr: FnTr, e: ast.expr, want) -> (steps, code, type) | None
STMT_HOOKS = []        # fn(tr: FnTr, s: ast.stmt) -> lean code of the statement | None


def show_type(t) -> str:
    for h in SHOW_TYPE_HOOKS:
        r = h(t)
        if r is not None:
            return r
    if isinstance(t, str):
        if is_ref(t):
            return "Int"                               # an object reference is its index in the heap
        if t in ("PyVal", "PyAtom"):                   # dynamically typed values (Model/PyObjHeap.lean)
            return "Py." + t[2:]
        if t == "Tree":                            # a tree-valued EXPRESSION (`node.subtree()`): its two topology columns (id, pid)
            return "((List Int) × (List Int))"
        if t == "Frac":                            # the exact value of `a / b` on Python ints: the pair (a, b), b ≠ 0 (the float is its rounding)
            return "(Int × Int)"
        if t == "Exc":
            return "Py.Exc"
        return "Int" if is_node(t) else t          # a node handle is the row index it dereferences on every access
    if t[0] == "Stream":
        return f"(Py.Stream {show_type(t[1])})"
    if t[0] in ("List", "Iter"):
        return f"(List {show_type(t[1])})"
    if t[0] == "Option":
        return f"(Option {show_type(t[1])})"
    if t[0] == "Col":
        return f"(List {show_type(t[1])})"
    if t[0] == "Masked2":
        return f"(Py.Masked2 {show_type(t[1])})"
    if t[0] == "Set":
        return f"(List {show_type(t[1])})"
    if t[0] in ("Dict", "DDict"):
        return f"(Py.Dict {show_type(t[1])} {show_type(t[2])})"
    if t[0] == "Prod":
        return f"({show_type(t[1])} × {show_type(t[2])})"
    raise AssertionError(t)


def prod_of(ts):
    ts = list(ts)
    if len(ts) == 1:
        return ts[0]
    return ("Prod", ts[0], prod_of(ts[1:]))


def prod_parts(t, n):
    """components of an n-tuple type"""
    out = []
    for _ in range(n - 1):
        if not (isinstance(t, tuple) and t[0] == "Prod"):
            raise Untranslatable(f"cannot unpack {t} into {n} parts")
        out.append(t[1]); t = t[2]
    out.append(t)
    return out


def proj(code: str, k: int, n: int) -> str:
    """k-th component of an n-tuple (right-nested pairs)"""
    c = code
    for _ in range(k):
        c = f"{c}.2"
    if k < n - 1:
        c = f"{c}.1"
    return c


# ----------------------------------------------------------------------------- specs

@dataclass
class Fn:
    lean: str                       # Lean name of the generated definition (inside namespace Gen.Algo)
    file: str
    func: str
    cls: str | None = None
    params: list = field(default_factory=list)     # python parameter names, in the order of the Lean definition
    vars: dict = field(default_factory=dict)       # python name -> Lean type (all variables incl. params)
    ret: str = "Unit"
    out: list = field(default_factory=list)        # variables returned together with the result (mutated arguments, e.g. self)
    fuel: bool = False                              # the definition takes a fuel argument (while loops / recursion)
    subst: dict = field(default_factory=dict)      # source expression text -> (lean code over `v`, type)
    stores: dict = field(default_factory=dict)     # assignment-target text -> variable name (DataFrame columns modelled as variables)
    call_alias: dict = field(default_factory=dict)  # python call text -> (python call text of a translated function, [indices of the arguments it takes])
    nested: str | None = None                      # translate the nested function (or "<lambda>") of this name inside `func`
    captures: list = field(default_factory=list)   # variables of the enclosing function the closure reads / writes: its callback state
    closures: dict = field(default_factory=dict)   # in an outer function: python name of a nested function / "<lambda>" -> lean name of its translation
    self_topology: tuple | None = None             # (ids code, pids code) standing for `(self.id(), self.pid())` in `self.traverse(...)`
    tparams: list = field(default_factory=list)    # type parameters
    num_tparams: list = field(default_factory=list)  # NUMERIC type parameters: the declared element type of float arrays / float scalars, with
                                                    # `+ - *`, the literals 0 and 1, decidable `<` / `≤` (run at `Rat` by the driver)
    seg_from: str | None = None                    # translate only a SEGMENT of the function body: from the statement with this source text ...
    seg_to: str | None = None                      # ... to the statement whose source text begins with this line (both must occur exactly once)
    callbacks: dict = field(default_factory=dict)  # python name -> (lean binder text, arg count, result type)  state-passing over `v.cbs`
    skip_stmts: list = field(default_factory=list)  # source text of statements that are glue (replaced by `subst`-initialised params)
    tree_cols: dict = field(default_factory=dict)  # source text of a tree-valued expression (`tree`, `self.attach`) -> {"id": var, "pid": var, "type": var}:
                                                    # the tree IS those column variables; a `Node` of it is its row index (type `Node@<text>`)
    stmt_subst: dict = field(default_factory=dict)  # source text of a statement -> python source of its meaning on the column variables
    defaults: dict = field(default_factory=dict)    # parameter name -> source text of its default value (CHECKED against the `def` on every run; used when a
                                                    # caller omits the argument)
    raises: bool = False                            # exceptions are tracked (`Except Py.Exc R`): `raise`, `try/except`, `with` are translated
    fparams: list = field(default_factory=list)     # lean binders of PURE function parameters (the text level abstracted: `(blank : L → Bool)`)
    absent: list = field(default_factory=list)      # optional parameters NOT passed in this instantiation (their value is None): the definition is the
                                                    # specialisation of the function to one of its @overload signatures
    heap: dict = field(default_factory=dict)        # class name of heap-allocated objects -> python text of the variable holding the heap
                                                    # (a list of records STRUCTS[class]); references (`Ref@class`) are indices into it
    rec_group: str | None = None                    # mutually recursive functions: the members of a group are emitted in one `mutual` block,
                                                    # every one structurally recursive on the fuel
    doc: str = ""
    module: str = "AlgoDsu"                         # generated file Gen/<module>.lean (one per group, so that a change to one
                                                    # source file cannot break the generated module of an unrelated property)


MODULE_STRUCTS = {"AlgoDsu": ["DisjointSetUnion"], "AlgoPopulation": ["ChainTrees", "LazyLoadingTrees", "NestTrees"]}
MODULE_IMPORTS = {"AlgoCheckers": ["AlgoDsu"], "AlgoBranches": ["AlgoTraverse"], "AlgoSubtree": ["AlgoTraverse"],
                  "AlgoRedirect": ["AlgoNode", "AlgoSort"]}

MODULE_MODEL_IMPORTS = {}     # generated module -> further semantics files `SwcVerif/Model/<name>.lean` it imports (besides Model/Py.lean)

STRUCTS = {
    "DisjointSetUnion": {"element_parent": "List Int", "rank": "List Int"},
    # members of a chain / the wrapped container of a nest are lists of tree identifiers (what indexing them returns)
    "ChainTrees": {"trees": "List (List Int)", "cumsum": "List Int"},
    # `swcs` are file identifiers; `trees[i]` is None or the identifier of the tree read from file i
    "LazyLoadingTrees": {"swcs": "List Int", "trees": "List (Option Int)"},
    "NestTrees": {"trees": "List Int", "idx": "List Int"},
}


NUM_CLASSES = "[Add {t}] [Sub {t}] [Mul {t}] [OfNat {t} 0] [OfNat {t} 1] [LT {t}] [DecidableLT {t}] [LE {t}] [DecidableLE {t}]"


def tparam_binders(spec) -> str:
    """implicit binders of the type parameters: every one inhabited, the numeric ones with arithmetic and a decidable order"""
    return " ".join([f"{{{t} : Type}} [Inhabited {t}]" for t in spec.tparams]
                    + [f"{{{t} : Type}} [Inhabited {t}] " + NUM_CLASSES.format(t=t) for t in spec.num_tparams])


class FnTr:
    """translator for one function"""

    def __init__(self, spec: Fn, table: dict):
        self.spec = spec
        self.table = table                 # python callee text -> Fn (for calls to other translated functions)
        self.vars = {k: parse_type(v) for k, v in spec.vars.items()}
        self.tmp = 0
        self.consts = {}                   # module-level integer constants of the source file (e.g. REMOVAL = -2)
        self.namedtuples = {}              # `NamedTuple` classes of the source file -> number of fields
        self.enums = {}                    # `Class.MEMBER` of the `Enum` classes of the source file whose members are `auto()` -> 1, 2, ...
        self.extra_vars = {}               # temporaries introduced by comprehension lowering
        self.aux = []                      # hoisted loop bodies / conditions: (name, lean type, code)
        self.nloop = 0
        self.hoist = True                  # switched off for recursive functions (their body is a local definition)
        cbb = " ".join([b for b, _, _ in spec.callbacks.values()] + list(spec.fparams))
        self.cbb = cbb
        self.num = set(spec.num_tparams)
        self.all_tparams = list(spec.tparams) + list(spec.num_tparams)
        tpsi = tparam_binders(spec)
        self.binders_nofuel = f"{tpsi} {cbb}".strip()
        self.bargs_nofuel = " ".join([b.split()[0].strip("(") for b, _, _ in spec.callbacks.values()] + [b.split()[0].strip("(") for b in spec.fparams])
        # a name re-bound to values of different types (`match`): one typed field per declared version `name#k`; `cur` says which one the
        # name denotes at the current program point (None = not known statically: reading it is a translator failure)
        self.versions = {}
        for k in spec.vars:
            if "#" in k:
                self.versions.setdefault(k.split("#")[0], [k.split("#")[0]]).append(k)
        self.cur = {n: None for n in self.versions}
        tapp = (" " + " ".join(self.all_tparams)) if self.all_tparams else ""
        self.Vt = f"({spec.lean}.V{tapp})" if self.all_tparams else f"{spec.lean}.V"

    # ---- helpers
    def fresh(self, ty, hint="t"):
        n = f"{hint}{self.tmp}_"
        self.tmp += 1
        self.extra_vars[n] = ty
        return n

    def ret_t(self):
        r = show_type(parse_type(self.spec.ret))
        return f"(Except Py.Exc {r})" if self.spec.raises else r

    def resolve(self, n):
        """the field a (possibly re-typed) name denotes here"""
        if n in self.versions:
            if self.cur[n] is None:
                raise Untranslatable(f"{self.spec.lean}: `{n}` is read where its type is not statically known")
            return self.cur[n]
        return n

    def assign_version(self, n, t):
        """assignment of a value of type `t` to a name with several typed versions: selects the version"""
        if n in self.versions:
            for k in self.versions[n]:
                if self.vars[k] == t:
                    self.cur[n] = k
                    return k
            raise Untranslatable(f"{self.spec.lean}: `{n}` has no declared version of type {t}")
        return n

    def assigned_versions(self, stmts):
        return {nd.id for b in stmts for nd in ast.walk(b) if isinstance(nd, ast.Name) and isinstance(nd.ctx, ast.Store) and nd.id in self.versions}

    def var_type(self, n):
        if n in self.vars:
            return self.vars[n]
        if n in self.extra_vars:
            return self.extra_vars[n]
        raise Untranslatable(f"{self.spec.lean}: variable `{n}` has no declared type")

    # ---- expressions ---------------------------------------------------------------------
    # tr_expr returns (steps, code, type): `steps` is a list of lean lines of the form
    #   "Py.bind (<opt>) fun <name> =>"   or   "let v := ...;"   evaluated in order before `code` (a pure term over `v`)
    def tr(self, e, want=None):
        txt = ast.unparse(e)
        if txt in self.spec.subst:
            code, ty, *steps = self.spec.subst[txt]        # (code, type) or (code, type, [fallible steps evaluated before it])
            return list(steps[0]) if steps else [], code, parse_type(ty)
        for h in EXPR_HOOKS:
            if id(h) in HOOK_SCOPE and self.spec.module not in HOOK_SCOPE[id(h)]:
                continue
            snap = self.snapshot()         # a hook that probes (translates a sub-expression to learn its type) and then declines leaves no trace
            try:
                r = h(self, e, want)
            except Untranslatable:
                r = None
            if r is not None:
                return r
            self.restore(snap)
        m = getattr(self, "e_" + type(e).__name__, None)
        if m is None:
            raise Untranslatable(f"{self.spec.lean}: expression `{txt}`")
        return m(e, want)

    def snapshot(self):
        return (self.tmp, dict(self.extra_vars), list(self.aux), self.nloop, dict(self.vars), dict(getattr(self, "cur", {})))

    def restore(self, snap):
        self.tmp, self.extra_vars, self.aux, self.nloop, self.vars = snap[0], snap[1], snap[2], snap[3], snap[4]
        if hasattr(self, "cur"):
            self.cur = snap[5]

    def bindname(self):
        n = f"t{self.tmp}"
        self.tmp += 1
        return n

    def e_Constant(self, e, want):
        if e.value is None:
            return [], "none", ("Option", want[1] if isinstance(want, tuple) and want[0] == "Option" else "Unit")
        if isinstance(e.value, bool):
            return [], "true" if e.value else "false", "Bool"
        if isinstance(e.value, int):
            return [], f"({e.value} : Int)", "Int"
        if isinstance(e.value, str):
            return [], json.dumps(e.value, ensure_ascii=False), "String"
        raise Untranslatable(f"constant {e.value!r}")

    def e_Name(self, e, want):
        if e.id in self.consts and e.id not in self.vars:
            return [], f"({self.consts[e.id]} : Int)", "Int"
        if e.id in self.spec.callbacks:
            raise Untranslatable(f"callback `{e.id}` used as a value")
        key = self.resolve(e.id)
        ty = self.var_type(key)
        return [], f"v.{lname(key)}", ty

    def heap_of(self, cls):
        """(lean code of the heap variable, lvalue function) of the heap holding the objects of class `cls`"""
        if cls not in self.spec.heap:
            raise Untranslatable(f"{self.spec.lean}: no heap for objects of class `{cls}`")
        ex = ast.parse(self.spec.heap[cls]).body[0].value
        _, code, _ = self.tr(ex)
        return code, self.lvalue(ex)

    def deref_opt(self, s0, c, t):
        """a value that may be `None` used where an object is needed (attribute access): `None` raises"""
        if isinstance(t, tuple) and t[0] == "Option" and (is_node(t[1]) or is_ref(t[1]) or t[1] in STRUCTS):
            n0 = self.bindname()
            return s0 + [f"Py.bind ({c}) fun {n0} =>"], n0, t[1]
        return s0, c, t

    def is_ref_expr(self, e):
        try:
            _, _, t = self.tr(e)
        except Untranslatable:
            return False
        return is_ref(t) or (isinstance(t, tuple) and t[0] == "Option" and is_ref(t[1]))

    def e_Attribute(self, e, want):
        if ast.unparse(e) in self.enums:
            return [], f"({self.enums[ast.unparse(e)]} : Int)", "Int"
        if ast.unparse(e) in ("np.inf", "numpy.inf"):
            return [], "(none : Option Int)", ("Option", "Int")     # a float that is finite (`some`) or +inf (`none`)
        if e.attr == "shape":
            # `.shape` of a 2-d array / 2-d masked array
            try:
                s0, c, t = self.tr(e.value)
            except Untranslatable:
                t = None
            if isinstance(t, tuple) and t[0] == "Masked2":
                return s0, f"(Py.shape2 ({c}).1)", ("Prod", "Int", "Int")
            if isinstance(t, tuple) and t[0] == "List" and isinstance(t[1], tuple) and t[1][0] == "List":
                return s0, f"(Py.shape2 {c})", ("Prod", "Int", "Int")
        # --- a column of a node handle: `n.pid` = `tree.pid()[n.idx]` (Node.__getitem__ indexes the owner's column on every access)
        if not (isinstance(e.value, ast.Name) and isinstance(self.vars.get(e.value.id), str) and self.vars.get(e.value.id) in STRUCTS):
            try:
                s0, c, t = self.tr(e.value)
            except Untranslatable:
                s0, c, t = None, None, None
            if t is not None:
                # a variable that held `None` earlier and is known to hold a node / object here: reading an attribute of None raises
                s0, c, t = self.deref_opt(s0, c, t)
            if t is not None and is_ref(t):
                # a field of a heap-allocated object: read through the reference
                C = ref_class(t)
                if e.attr not in STRUCTS.get(C, {}):
                    raise Untranslatable(f"{self.spec.lean}: attribute `{ast.unparse(e)}` of a {C}")
                hc, _ = self.heap_of(C)
                n = self.bindname()
                return s0 + [f"Py.bind (Py.idx {hc} {c}) fun {n} =>"], f"{n}.{lname(e.attr)}", parse_type(STRUCTS[C][e.attr])
            if t is not None and is_node(t):
                cols = self.spec.tree_cols.get(node_tree(t), {})
                if e.attr == "idx":
                    return s0, c, "Int"
                if e.attr in cols:
                    n = self.bindname()
                    return s0 + [f"Py.bind (Py.idx v.{lname(cols[e.attr])} {c}) fun {n} =>"], n, "Int"
                raise Untranslatable(f"{self.spec.lean}: node attribute `{ast.unparse(e)}`")
            if t is not None and isinstance(t, str) and t in STRUCTS and e.attr in STRUCTS[t] and (not isinstance(e.value, ast.Name) or s0):
                # a field of a record that is the value of an expression (`xs[-1].id`)
                return s0, f"({c}).{lname(e.attr)}", parse_type(STRUCTS[t][e.attr])
        if isinstance(e.value, ast.Name) and e.value.id in self.vars:
            sty = self.vars[e.value.id]
            if isinstance(sty, str) and sty in STRUCTS and e.attr in STRUCTS[sty]:
                return [], f"v.{lname(e.value.id)}.{lname(e.attr)}", parse_type(STRUCTS[sty][e.attr])
        raise Untranslatable(f"{self.spec.lean}: attribute `{ast.unparse(e)}`")

    def e_Tuple(self, e, want):
        steps, codes, tys = [], [], []
        wants = [None] * len(e.elts)
        if isinstance(want, tuple) and want[0] == "Prod":
            # expected component types (`(n, -1)` stored where `(Optional[ASTNode], int)` is declared)
            try:
                wants = prod_parts(want, len(e.elts))
            except Untranslatable:
                pass
        for x, w in zip(e.elts, wants):
            s, c, t = self.tr(x, w)
            if w is not None and t != w:
                s, c = self.coerce2(s, c, t, w); t = w
            steps += s; codes.append(c); tys.append(t)
        return steps, "(" + ", ".join(codes) + ")", prod_of(tys)

    def e_List(self, e, want):
        if not e.elts:
            ty = want if isinstance(want, tuple) and want[0] == "List" else None
            if ty is None:
                raise Untranslatable(f"{self.spec.lean}: empty list literal of unknown type")
            return [], f"([] : {show_type(ty)})", ty
        steps, codes, tys = [], [], []
        w = want[1] if isinstance(want, tuple) and want[0] == "List" else None
        for x in e.elts:
            s, c, t = self.tr(x, w)
            if w is not None and t != w:
                s, c = self.coerce2(s, c, t, w); t = w
            steps += s; codes.append(c); tys.append(t)
        return steps, "[" + ", ".join(codes) + "]", ("List", tys[0])

    def e_Dict(self, e, want):
        if not (isinstance(want, tuple) and want[0] == "Dict"):
            raise Untranslatable(f"{self.spec.lean}: dict literal of unknown type `{ast.unparse(e)}`")
        steps, code = [], f"([] : {show_type(want)})"
        for k, v in zip(e.keys, e.values):
            s1, kc, _ = self.tr(k); s2, vc, vt = self.tr(v, want[2])
            steps += s1 + s2
            code = f"(Py.Dict.set {code} {kc} {self.coerce(vc, vt, want[2])})"
        return steps, code, want

    def coerce(self, code, have, want):
        """Python values of an optional slot: `x` where `Option X` is expected becomes `some x`"""
        if have == want:
            return code
        if want == "Frac" and have == "Int":
            return f"({code}, (1 : Int))"
        # the views of one dynamically typed Python value (Model/PyObjHeap.lean)
        if (have, want) == ("String", "PyAtom"):
            return f"(Py.Atom.str {code})"
        if (have, want) == ("String", "PyVal"):
            return f"(Py.Val.at (Py.Atom.str {code}))"
        if (have, want) == ("PyAtom", "PyVal"):
            return f"(Py.Val.at {code})"
        if (isinstance(want, tuple) and want[0] == "List" and isinstance(want[1], tuple) and want[1][0] == "Option"
                and have == ("List", want[1][1])):
            return f"(({code}).map some)"            # an array of finite floats where an array that may hold `inf` is expected
        if isinstance(want, tuple) and want[0] == "Option":
            if have == want[1]:
                return f"(some {code})"
            if isinstance(have, tuple) and have[0] == "Option" and have[1] == "Unit":
                return f"(none : {show_type(want)})"
        raise Untranslatable(f"{self.spec.lean}: a value of type {have} where {want} is expected (`{code}`)")

    def coerce2(self, steps, code, have, want):
        """`coerce`, plus the conversions that need a step: a value that may be `None` where an object is required is an error of the typed
        model when it is `None` (the source passes a variable it has just tested / asserted `is not None`); returns (steps, code)"""
        if have == want or want is None:
            return steps, code
        if isinstance(have, tuple) and have[0] == "Option" and have[1] == want:
            n0 = self.bindname()
            return steps + [f"Py.bind ({code}) fun {n0} =>"], n0
        return steps, self.coerce(code, have, want)

    def e_UnaryOp(self, e, want):
        s, c, t = self.tr(e.operand)
        if isinstance(e.op, ast.Not):
            return s, f"(!{self.as_bool(c, t)})", "Bool"
        if isinstance(e.op, ast.USub) and t == "Int":
            return s, f"(-{c})", "Int"
        raise Untranslatable(f"unary `{ast.unparse(e)}`")

    def as_bool(self, c, t):
        """Python truthiness"""
        if t == "Bool":
            return c
        if isinstance(t, tuple) and t[0] == "Option" and t[1] == "Bool":
            return f"(({c}).getD false)"         # bool(None) = bool(False) = False
        if isinstance(t, tuple) and t[0] == "Option":
            return f"({c}).isSome"
        if t == "Int":
            return f"(decide ({c} ≠ 0))"
        if isinstance(t, tuple) and t[0] in ("List", "Dict", "Set"):
            return f"(!({c}).isEmpty)"
        raise Untranslatable(f"truthiness of type {t}")

    def e_BinOp(self, e, want):
        s1, a, ta = self.tr(e.left)
        s2, b, tb = self.tr(e.right)
        if ta == ("Option", "Int") and tb == "Int":
            n0 = self.bindname()                            # `None + 1` raises TypeError
            s1, a, ta = s1 + [f"Py.bind ({a}) fun {n0} =>"], n0, "Int"
        if ta == "Int" and tb == ("Option", "Int"):
            n0 = self.bindname()
            s2, b, tb = s2 + [f"Py.bind ({b}) fun {n0} =>"], n0, "Int"
        if ta == "Int" and tb == "Int":
            op = {ast.Add: "+", ast.Sub: "-", ast.Mult: "*"}.get(type(e.op))
            if op:
                return s1 + s2, f"({a} {op} {b})", "Int"
            if isinstance(e.op, ast.FloorDiv):
                return s1 + s2, f"(Int.fdiv {a} {b})", "Int"       # Python `//` floors
            if isinstance(e.op, ast.Mod):
                return s1 + s2, f"(Int.fmod {a} {b})", "Int"
            if isinstance(e.op, ast.Div):
                n = self.bindname()                                   # Python `/` on ints: ZeroDivisionError, else the exact quotient
                return s1 + s2 + [f"Py.bind (Py.truediv {a} {b}) fun {n} =>"], n, "Frac"
        # --- a declared numeric element type (float scalars / arrays): `+ - *`, broadcasting of scalars, of a column against a 2-d array
        aop = {ast.Add: "+", ast.Sub: "-", ast.Mult: "*"}.get(type(e.op))
        if aop and ta in self.num and tb == ta:
            return s1 + s2, f"({a} {aop} {b})", ta
        if aop and ta in self.num and isinstance(tb, tuple) and tb[0] in ("List", "Col") and tb[1] == ta:
            return s1 + s2, f"(({b}).map (fun x => {a} {aop} x))", tb                       # scalar ∘ array
        if aop and tb in self.num and isinstance(ta, tuple) and ta[0] in ("List", "Col") and ta[1] == tb:
            return s1 + s2, f"(({a}).map (fun x => x {aop} {b}))", ta                       # array ∘ scalar
        if (aop and isinstance(ta, tuple) and ta[0] == "List" and isinstance(ta[1], tuple) and ta[1][0] == "List" and ta[1][1] in self.num
                and tb == ("Col", ta[1][1])):
            n = self.bindname()                                                             # (r, k) array ∘ column (n, 1)
            return s1 + s2 + [f"Py.bind (Py.bcastCol (fun x y => x {aop} y) {a} {b}) fun {n} =>"], n, ta
        if ta == ("List", "Int") and tb == "Int" and isinstance(e.op, (ast.Sub, ast.Add)):
            sign = "-" if isinstance(e.op, ast.Sub) else ""
            return s1 + s2, f"(({a}).map (fun x => x + ({sign}{b})))", ("List", "Int")
        if isinstance(e.op, ast.Add) and isinstance(ta, tuple) and ta[0] == "List" and ta == tb:
            return s1 + s2, f"({a} ++ {b})", ta
        raise Untranslatable(f"{self.spec.lean}: binary `{ast.unparse(e)}` on {ta}, {tb}")

    def e_BoolOp(self, e, want):
        # short-circuit evaluation matters only for fallible operands: evaluate lazily through `if`
        parts = [self.tr(x) for x in e.values]
        if all(not s for s, _, _ in parts):
            cs = [self.as_bool(c, t) for _, c, t in parts]
            op = " && " if isinstance(e.op, ast.And) else " || "
            return [], "(" + op.join(cs) + ")", "Bool"
        # fallible operands: short-circuit evaluation through nested Option-valued conditionals
        steps0, c0, t0 = parts[0]
        acc = None
        for s, c, t in reversed(parts[1:]):
            blk = self.opt_block(s, self.as_bool(c, t)) if acc is None else self.opt_block(s, "__ACC__").replace(
                "some (__ACC__)", f"(if {self.as_bool(c, t)} then {acc} else some false)" if isinstance(e.op, ast.And)
                else f"(if {self.as_bool(c, t)} then some true else {acc})")
            acc = blk
        n = self.bindname()
        first = self.as_bool(c0, t0)
        cond = f"(if {first} then {acc} else some false)" if isinstance(e.op, ast.And) else f"(if {first} then some true else {acc})"
        return steps0 + [f"Py.bind {cond} fun {n} =>"], n, "Bool"

    def e_Compare(self, e, want):
        if len(e.ops) == 1:
            return self.cmp1(e.left, e.ops[0], e.comparators[0])
        # a <= b < c
        steps, cs = [], []
        left = e.left
        for op, right in zip(e.ops, e.comparators):
            s, c, _ = self.cmp1(left, op, right)
            steps += s; cs.append(c); left = right
        return steps, "(" + " && ".join(cs) + ")", "Bool"

    def cmp1(self, l, op, r):
        if isinstance(op, (ast.Is, ast.IsNot)) and isinstance(r, ast.Constant) and r.value is None:
            s, c, t = self.tr(l)
            if not (isinstance(t, tuple) and t[0] == "Option"):
                raise Untranslatable(f"`is None` on non-optional {ast.unparse(l)} : {t}")
            return s, f"({c}).isNone" if isinstance(op, ast.Is) else f"({c}).isSome", "Bool"
        s1, a, ta = self.tr(l)
        s2, b, tb = self.tr(r)
        if isinstance(op, (ast.In, ast.NotIn)):
            if isinstance(tb, tuple) and tb[0] in ("List", "Set"):
                c = f"(({b}).contains {a})"
            elif isinstance(tb, tuple) and tb[0] == "Dict":
                c = f"(Py.Dict.contains {b} {a})"
            else:
                raise Untranslatable(f"`in` on {tb}")
            return s1 + s2, c if isinstance(op, ast.In) else f"(!{c})", "Bool"
        # element-wise comparisons of arrays
        if isinstance(ta, tuple) and ta == ("List", "Int") and tb == "Int" and isinstance(op, ast.Eq):
            return s1 + s2, f"(Py.eqMask {a} {b})", ("List", "Bool")
        if isinstance(ta, tuple) and ta == ("List", "Int") and tb == "Int" and isinstance(op, ast.NotEq):
            return s1 + s2, f"(Py.neMask {a} {b})", ("List", "Bool")
        if isinstance(ta, tuple) and ta == ("List", "Int") and tb == "Int" and isinstance(op, ast.LtE):
            return s1 + s2, f"(Py.leMask {a} {b})", ("List", "Bool")
        if ta == ("List", "Int") and tb == ("List", "Int") and isinstance(op, ast.Lt):
            return s1 + s2, f"(Py.ltMask {a} {b})", ("List", "Bool")
        if ta in ("PyVal", "PyAtom") and tb == "String" and isinstance(op, (ast.Eq, ast.NotEq)):
            c = f"(Py.{ta[2:]}.eqStr {a} {b})"
            return s1 + s2, c if isinstance(op, ast.Eq) else f"(!{c})", "Bool"
        sym = {ast.Eq: "=", ast.NotEq: "≠", ast.Lt: "<", ast.LtE: "≤", ast.Gt: ">", ast.GtE: "≥"}.get(type(op))
        if sym is None:
            raise Untranslatable(f"comparison `{ast.unparse(op)}`")
        if ta != tb:
            raise Untranslatable(f"{self.spec.lean}: comparison of {ta} with {tb} in `{ast.unparse(l)} ? {ast.unparse(r)}`")
        return s1 + s2, f"(decide ({a} {sym} {b}))", "Bool"

    def e_NamedExpr(self, e, want):
        """`(x := e)`: assigns and yields the value"""
        if not isinstance(e.target, ast.Name):
            raise Untranslatable("walrus target")
        st, c, t = self.tr(e.value, None if e.target.id in self.versions else self.vars.get(e.target.id))
        if e.target.id not in self.vars and e.target.id not in self.extra_vars:
            self.vars[e.target.id] = t
        key = self.assign_version(e.target.id, t)
        self.check_type(key, t, e)
        return st + [f"let v := {{ v with {lname(key)} := {c} }};"], f"v.{lname(key)}", t

    def e_IfExp(self, e, want):
        # `cb(...) if cb is not None else None`: callbacks are always present (an absent callback is the trivial one)
        t = e.test
        if (isinstance(t, ast.Compare) and len(t.ops) == 1 and isinstance(t.ops[0], ast.IsNot) and isinstance(t.left, ast.Name)
                and t.left.id in self.spec.callbacks and isinstance(t.comparators[0], ast.Constant) and t.comparators[0].value is None):
            return self.tr(e.body, want)
        s0, c, tc = self.tr(e.test)
        s1, a, ta = self.tr(e.body, want)
        s2, b, tb = self.tr(e.orelse, want)
        if ta != tb and want is None:
            # `x if c else None` / `None if c else x` has the type Optional[type(x)]
            if tb == ("Option", "Unit") and ta != tb:
                want = ("Option", ta)
            elif ta == ("Option", "Unit"):
                want = ("Option", tb)
        if ta != tb and want is not None:
            # `x if c else None`: both branches are values of the optional slot
            a, b, ta = self.coerce(a, ta, want), self.coerce(b, tb, want), want
        if s1 or s2:
            # a fallible branch must only be evaluated when taken
            n = self.bindname()
            oa = self.opt_block(s1, a)
            ob = self.opt_block(s2, b)
            return s0 + [f"Py.bind (if {self.as_bool(c, tc)} then {oa} else {ob}) fun {n} =>"], n, ta
        return s0, f"(if {self.as_bool(c, tc)} then {a} else {b})", ta

    def opt_block(self, steps, code):
        """an Option-valued term evaluating `steps` then `code` (no state changes allowed inside)"""
        out = ""
        for st in steps:
            if not st.startswith("Py.bind ("):
                raise Untranslatable("state-changing call inside a conditional expression")
            # "Py.bind (X) fun n =>"  ->  "(X).bind fun n => "
            body, _, tail = st[len("Py.bind "):].rpartition(" fun ")
            out += f"Option.bind {body} fun {tail} "
        return f"({out}some ({code}))"

    def e_Subscript(self, e, want):
        # `df.loc[row, names.col]` -> col[row]
        if (ast.unparse(e.value) == "df.loc" and isinstance(e.slice, ast.Tuple) and len(e.slice.elts) == 2
                and f"df[{ast.unparse(e.slice.elts[1])}]" in self.spec.stores):
            col = self.spec.stores[f"df[{ast.unparse(e.slice.elts[1])}]"]
            return self.e_Subscript(ast.Subscript(ast.Name(col, ast.Load()), e.slice.elts[0], ast.Load()), want)
        # `col.iloc[k]`: positional indexing of a column
        if isinstance(e.value, ast.Attribute) and e.value.attr == "iloc" and not isinstance(e.slice, (ast.Slice, ast.Tuple)):
            s0, c, t = self.tr(e.value.value)
            if isinstance(t, tuple) and t[0] == "List":
                s2, i, ti = self.tr(e.slice)
                if ti == "Int":
                    n = self.bindname()
                    return s0 + s2 + [f"Py.bind (Py.idx {c} {i}) fun {n} =>"], n, t[1]
        # `x.shape[0]` of a 1-d array
        if (isinstance(e.value, ast.Attribute) and e.value.attr == "shape" and isinstance(e.slice, ast.Constant) and e.slice.value == 0):
            s0, c, t = self.tr(e.value.value)
            if isinstance(t, tuple) and t[0] == "List":
                return s0, f"(Py.len {c})", "Int"
        s1, a, ta = self.tr(e.value)
        if (isinstance(ta, tuple) and ta[0] == "Option" and isinstance(ta[1], tuple) and ta[1][0] == "Prod"
                and isinstance(e.slice, ast.Constant) and isinstance(e.slice.value, int)):
            # `x[k]` on an optional tuple: `None[k]` raises TypeError
            n0 = self.bindname()
            s1, a, ta = s1 + [f"Py.bind ({a}) fun {n0} =>"], n0, ta[1]
        if isinstance(e.slice, ast.Tuple) and len(e.slice.elts) == 2:
            x0, x1 = e.slice.elts
            # `a[:, None]`: the 1-d array as a column vector (shape (n, 1)); broadcasting is decided where it is used
            if is_full_slice(x0) and isinstance(x1, ast.Constant) and x1.value is None and isinstance(ta, tuple) and ta[0] == "List" \
                    and not isinstance(ta[1], tuple):
                return s1, a, ("Col", ta[1])
            # `m[i, j]` on a 2-d array
            if isinstance(ta, tuple) and ta[0] == "List" and isinstance(ta[1], tuple) and ta[1][0] == "List" \
                    and not is_full_slice(x0) and not is_full_slice(x1):
                s2, i, ti = self.tr(x0); s3, j, tj = self.tr(x1)
                if ti == "Int" and tj == "Int":
                    n = self.bindname()
                    return s1 + s2 + s3 + [f"Py.bind (Py.idx2 {a} {i} {j}) fun {n} =>"], n, ta[1][1]
            raise Untranslatable(f"{self.spec.lean}: subscript `{ast.unparse(e)}` on {ta}")
        # constant index into a tuple
        if isinstance(ta, tuple) and ta[0] == "Prod" and isinstance(e.slice, ast.Constant) and isinstance(e.slice.value, int):
            parts, t, n = [], ta, 1
            while isinstance(t, tuple) and t[0] == "Prod":
                parts.append(t[1]); t = t[2]; n += 1
            parts.append(t)
            k = e.slice.value
            if 0 <= k < n:
                return s1, proj(a, k, n), parts[k]
        if isinstance(e.slice, ast.Slice):
            sl = e.slice
            if isinstance(ta, tuple) and ta[0] == "List" and sl.step is None:
                lo = ast.literal_eval(sl.lower) if sl.lower is not None and isinstance(sl.lower, (ast.Constant, ast.UnaryOp)) else None
                hi = ast.literal_eval(sl.upper) if sl.upper is not None and isinstance(sl.upper, (ast.Constant, ast.UnaryOp)) else None
                if sl.upper is None and isinstance(lo, int) and lo >= 0:
                    return s1, f"(({a}).drop {lo})", ta                    # x[k:]
                if sl.lower is None and isinstance(hi, int) and hi < 0:
                    return s1, f"(Py.dropEnd {a} {-hi})", ta                # x[:-k]
                # x[lo:hi] with computed bounds (each an `int` or `None`): Python's `slice.indices` (Model/PyObj.lean `Py.slice`)
                bs, bc = list(s1), []
                for b in (sl.lower, sl.upper):
                    if b is None:
                        bc.append("(none : Option Int)")
                        continue
                    sb, cb, tb = self.tr(b)
                    bs += sb
                    if tb == "Int":
                        bc.append(f"(some {cb})")
                    elif tb == ("Option", "Int"):
                        bc.append(cb)
                    else:
                        raise Untranslatable(f"{self.spec.lean}: slice bound `{ast.unparse(b)}` of type {tb}")
                return bs, f"(Py.slice {a} {bc[0]} {bc[1]})", ta
            raise Untranslatable(f"slice `{ast.unparse(e)}`")
        s2, i, ti = self.tr(e.slice)
        if isinstance(ta, tuple) and ta[0] == "List":
            if ti == ("List", "Bool"):
                return s1 + s2, f"(Py.select {a} {i})", ta
            if ti == "Int":
                n = self.bindname()
                return s1 + s2 + [f"Py.bind (Py.idx {a} {i}) fun {n} =>"], n, ta[1]
            if ti == ("List", "Int"):
                n = self.bindname()
                return s1 + s2 + [f"Py.bind (Py.take {a} {i}) fun {n} =>"], n, ta
        if isinstance(ta, tuple) and ta[0] == "Dict" and ti == ta[1]:
            n = self.bindname()
            return s1 + s2 + [f"Py.bind (Py.Dict.get? {a} {i}) fun {n} =>"], n, ta[2]
        if isinstance(ta, tuple) and ta[0] == "DDict" and ti == ta[1] and isinstance(e.value, ast.Name):
            # defaultdict(list): `d[k]` inserts `[]` under a missing key, then reads
            nm = lname(e.value.id)
            n = self.bindname()
            return (s1 + s2 + [f"let {n} := {i}; let v := {{ v with {nm} := Py.Dict.setdefault v.{nm} {n} [] }};"],
                    f"(Py.Dict.getD v.{nm} {n} [])", ta[2])
        raise Untranslatable(f"{self.spec.lean}: subscript `{ast.unparse(e)}` on {ta} with {ti}")

    def e_ListComp(self, e, want):
        return self.lower_comp(e, "list", want)

    def e_GeneratorExp(self, e, want):
        return self.lower_comp(e, "list", want)

    def e_DictComp(self, e, want):
        return self.lower_comp(e, "dict", want)

    def lower_comp(self, e, kind, want):
        """[elt for tgt in iter] -> tmp = []; for tgt in iter: tmp.append(elt)  (state changes inside are kept in order)"""
        if len(e.generators) != 1 or e.generators[0].ifs or e.generators[0].is_async:
            raise Untranslatable(f"comprehension `{ast.unparse(e)}`")
        g = e.generators[0]
        # element type: translate the element once in a scratch translator state to learn its type
        save = self.tmp
        n_aux = len(self.aux)                 # loop bodies hoisted by the scratch translations below are dropped again (they are never referenced)
        it_s, it_c, it_t = self.tr(g.iter)
        elem_t = self.elem_type(it_t)
        if isinstance(g.target, ast.Name) and self.vars.get(g.target.id, elem_t) != elem_t:
            # a comprehension has its own scope: its target is a different variable from a function-level variable of the same name
            # (here: of another type), so it gets a name of its own in the one record of variables
            e = self.rename_comp_target(e, g.target.id, f"{g.target.id}_c{self.tmp}")
            self.tmp += 1
            save = self.tmp
            g = e.generators[0]
        self.bind_target_types(g.target, elem_t)
        if kind == "list" and isinstance(want, tuple) and want[0] == "List":
            tmp_t = want                   # the elements are stored with the declared element type (`(n, -1)` as `(Optional[ASTNode], int)`)
        elif kind == "list":
            _, _, et = self.tr(e.elt, want[1] if isinstance(want, tuple) and want[0] == "List" else None)
            tmp_t = ("List", et)
        else:
            _, _, kt = self.tr(e.key)
            _, _, vt = self.tr(e.value)
            tmp_t = ("Dict", kt, vt)
        self.tmp = save
        del self.aux[n_aux:]
        tmp = self.fresh(tmp_t, "c")
        # build the loop as statements
        init = ast.parse(f"{tmp} = []" if kind == "list" else f"{tmp} = {{}}").body[0]
        if kind == "list":
            body = ast.Expr(ast.Call(ast.Attribute(ast.Name(tmp, ast.Load()), "append", ast.Load()), [e.elt], []))
        else:
            body = ast.Assign([ast.Subscript(ast.Name(tmp, ast.Load()), e.key, ast.Store())], e.value)
        loop = ast.For(g.target, g.iter, [body], [], None)
        for nd in (init, loop):
            nd.lineno = nd.col_offset = nd.end_lineno = nd.end_col_offset = 0
            ast.fix_missing_locations(nd)
        code = self.block([init, loop])
        # run the statements as a state change, then read the temporary
        n = self.bindname()
        step = f"Py.bindS (({code}) v) fun (v : {self.Vt}) =>"
        return [step], f"v.{tmp}", tmp_t

    def rename_comp_target(self, e, old, new):
        import copy
        e = copy.deepcopy(e)
        g = e.generators[0]
        g.target.id = new
        for part in ([e.elt] if hasattr(e, "elt") else [e.key, e.value]):
            for nd in ast.walk(part):
                if isinstance(nd, (ast.ListComp, ast.GeneratorExp, ast.DictComp, ast.SetComp, ast.Lambda)):
                    raise Untranslatable(f"{self.spec.lean}: nested scope inside a comprehension whose target is renamed")
                if isinstance(nd, ast.Name) and nd.id == old:
                    nd.id = new
        return e

    def elem_type(self, t):
        if isinstance(t, tuple) and t[0] in ("List", "Stream", "Set", "Iter"):
            return t[1]
        if isinstance(t, tuple) and t[0] in ("Dict", "DDict"):
            return t[1]
        raise Untranslatable(f"iteration over {t}")

    def bind_target_types(self, tgt, ty):
        if isinstance(tgt, ast.Name):
            if tgt.id not in self.vars:
                self.vars[tgt.id] = ty
            return
        if isinstance(tgt, ast.Tuple):
            for x, t in zip(tgt.elts, prod_parts(ty, len(tgt.elts))):
                self.bind_target_types(x, t)
            return
        raise Untranslatable(f"loop target `{ast.unparse(tgt)}`")

    def e_Call(self, e, want):
        f = ast.unparse(e.func)
        args = e.args
        kw = {k.arg: k.value for k in e.keywords}
        # --- `traverse(topology, enter=F, leave=G, root=r)` / `self.traverse(...)` with translated closures as callbacks
        tree_trav = (isinstance(e.func, ast.Attribute) and e.func.attr == "traverse" and ast.unparse(e.func.value) in self.spec.tree_cols
                     and {"id", "pid"} <= set(self.spec.tree_cols[ast.unparse(e.func.value)]))
        if (f in ("traverse", "self.traverse") or tree_trav) and any(k in kw for k in ("enter", "leave")):
            if not self.spec.fuel:
                raise Untranslatable(f"{self.spec.lean}: traverse needs fuel")
            if f == "traverse":
                s0, topo, _ = self.tr(args[0])
            elif tree_trav:
                # `Tree.traverse`: `traverse((self.id(), self.pid()), enter=wrap(enter), leave=wrap(leave))` where `wrap(fn)` hands `self[idx]` to
                # `fn` - the node handle whose row index is the id the traversal yields
                cols = self.spec.tree_cols[ast.unparse(e.func.value)]
                s0, topo = [], f"(v.{lname(cols['id'])}, v.{lname(cols['pid'])})"
            else:
                if not self.spec.self_topology:
                    raise Untranslatable(f"{self.spec.lean}: self.traverse without a topology")
                s0, topo = [], f"({self.spec.self_topology[0]}, {self.spec.self_topology[1]})"
            steps = list(s0)
            root = "(0 : Int)"
            if "root" in kw:
                s1, root, _ = self.tr(kw["root"]); steps += s1
            cbs = {}
            caps = None
            for which in ("enter", "leave"):
                if which in kw:
                    key = kw[which].id if isinstance(kw[which], ast.Name) else ("<lambda>" if isinstance(kw[which], ast.Lambda) else None)
                    if key not in self.spec.closures:
                        raise Untranslatable(f"{self.spec.lean}: callback `{ast.unparse(kw[which])}` has no translation")
                    callee = by_lean_global[self.spec.closures[key]]
                    cbs[which] = callee
                    if caps is not None and caps != callee.captures:
                        raise Untranslatable("enter and leave capture different variables")
                    caps = callee.captures
            caps = list(caps or [])
            # closures that call this function's own (user) callbacks: the callbacks' state is part of the closure state
            ucb = [c for c in cbs.values() if c.callbacks]
            if ucb:
                if any(c.callbacks != self.spec.callbacks or c.tparams != self.spec.tparams for c in ucb) or len(ucb) != len(cbs):
                    raise Untranslatable(f"{self.spec.lean}: closures with callbacks other than this function's")
                caps = caps + ["cbs"]
            cbargs = (" " + self.bargs_nofuel) if ucb else ""
            # callback state: the captured variables (a tuple, right-nested; Unit when there is none)
            st0 = "()" if not caps else "(" + ", ".join(f"v.{lname(c)}" for c in caps) + ")"
            ecode = (f"(Py.wrapE ({cbs['enter'].lean}{cbargs}))" if ucb else f"(Py.wrapE {cbs['enter'].lean})") if "enter" in cbs else "(Py.wrapE Py.noEnter)"
            lcode = (f"(Py.wrapL ({cbs['leave'].lean}{cbargs}))" if ucb else f"(Py.wrapL {cbs['leave'].lean})") if "leave" in cbs else "(Py.wrapL Py.noLeave)"
            rty = parse_type(cbs["leave"].ret) if "leave" in cbs else "Unit"
            n = self.bindname()
            back = ""
            if caps:
                back = " let v := { v with " + ", ".join(f"{lname(c)} := {proj(n + '.1', k, len(caps))}" for k, c in enumerate(caps)) + " };"
            steps.append(f"Py.bind (Py.unwrapCb (traverse_dfs {ecode} {lcode} fuel {topo} {root} (some {st0}))) fun {n} =>{back}")
            return steps, f"{n}.2", rty
        # --- `len(self)` of a translated class
        if f == "len" and len(args) == 1 and f"{ast.unparse(e)}#{self.spec.cls}" in self.table:
            callee = self.table[f"{ast.unparse(e)}#{self.spec.cls}"]
            n = self.bindname()
            nm = args[0].id
            return [f"Py.bind ({callee.lean} v.{lname(nm)}) fun {n} =>"], n, parse_type(callee.ret)
        # --- callbacks (state-passing): cb(a, b) -> let r := cb v.cbs a b; v := {v with cbs := r.1}; r.2
        if f in self.spec.callbacks:
            lean_cb, nargs, rty = self.spec.callbacks[f][0].split()[0].strip("("), self.spec.callbacks[f][1], self.spec.callbacks[f][2]
            steps, codes = [], []
            for x in args[:nargs]:
                s0, c, _ = self.tr(x)
                steps += s0; codes.append(c)
            n = self.bindname()
            steps.append(f"let {n} := {lean_cb} v.cbs {' '.join(codes)}; let v := {{ v with cbs := {n}.1 }};")
            return steps, f"{n}.2", parse_type(rty)
        if isinstance(e.func, ast.Name) and e.func.id in self.spec.callbacks:
            _, nargs, rty = self.spec.callbacks[e.func.id]
            steps, codes = [], []
            for x in args:
                s, c, _ = self.tr(x)
                steps += s; codes.append(c)
            n = self.bindname()
            steps.append(f"let {n} := {e.func.id} v.cbs {' '.join(codes)}; let v := {{ v with cbs := {n}.1 }};")
            return steps, f"{n}.2", parse_type(rty)
        # --- a nested function of the source called directly: the translated closure, run on its captured variables (written back afterwards)
        if isinstance(e.func, ast.Name) and e.func.id in self.spec.closures and not kw:
            callee = by_lean_global[self.spec.closures[e.func.id]]
            if callee.fuel and not self.spec.fuel:
                raise Untranslatable(f"{self.spec.lean} calls {callee.lean} which needs fuel")
            if callee.callbacks or callee.tparams:
                raise Untranslatable(f"{self.spec.lean}: direct call of the closure {callee.lean} with callbacks / type parameters")
            steps, codes = [], []
            for x, pn in zip(args, callee.params):
                s0, c, t = self.tr(x, parse_type(callee.vars[pn]))
                s0, c = self.coerce2(s0, c, t, parse_type(callee.vars[pn]))
                steps += s0; codes.append(c)
            caps = callee.captures
            st0 = "()" if not caps else "(" + ", ".join(f"v.{lname(c)}" for c in caps) + ")"
            n = self.bindname()
            back = ""
            if caps:
                back = " let v := { v with " + ", ".join(f"{lname(c)} := {proj(n + '.1', k, len(caps))}" for k, c in enumerate(caps)) + " };"
            steps.append(f"Py.bind ({callee.lean} {'fuel ' if callee.fuel else ''}{st0} {' '.join(codes)}) fun {n} =>{back}")
            return steps, f"{n}.2", parse_type(callee.ret)
        # --- heap-allocated objects: `C(...)` allocates a record and yields its reference
        if f in HEAP_CTORS and HEAP_CTORS[f]["cls"] in self.spec.heap:
            hc = HEAP_CTORS[f]
            C = hc["cls"]
            given = dict(zip(hc["fields"], args))
            given.update({k: x for k, x in kw.items() if k not in hc.get("ignore", [])})
            if len(args) > len(hc["fields"]) or any(k not in STRUCTS[C] for k in given):
                raise Untranslatable(f"{self.spec.lean}: constructor call `{ast.unparse(e)}`")
            steps, ups = [], []
            for k, x in given.items():
                ft = parse_type(STRUCTS[C][k])
                s0, c, t = self.tr(x, ft)
                s0, c = self.coerce2(s0, c, t, ft)
                steps += s0; ups.append(f"{lname(k)} := {c}")
            for k, ctext in hc.get("fixed", {}).items():
                s0, c, t = self.tr(ast.parse(ctext).body[0].value)
                steps += s0; ups.append(f"{lname(k)} := {c}")
            code, lv = self.heap_of(C)
            n = self.bindname()
            rec = f"{{ (default : {C}) with {', '.join(ups)} }}" if ups else f"(default : {C})"
            new_v = lv(n + ".1")
            steps.append(f"let {n} := Py.alloc {code} {rec}; let v := {new_v};")
            return steps, f"{n}.2", f"Ref@{C}"
        # --- a method of a heap-allocated object: the translated method, run on the heap (written back afterwards)
        if isinstance(e.func, ast.Attribute) and e.func.attr in {m for (_, m) in REF_METHODS}:
            try:
                s0, rc, rt = self.tr(e.func.value)
                s0, rc, rt = self.deref_opt(s0, rc, rt)
            except Untranslatable:
                rt = None
            if rt is not None and is_ref(rt) and (ref_class(rt), e.func.attr) in REF_METHODS:
                callee = by_lean_global[REF_METHODS[(ref_class(rt), e.func.attr)]]
                steps, codes = list(s0), []
                for x, pn in zip(args, callee.params[2:]):
                    s1, c, t = self.tr(x, parse_type(callee.vars[pn]))
                    s1, c = self.coerce2(s1, c, t, parse_type(callee.vars[pn]))
                    steps += s1; codes.append(c)
                if kw or len(args) != len(callee.params) - 2 or callee.fuel:
                    raise Untranslatable(f"{self.spec.lean}: call `{ast.unparse(e)}`")
                n = self.bindname()
                hcode, lv = self.heap_of(ref_class(rt))          # the heap is read after the arguments were evaluated
                new_v = lv(n + ".1")
                steps.append(f"Py.bind ({callee.lean} {hcode} {rc} {' '.join(codes)}) fun {n} => let v := {new_v};")
                return steps, f"{n}.2", parse_type(callee.ret)
        # --- a NamedTuple of the source file: the tuple of its arguments
        if f in self.namedtuples and not kw and len(args) == self.namedtuples[f]:
            steps, codes = [], []
            for x in args:
                s0, c, t = self.tr(x, "PyAtom")
                s0, c = self.coerce2(s0, c, t, "PyAtom")
                steps += s0; codes.append(c)
            return steps, f"(Py.Val.tup [{', '.join(codes)}])", "PyVal"
        if f == "str.upper" and len(args) == 1 and not kw:
            s0, c, t = self.tr(args[0])
            if t in ("PyVal", "PyAtom"):
                n = self.bindname()
                s0, c, t = s0 + [f"Py.bind (Py.{t[2:]}.str? {c}) fun {n} =>"], n, "String"      # anything but a `str` is a TypeError
            if t == "String":
                return s0, f"(Py.strUpper {c})", "String"
        if f == "reversed" and len(args) == 1:
            s0, c, t = self.tr(args[0])
            if isinstance(t, tuple) and t[0] == "List":
                return s0, f"(({c}).reverse)", t
        # --- trees as column variables, node handles as row indices
        if isinstance(e.func, ast.Attribute) and ast.unparse(e.func.value) in self.spec.tree_cols:
            T = ast.unparse(e.func.value)
            cols = self.spec.tree_cols[T]
            meth = e.func.attr
            if meth == "node" and len(args) == 1:                       # Tree.node(idx) = Tree.Node(self, idx)
                s0, c, t = self.tr(args[0])
                if t == "Int" or is_node(t):
                    return s0, c, f"Node@{T}"
            if meth in cols and not args:                                # tree.id() / tree.pid() / tree.type(): the column itself
                return [], f"v.{lname(cols[meth])}", ("List", "Int")
            if meth == "number_of_nodes" and not args and "id" in cols:
                return [], f"(Py.len v.{lname(cols['id'])})", "Int"
        if f in ("Tree.Node", "self.Node") and len(args) == 2 and ast.unparse(args[0]) in self.spec.tree_cols:
            s0, c, t = self.tr(args[1])
            if t == "Int" or is_node(t):
                return s0, c, f"Node@{ast.unparse(args[0])}"
        if f in ("Tree.Branch", "self.Branch", "Tree.Path", "self.Path") and len(args) == 2 and not kw and ast.unparse(args[0]) in self.spec.tree_cols:
            # a `Branch` / `Path` of a tree that is its column variables is the list of the node ids it is built from
            s0, c, t = self.tr(args[1], ("List", "Int"))
            if t == ("List", "Int"):
                return s0, c, t
        if isinstance(e.func, ast.Attribute) and e.func.attr in NODE_METHODS:
            try:
                s0, rc, rt = self.tr(e.func.value)
            except Untranslatable:
                rt = None
            if rt is not None and isinstance(rt, tuple) and rt[0] == "Option" and is_node(rt[1]):
                # a variable that may hold `None`: calling a method of None raises (AttributeError)
                n0 = self.bindname()
                s0, rc, rt = s0 + [f"Py.bind ({rc}) fun {n0} =>"], n0, rt[1]
            if rt is not None and is_node(rt):
                callee = by_lean_global[NODE_METHODS[e.func.attr]]
                T = node_tree(rt)
                mine = self.spec.tree_cols[T]
                (ctree, ccols), = callee.tree_cols.items()
                inv = {var: key for key, var in ccols.items()}
                codes = []
                for pname in callee.params:
                    if pname == "self":
                        codes.append(rc)
                    elif pname in inv and inv[pname] in mine:
                        codes.append(f"v.{lname(mine[inv[pname]])}")
                    else:
                        raise Untranslatable(f"{self.spec.lean}: `{ast.unparse(e)}` needs column `{pname}`")
                if args or kw:
                    raise Untranslatable(f"{self.spec.lean}: arguments in `{ast.unparse(e)}`")
                if callee.fuel and not self.spec.fuel:
                    raise Untranslatable(f"{self.spec.lean} calls {callee.lean} which needs fuel")
                n = self.bindname()
                rty = parse_type(callee.ret)
                rty = retarget_nodes(rty, T)
                return s0 + [f"Py.bind ({callee.lean} {'fuel ' if callee.fuel else ''}{' '.join(codes)}) fun {n} =>"], n, rty
        # --- a translated METHOD of a tree (`tree.get_tips()`, `node.subtree().get_tips()`): the callee is a function of the tree's columns;
        #     the receiver is a tree that IS column variables (`tree_cols`) or a tree-valued expression (type `Tree` = its (id, pid) columns)
        if isinstance(e.func, ast.Attribute) and e.func.attr in TREE_METHODS:
            rtxt = ast.unparse(e.func.value)
            callee = by_lean_global[TREE_METHODS[e.func.attr]]
            (ctree, ccols), = callee.tree_cols.items()
            inv = {var: key for key, var in ccols.items()}
            s0, have = [], None
            if rtxt in self.spec.tree_cols:
                have = {k: f"v.{lname(var)}" for k, var in self.spec.tree_cols[rtxt].items()}
            else:
                try:
                    s0, rc, rt = self.tr(e.func.value)
                except Untranslatable:
                    rt = None
                if rt == "Tree":
                    have = {"id": f"{rc}.1", "pid": f"{rc}.2"}
            if have is not None:
                steps, codes = list(s0), []
                rest = [p for p in callee.params if p not in inv]
                given = dict(zip(rest, args))
                given.update(kw)
                for pname in callee.params:
                    if pname in inv:
                        if inv[pname] not in have:
                            raise Untranslatable(f"{self.spec.lean}: `{ast.unparse(e)}` needs column `{inv[pname]}` of `{rtxt}`")
                        codes.append(have[inv[pname]])
                    elif pname in given:
                        s1, c1, _ = self.tr(given[pname]); steps += s1; codes.append(c1)
                    elif pname in callee.defaults:
                        s1, c1, _ = self.tr(ast.parse(callee.defaults[pname]).body[0].value); steps += s1; codes.append(c1)
                    else:
                        raise Untranslatable(f"{self.spec.lean}: `{ast.unparse(e)}` does not give `{pname}`")
                if callee.fuel and not self.spec.fuel:
                    raise Untranslatable(f"{self.spec.lean} calls {callee.lean} which needs fuel")
                if callee.out:
                    raise Untranslatable(f"{self.spec.lean}: `{ast.unparse(e)}` updates its tree")
                n = self.bindname()
                rty = retarget_nodes(parse_type(callee.ret), rtxt)
                return steps + [f"Py.bind ({callee.lean} {'fuel ' if callee.fuel else ''}{' '.join(codes)}) fun {n} =>"], n, rty
        # --- a translated function that takes a whole tree and updates it in place: `_sort_tree(tree)`
        if f in TREE_CALLEES and len(args) >= 1 and ast.unparse(args[0]) in self.spec.tree_cols:
            callee = by_lean_global[TREE_CALLEES[f]]
            mine = self.spec.tree_cols[ast.unparse(args[0])]
            (ctree, ccols), = callee.tree_cols.items()
            inv = {var: key for key, var in ccols.items()}
            # the callee's column parameters are this function's columns of the tree; its other parameters are the remaining arguments, in order
            steps, codes, rest = [], [], list(args[1:])
            for pn in callee.params:
                if pn in inv:
                    if inv[pn] not in mine:
                        raise Untranslatable(f"{self.spec.lean}: `{ast.unparse(e)}` needs column `{inv[pn]}`")
                    codes.append(f"v.{lname(mine[inv[pn]])}")
                elif rest:
                    s0, c, _ = self.tr(rest.pop(0), self_want(callee, pn)); steps += s0; codes.append(c)
                else:
                    raise Untranslatable(f"{self.spec.lean}: `{ast.unparse(e)}` gives no value for `{pn}`")
            if rest:
                raise Untranslatable(f"{self.spec.lean}: too many arguments in `{ast.unparse(e)}`")
            if callee.fuel and not self.spec.fuel:
                raise Untranslatable(f"{self.spec.lean} calls {callee.lean} which needs fuel")
            n = self.bindname()
            k = len(callee.out) + 1
            back = ", ".join(f"{lname(mine[inv[o]])} := {proj(n, j, k)}" for j, o in enumerate(callee.out))
            upd = f" let v := {{ v with {back} }};" if back else ""
            return (steps + [f"Py.bind ({callee.lean} {'fuel ' if callee.fuel else ''}{' '.join(codes)}) fun {n} =>{upd}"],
                    proj(n, k - 1, k), parse_type(callee.ret))
        # --- a call that is, at the level of the translated data, a call of another translated function
        if f in self.spec.call_alias:
            tgt, idxs = self.spec.call_alias[f]
            # an argument is one of the call's own arguments (by position) or the source text of an expression over the modelled data
            e = ast.Call(ast.parse(tgt).body[0].value, [args[i] if isinstance(i, int) else ast.parse(i, mode="eval").body for i in idxs], [])
            ast.fix_missing_locations(e)
            f, args, kw = tgt, e.args, {}
        # --- calls to other translated functions
        if f in self.table:
            callee = self.table[f]
            steps, codes = [], []
            recv = None
            if callee.cls is not None:
                recv = e.func.value            # receiver expression (a variable holding the struct)
                if not isinstance(recv, ast.Name):
                    raise Untranslatable(f"receiver `{ast.unparse(recv)}`")
                codes.append(f"v.{lname(recv.id)}")
            argexpr = {"self": recv} if recv is not None else {}
            for x in args:
                pn = callee.params[len(codes)] if len(codes) < len(callee.params) else None
                pt = parse_type(callee.vars[pn]) if pn in callee.vars else None
                s, c, t = self.tr(x, pt)
                if pt is not None and t != pt and not (is_node(t) or is_node(pt)):
                    s, c = self.coerce2(s, c, t, pt)
                steps += s; codes.append(c); argexpr[pn] = x
            for k in callee.params[len(codes):]:
                # keyword arguments, then the defaults of the callee's own signature (read from its source)
                x = kw[k] if k in kw else fn_defaults(callee).get(k)
                if x is not None:
                    pt = parse_type(callee.vars[k]) if k in callee.vars else None
                    s, c, t = self.tr(x, pt)
                    if pt is not None and t != pt and not (is_node(t) or is_node(pt)):
                        c = self.coerce(c, t, pt)
                    steps += s; codes.append(c); argexpr[k] = x
            n = self.bindname()
            fuel = "fuel " if callee.fuel else ""
            if callee.fuel and not self.spec.fuel:
                raise Untranslatable(f"{self.spec.lean} calls {callee.lean} which needs fuel")
            # out-parameters (objects / DataFrame columns the callee updates in place) are written back to the caller's variables
            outs = []
            for o in callee.out:
                x = argexpr.get(o)
                if x is not None and ast.unparse(x) in self.spec.stores:
                    outs.append(lname(self.spec.stores[ast.unparse(x)]))
                elif isinstance(x, ast.Name) and x.id in self.vars:
                    outs.append(lname(x.id))
                else:
                    raise Untranslatable(f"{self.spec.lean}: out-parameter `{o}` of {callee.lean} is not bound to a variable")
            if callee.callbacks:
                # the callee shares this function's callbacks and their state
                if callee.callbacks != self.spec.callbacks:
                    raise Untranslatable(f"{self.spec.lean}: call of {callee.lean} with different callbacks")
                call = f"{callee.lean} {self.bargs_nofuel} {fuel}{' '.join(codes)} v.cbs"
                outs = outs + ["cbs"]
            else:
                call = f"{callee.lean} {fuel}{' '.join(codes)}"
            if outs:
                k = len(outs) + 1
                back = ", ".join(f"{o} := {proj(n, j, k)}" for j, o in enumerate(outs))
                steps.append(f"Py.bind ({call}) fun {n} => let v := {{ v with {back} }};")
                return steps, proj(n, k - 1, k), parse_type(callee.ret)
            steps.append(f"Py.bind ({call}) fun {n} =>")
            return steps, n, parse_type(callee.ret)
        # --- constructors of translated classes: `C(args)` = `C.__init__(fresh object, args)`
        if f in CLASS_INITS:
            callee = by_lean_global[CLASS_INITS[f]]
            vals = list(args) + [kw[k] for k in callee.params[1 + len(args):] if k in kw]
            steps, codes = [], []
            for x in vals:
                s0, c, _ = self.tr(x); steps += s0; codes.append(c)
            n = self.bindname()
            steps.append(f"Py.bind ({callee.lean} default {' '.join(codes)}) fun {n} =>")
            return steps, f"{n}.1", callee.cls
        if f in STRUCT_CTORS:
            ctor = STRUCT_CTORS[f]
            vals = list(args) + [kw[k] for k in kw]
            steps, codes = [], []
            for x in vals:
                s, c, _ = self.tr(x); steps += s; codes.append(c)
            return steps, f"({ctor[0]} {' '.join(codes)})", ctor[1]
        # --- builtins
        if isinstance(e.func, ast.Subscript) and ast.unparse(e.func.value) in ("dict", "list") and not args:
            if not isinstance(want, tuple):
                raise Untranslatable(f"{self.spec.lean}: `{ast.unparse(e)}` of unknown type")
            return [], f"([] : {show_type(want)})", want
        if f == "defaultdict" and len(args) == 1 and ast.unparse(args[0]) == "list":
            if not (isinstance(want, tuple) and want[0] == "DDict"):
                raise Untranslatable(f"{self.spec.lean}: defaultdict(list) of unknown type")
            return [], f"([] : {show_type(want)})", want
        if f == "len" and len(args) == 1 and isinstance(args[0], ast.Call) and ast.unparse(args[0].func) == "np.unique":
            s0, c, t = self.tr(args[0].args[0])
            if t == ("List", "Int"):
                return s0, f"(Py.uniqueCount {c})", "Int"
        if f == "len" and len(args) == 1:
            s, c, t = self.tr(args[0])
            if isinstance(t, tuple) and t[0] in ("List", "Dict", "DDict"):
                return s, f"(Py.len {c})", "Int"
        if f == "range" and len(args) == 1:
            s, c, t = self.tr(args[0])
            return s, f"(Py.range {c})", ("List", "Int")
        if f == "enumerate" and len(args) == 1:
            s, c, t = self.tr(args[0])
            if isinstance(t, tuple) and t[0] == "Stream":
                return s, f"(Py.Stream.enumerate {c})", ("Stream", ("Prod", "Int", t[1]))
            return s, f"(Py.enumerate {c})", ("List", ("Prod", "Int", self.elem_type(t)))
        if f == "pd.DataFrame.from_dict" and len(args) == 1 and not kw:
            s, c, t = self.tr(args[0], want)            # a DataFrame built from a dict of columns IS that dict (insertion-ordered)
            if isinstance(t, tuple) and t[0] == "Dict":
                return s, c, t
        if f == "zip" and len(args) == 2:
            s1, a, ta = self.tr(args[0]); s2, b, tb = self.tr(args[1])
            return s1 + s2, f"(Py.zip {a} {b})", ("List", ("Prod", self.elem_type(ta), self.elem_type(tb)))
        if f == "zip" and len(args) == 1 and isinstance(args[0], ast.Starred):
            s, c, t = self.tr(args[0].value)          # zip(*topology) with topology : (List a × List b)
            pa, pb = prod_parts(t, 2)
            return s, f"(Py.zip {c}.1 {c}.2)", ("List", ("Prod", self.elem_type(pa), self.elem_type(pb)))
        if f == "dict" and len(args) == 1 and isinstance(args[0], ast.Call) and ast.unparse(args[0].func) == "zip":
            s1, a, ta = self.tr(args[0].args[0]); s2, b, tb = self.tr(args[0].args[1])
            return s1 + s2, f"(Py.Dict.ofZip {a} {b})", ("Dict", self.elem_type(ta), self.elem_type(tb))
        if f == "set" and len(args) == 1:
            s0, c, t = self.tr(args[0])
            if isinstance(t, tuple) and t[0] in ("List", "Set"):
                return s0, f"(Py.Set.ofList {c})", ("Set", t[1])
        if f == "any" and len(args) == 1:
            s0, c, t = self.tr(args[0])
            if t == ("List", "Bool"):
                return s0, f"(Py.any {c})", "Bool"
        if f == "next" and len(args) == 1 and isinstance(args[0], ast.Name):
            t = self.var_type(args[0].id)
            if isinstance(t, tuple) and t[0] == "Iter":
                n = self.bindname()
                nm = lname(args[0].id)
                return [f"Py.bind (Py.next v.{nm}) fun {n} => let v := {{ v with {nm} := {n}.2 }};"], f"{n}.1", t[1]
        if f == "bool" and len(args) == 1:
            s, c, t = self.tr(args[0])
            return s, self.as_bool(c, t), "Bool"
        if f in ("int", "cast") and args:
            return self.tr(args[-1])
        # --- numpy idioms
        if f in ("np.array", "np.asarray") and args:
            return self.tr(args[0], want)
        if f in ("np.full", "np.zeros", "np.ones") and len(args) >= 1:
            # np.full(shape, fill_value=c) / np.zeros(shape[, dtype=…]) / np.ones(shape[, dtype=…]) for a 1-d or 2-d shape
            if f == "np.full":
                fv = kw.get("fill_value", args[1] if len(args) > 1 else None)
                if fv is None or "dtype" in kw:
                    raise Untranslatable(f"{self.spec.lean}: `{ast.unparse(e)}`")
                s2, cval, et = self.tr(fv)
            else:
                s2 = []
                dt = ast.unparse(kw["dtype"]) if "dtype" in kw else (ast.unparse(args[1]) if len(args) > 1 else None)
                one = f == "np.ones"
                if dt is None:
                    # the default dtype is float: the element type is the declared numeric type of the target
                    w = want
                    while isinstance(w, tuple) and w[0] == "List":
                        w = w[1]
                    if w not in self.num:
                        raise Untranslatable(f"{self.spec.lean}: `{ast.unparse(e)}` (a float array) needs a declared numeric element type")
                    cval, et = f"({1 if one else 0} : {w})", w
                elif dt in ("np.int32", "np.int64", "int", "np.int_"):
                    cval, et = f"({1 if one else 0} : Int)", "Int"
                elif dt in ("np.bool_", "bool"):
                    cval, et = ("true" if one else "false"), "Bool"
                else:
                    raise Untranslatable(f"{self.spec.lean}: dtype `{dt}`")
            n = self.bindname()
            if isinstance(args[0], ast.Tuple) and len(args[0].elts) == 2:
                s0, r, tr_ = self.tr(args[0].elts[0]); s1, k, tk = self.tr(args[0].elts[1])
                if tr_ == "Int" and tk == "Int":
                    return s0 + s1 + s2 + [f"Py.bind (Py.full2 {r} {k} {cval}) fun {n} =>"], n, ("List", ("List", et))
            elif not isinstance(args[0], ast.Tuple):
                s0, r, tr_ = self.tr(args[0])
                if tr_ == "Int":
                    return s0 + s2 + [f"Py.bind (Py.full {r} {cval}) fun {n} =>"], n, ("List", et)
        if f == "ma.array" and len(args) == 1 and set(kw) == {"mask"}:
            s0, d, td = self.tr(args[0]); s1, m, tm = self.tr(kw["mask"])
            if isinstance(td, tuple) and td[0] == "List" and isinstance(td[1], tuple) and td[1][0] == "List" and tm == ("List", ("List", "Bool")):
                n = self.bindname()
                return s0 + s1 + [f"Py.bind (Py.maArray {d} {m}) fun {n} =>"], n, ("Masked2", td[1][1])
        if f == "np.unravel_index" and len(args) == 2:
            s0, k, tk = self.tr(args[0]); s1, sh, tsh = self.tr(args[1])
            if tk == "Int" and tsh == ("Prod", "Int", "Int"):
                n = self.bindname()
                return s0 + s1 + [f"Py.bind (Py.unravelIndex {k} {sh}) fun {n} =>"], n, ("Prod", "Int", "Int")
        if f == "np.count_nonzero" and len(args) == 1:
            s, c, t = self.tr(args[0])
            if t == ("List", "Bool"):
                return s, f"(Py.countNonzero {c})", "Int"
        if f == "np.full_like" and len(args) == 1 and "fill_value" in kw:
            s1, a, ta = self.tr(args[0]); s2, b, tb = self.tr(kw["fill_value"])
            return s1 + s2, f"(Py.fullLike {a} {b})", ("List", "Int")
        if f == "np.arange":
            vals = args
            if len(vals) == 2 and isinstance(vals[0], ast.Constant) and vals[0].value == 0:
                vals = vals[1:]
            if len(vals) == 1:
                s, c, t = self.tr(vals[0])
                return s, f"(Py.arange {c})", ("List", "Int")
        if f == "np.where" and len(args) == 3:
            s0, c, tc = self.tr(args[0]); s1, a, ta = self.tr(args[1]); s2, b, tb = self.tr(args[2])
            if tc == ("List", "Bool") and ta in (("List", "Int"), "Int") and tb in (("List", "Int"), "Int") and (ta, tb) != ("Int", "Int"):
                # a scalar operand is broadcast to the length of the condition
                if ta == "Int":
                    a = f"(({c}).map (fun _ => {a}))"
                if tb == "Int":
                    b = f"(({c}).map (fun _ => {b}))"
                return s0 + s1 + s2, f"(Py.where_ {c} {a} {b})", ("List", "Int")
            OI = ("Option", "Int")
            if tc == ("List", "Bool") and ta in (("List", OI), OI) and tb in (("List", OI), OI) and (ta, tb) != (OI, OI):
                # float arrays that may hold `inf`
                if ta == OI:
                    a = f"(({c}).map (fun _ => {a}))"
                if tb == OI:
                    b = f"(({c}).map (fun _ => {b}))"
                return s0 + s1 + s2, f"(Py.whereA {c} {a} {b})", ("List", OI)
        if f == "len" and len(args) == 1 and isinstance(args[0], ast.Call) and ast.unparse(args[0].func) == "np.unique":
            s0, c, t = self.tr(args[0].args[0])
            if t == ("List", "Int"):
                return s0, f"(Py.uniqueCount {c})", "Int"
        if f == "np.setdiff1d" and len(args) == 2 and set(kw) <= {"assume_unique"}:
            au = kw.get("assume_unique")
            if au is not None and not (isinstance(au, ast.Constant) and isinstance(au.value, bool)):
                raise Untranslatable(f"{self.spec.lean}: `{ast.unparse(e)}`: assume_unique must be a literal")
            if au is None or not au.value:      # with assume_unique=True: see the Option-valued `Py.setdiff1dUnique` below
                s1, a, ta = self.tr(args[0]); s2, b, tb = self.tr(args[1])
                if ta == ("List", "Int") and tb == ("List", "Int"):
                    return s1 + s2, f"(Py.setdiff1d {a} {b})", ("List", "Int")
        if f == "np.cumsum" and len(args) == 1:
            s0, c, t = self.tr(args[0])
            if t == ("List", "Int"):
                return s0, f"(Py.cumsum {c})", ("List", "Int")
        if f == "list" and len(args) == 1 and isinstance(args[0], ast.Call) and ast.unparse(args[0].func) == "itertools.chain" \
                and len(args[0].args) == 1 and isinstance(args[0].args[0], ast.Starred):
            s0, c, t = self.tr(args[0].args[0].value)          # list(itertools.chain(*xs))
            if isinstance(t, tuple) and t[0] == "List" and isinstance(t[1], tuple) and t[1][0] == "List":
                return s0, f"(({c}).flatten)", t[1]
        if f == "list" and len(args) == 1:
            return self.tr(args[0], want)
        if f == "np.unique" and len(args) == 1:
            raise Untranslatable("np.unique outside len(...)")
        if f == "np.setdiff1d" and len(args) == 2 and set(kw) == {"assume_unique"} and isinstance(kw["assume_unique"], ast.Constant) \
                and kw["assume_unique"].value is True:
            # numpy: `ar1[~isin(ar1, ar2)]` in the ORDER of ar1 (no sorting, no deduplication); what it returns when ar1 repeats a value depends on
            # the algorithm numpy picks, so the model raises there (the documented precondition; ar2 may repeat values)
            s1, a, ta = self.tr(args[0]); s2, b, tb = self.tr(args[1])
            if ta == ("List", "Int") and tb == ("List", "Int"):
                n = self.bindname()
                return s1 + s2 + [f"Py.bind (Py.setdiff1dUnique {a} {b}) fun {n} =>"], n, ("List", "Int")
        if f == "abs" and len(args) == 1:
            s, c, t = self.tr(args[0])
            if t == "Int":
                return s, f"((Int.natAbs {c} : Nat) : Int)", "Int"
        if f == "np.all" and len(args) == 1:
            s, c, t = self.tr(args[0])
            if t == ("List", "Bool"):
                return s, f"(Py.all {c})", "Bool"
        # --- methods
        if isinstance(e.func, ast.Attribute):
            meth = e.func.attr
            recv = e.func.value
            if meth in ("copy", "to_numpy", "item") and not args:
                return self.tr(recv, want)
            if meth == "argmin" and not args and not kw:
                s, c, t = self.tr(recv)
                if isinstance(t, tuple) and t[0] == "Masked2" and t[1] in self.num:
                    n = self.bindname()
                    return s + [f"Py.bind (Py.maArgmin {c}) fun {n} =>"], n, "Int"
            if meth == "argmin" and not args and not kw:
                s, c, t = self.tr(recv)
                if t == ("List", ("Option", "Int")):
                    n = self.bindname()
                    return s + [f"Py.bind (Py.argminInf {c}) fun {n} =>"], n, "Int"
            if meth == "any" and not args:
                s, c, t = self.tr(recv)
                if t == ("List", "Bool"):
                    return s, f"(Py.any {c})", "Bool"
            if (meth == "iterrows" and not args and isinstance(recv, ast.Subscript) and ast.unparse(recv.value) == "df"
                    and any(k.startswith("df[") for k in self.spec.stores)):
                # `df[mask].iterrows()`: the selected rows of a frame whose columns are variables (default RangeIndex: label = position)
                s, c, t = self.tr(recv.slice)
                if t == ("List", "Bool"):
                    return s, f"(Py.iterrows {c})", ("Iter", ("Prod", "Int", "Int"))
            if meth == "argmax" and not args:
                s, c, t = self.tr(recv)
                if t == ("List", "Bool"):
                    n = self.bindname()
                    return s + [f"Py.bind (Py.argmaxMask {c}) fun {n} =>"], n, "Int"
            if meth == "get" and len(args) == 2:
                s0, d, td = self.tr(recv)
                if isinstance(td, tuple) and td[0] == "Dict":
                    s1, k, _ = self.tr(args[0]); s2, dv, _ = self.tr(args[1], td[2])
                    return s0 + s1 + s2, f"(Py.Dict.getD {d} {k} {dv})", td[2]
            if meth == "items" and not args:
                s0, d, td = self.tr(recv)
                if isinstance(td, tuple) and td[0] in ("Dict", "DDict"):
                    return s0, d, ("List", ("Prod", td[1], td[2]))
            if meth == "pop":
                # stateful: receiver must be a variable
                lv = self.lvalue(recv)
                s0, d, td = self.tr(recv)
                n = self.bindname()
                if isinstance(td, tuple) and td[0] == "List" and not args:
                    return s0 + [f"Py.bind (Py.pop {d}) fun {n} => let v := {lv(f'{n}.1')};"], f"{n}.2", td[1]
                if isinstance(td, tuple) and td[0] == "Dict" and len(args) == 1:
                    s1, k, _ = self.tr(args[0])
                    return s0 + s1 + [f"Py.bind (Py.Dict.pop {d} {k}) fun {n} => let v := {lv(f'{n}.1')};"], f"{n}.2", td[2]
        raise Untranslatable(f"{self.spec.lean}: call `{ast.unparse(e)}`")

    def lvalue(self, e):
        """returns a function new_value_code -> 'record update of v' for assignable expression `e`"""
        if isinstance(e, ast.Name):
            self.var_type(e.id)
            return lambda c: f"{{ v with {lname(e.id)} := {c} }}"
        if isinstance(e, ast.Attribute) and isinstance(e.value, ast.Name):
            o, a = lname(e.value.id), lname(e.attr)
            self.tr(e)
            return lambda c: f"{{ v with {o} := {{ v.{o} with {a} := {c} }} }}"
        raise Untranslatable(f"{self.spec.lean}: assignment target `{ast.unparse(e)}`")

    # ---- statements ----------------------------------------------------------------------
    def chain(self, steps, final):
        """fun v => step1 step2 ... final"""
        body = "\n".join(steps + [final])
        return f"(fun (v : {self.Vt}) =>\n" + textwrap.indent(body, "  ") + ")"

    def block(self, stmts):
        codes = [c for c in (self.stmt(s) for s in stmts) if c is not None]
        if not codes:
            return "Py.skip"
        out = codes[-1]
        for c in reversed(codes[:-1]):
            out = f"(Py.seq {c}\n{out})"
        return out

    def stmt(self, s):
        txt = ast.unparse(s)
        if txt in self.spec.skip_stmts:
            return None
        if txt in self.spec.stmt_subst:
            new = ast.parse(textwrap.dedent(self.spec.stmt_subst[txt])).body
            return self.block(new)
        for h in STMT_HOOKS:
            if id(h) in HOOK_SCOPE and self.spec.module not in HOOK_SCOPE[id(h)]:
                continue
            snap = self.snapshot()
            try:
                r = h(self, s)
            except Untranslatable:
                r = None
            if r is not None:
                return r
            self.restore(snap)
        m = getattr(self, "s_" + type(s).__name__, None)
        if m is None:
            raise Untranslatable(f"{self.spec.lean}: statement `{txt.splitlines()[0]}`")
        return m(s)

    def s_Pass(self, s):
        return None

    def s_Nonlocal(self, s):
        # a closure's `nonlocal` names are captured variables of its translation (its callback state)
        if self.spec.nested and all(n in self.spec.captures for n in s.names):
            return None
        raise Untranslatable(f"{self.spec.lean}: `{ast.unparse(s)}`")

    def s_FunctionDef(self, s):
        if s.name in self.spec.closures:
            return None                      # translated separately; used at the `traverse(...)` call
        raise Untranslatable(f"{self.spec.lean}: nested function `{s.name}` without a translation")

    def s_Expr(self, s):
        e = s.value
        if isinstance(e, ast.Constant) and isinstance(e.value, str):
            return None                                            # docstring
        if isinstance(e, ast.Call) and ast.unparse(e.func) == "warnings.warn" and self.vars.get("warnings_") != ("List", "Exc"):
            # a warning is recorded as the number of its call site (in source order) in the declared variable `warnings_ : List Int`; the text
            # is dropped (a function with tracked exceptions keeps the message instead: `warnings_ : List Exc`, below)
            if self.vars.get("warnings_") != ("List", "Int"):
                raise Untranslatable(f"{self.spec.lean}: `warnings.warn` needs a variable `warnings_ : List Int`")
            k = self.warn_sites.index((e.lineno, e.col_offset))
            return f"(fun (v : {self.Vt}) => .next {{ v with warnings_ := v.warnings_ ++ [({k} : Int)] }})"
        if isinstance(e, ast.Call) and isinstance(e.func, ast.Attribute):
            meth, recv = e.func.attr, e.func.value
            if meth == "append" and len(e.args) == 1:
                # a.append(x)  /  d[k].append(x)
                if isinstance(recv, ast.Subscript) or (isinstance(recv, ast.Attribute) and self.is_ref_expr(recv.value)):
                    tgt = ast.Assign([recv], ast.BinOp(recv, ast.Add(), ast.List([e.args[0]], ast.Load())))
                    return self.s_Assign(tgt)
                s0, a, ta = self.tr(recv)
                s1, x, tx = self.tr(e.args[0], ta[1] if isinstance(ta, tuple) else None)
                if isinstance(ta, tuple) and ta[0] == "List" and tx == ("Option", ta[1]) and ta[1] != tx:
                    # the source appends a variable it has just tested `is not None`: a None here is unreachable, and is an error in the typed model
                    n0 = self.bindname()
                    s1, x = s1 + [f"Py.bind ({x}) fun {n0} =>"], n0
                lv = self.lvalue(recv)
                return self.chain(s0 + s1, ".next " + lv(f"({a} ++ [{x}])"))
            if meth == "extend" and len(e.args) == 1:
                s0, a, ta = self.tr(recv)
                s1, x, _ = self.tr(e.args[0], ta)
                lv = self.lvalue(recv)
                # the receiver is read AFTER the argument was evaluated (the argument may not touch it)
                return self.chain(s1, ".next " + lv(f"(v.{lname(recv.id)} ++ {x})") if isinstance(recv, ast.Name) else None)
            if meth in ("remove", "add") and len(e.args) == 1:
                s0, a, ta = self.tr(recv)
                if isinstance(ta, tuple) and ta[0] == "Set":
                    s1, x, _ = self.tr(e.args[0])
                    lv = self.lvalue(recv)
                    if meth == "add":
                        return self.chain(s0 + s1, ".next " + lv(f"(Py.Set.add {a} {x})"))
                    n = self.bindname()                     # KeyError when the element is absent
                    return self.chain(s0 + s1 + [f"Py.bind (Py.Set.remove {a} {x}) fun {n} =>"], ".next " + lv(n))
            if meth == "reverse" and not e.args:
                s0, a, ta = self.tr(recv)
                if isinstance(ta, tuple) and ta[0] == "List":
                    lv = self.lvalue(recv)
                    return self.chain(s0, ".next " + lv(f"({a}).reverse"))
            if meth == "insert" and len(e.args) == 2 and isinstance(e.args[0], ast.Constant) and e.args[0].value == 0:
                s0, a, ta = self.tr(recv)
                s1, x, _ = self.tr(e.args[1], ta[1] if isinstance(ta, tuple) else None)
                lv = self.lvalue(recv)
                return self.chain(s0 + s1, ".next " + lv(f"({x} :: {a})"))
            if meth == "setdefault" and len(e.args) == 2:
                s0, d, td = self.tr(recv)
                s1, k, _ = self.tr(e.args[0]); s2, dv, _ = self.tr(e.args[1], td[2])
                lv = self.lvalue(recv)
                return self.chain(s0 + s1 + s2, ".next " + lv(f"(Py.Dict.setdefault {d} {k} {dv})"))
        if isinstance(e, ast.Call) and ast.unparse(e.func) == "warnings.warn" and 1 <= len(e.args) <= 2 and self.vars.get("warnings_") == ("List", "Exc"):
            # `warnings.warn(msg[, category])`: appended to the log of warnings `warnings_`
            cat = e.args[1].id if len(e.args) == 2 and isinstance(e.args[1], ast.Name) else ("UserWarning" if len(e.args) == 1 else None)
            if cat is None:
                raise Untranslatable(f"{self.spec.lean}: warning category `{ast.unparse(e)}`")
            steps, exc = self.exc_value(e.args[0], cat)
            return self.chain(steps, f".next {{ v with warnings_ := v.warnings_ ++ [{exc}] }}")
        # any other call evaluated for its effect
        st, c, t = self.tr(e)
        return self.chain(st, ".next v")

    def s_Assign(self, s):
        if len(s.targets) != 1:
            raise Untranslatable("chained assignment")
        tgt = s.targets[0]
        ttxt = ast.unparse(tgt)
        if ttxt in self.spec.stores:
            # a DataFrame column modelled as a variable: `df[names.pid] = e`
            return self.s_Assign(ast.Assign([ast.Name(self.spec.stores[ttxt], ast.Store())], s.value))
        if (isinstance(tgt, ast.Subscript) and ast.unparse(tgt.value) == "df.loc" and isinstance(tgt.slice, ast.Tuple) and len(tgt.slice.elts) == 2
                and f"df[{ast.unparse(tgt.slice.elts[1])}]" in self.spec.stores):
            # `df.loc[row, names.col] = e`  ->  col[row] = e
            col = self.spec.stores[f"df[{ast.unparse(tgt.slice.elts[1])}]"]
            new = ast.Assign([ast.Subscript(ast.Name(col, ast.Load()), tgt.slice.elts[0], ast.Store())], s.value)
            ast.copy_location(new, s); ast.fix_missing_locations(new)
            return self.s_Assign(new)
        if isinstance(tgt, ast.Name):
            want = None if tgt.id in self.versions else (self.vars.get(tgt.id) or self.extra_vars.get(tgt.id))
            st, c, t = self.tr(s.value, want)
            if tgt.id not in self.vars and tgt.id not in self.extra_vars:
                self.vars[tgt.id] = t
            if isinstance(want, tuple) and want[0] == "Option" and t == want[1]:
                c, t = self.coerce(c, t, want), want           # a value stored into a variable that may also hold None
            if want is not None and t == ("Option", want) and t != want:
                # the source copies a variable it has just tested `is not None`: a None here is unreachable, and is an error in the typed model
                n0 = self.bindname()
                st, c, t = st + [f"Py.bind ({c}) fun {n0} =>"], n0, want
            if want is not None and t != want and isinstance(want, tuple) and want[0] == "List" and isinstance(t, tuple) and t[0] == "List":
                c, t = self.coerce(c, t, want), want
            if want in ("PyVal", "PyAtom") and t in ("String", "PyAtom") and t != want:
                c, t = self.coerce(c, t, want), want
            key = self.assign_version(tgt.id, t)
            self.check_type(key, t, s)
            return self.chain(st, f".next {{ v with {lname(key)} := {c} }}")
        if isinstance(tgt, ast.Tuple) and all(isinstance(x, ast.Name) for x in tgt.elts):
            st, c, t = self.tr(s.value)
            if t == "PyVal":
                # unpacking a dynamically typed value: it must be a tuple of exactly that many items
                n = self.bindname()
                ups = []
                for k, x in enumerate(tgt.elts):
                    if x.id not in self.vars:
                        self.vars[x.id] = "PyAtom"
                    self.check_type(x.id, "PyAtom", s)
                    ups.append(f"{lname(x.id)} := {n}.getD {k} default")
                return self.chain(st + [f"Py.bind (Py.Val.unpack {c} {len(tgt.elts)}) fun {n} =>"], f".next {{ v with {', '.join(ups)} }}")
            parts = prod_parts(t, len(tgt.elts))
            n = len(tgt.elts)
            ups = []
            for k, (x, pt) in enumerate(zip(tgt.elts, parts)):
                if x.id not in self.vars:
                    self.vars[x.id] = pt
                self.check_type(x.id, pt, s)
                ups.append(f"{lname(x.id)} := {proj('p', k, n)}")
            return self.chain(st, f"let p := {c}; .next {{ v with {', '.join(ups)} }}")
        if isinstance(tgt, ast.Tuple):
            # `a.x, b.y = e1, e2`: the right-hand side is evaluated completely, then the targets are assigned left to right
            st, c, t = self.tr(s.value)
            parts = prod_parts(t, len(tgt.elts))
            tmps = [self.fresh(pt, "u") for pt in parts]
            n = len(tgt.elts)
            first = self.chain(st, f"let p := {c}; .next {{ v with " + ", ".join(f"{tm} := {proj('p', k, n)}" for k, tm in enumerate(tmps)) + " }")
            codes = [first]
            for x, tm in zip(tgt.elts, tmps):
                asg = ast.Assign([x], ast.Name(tm, ast.Load()))
                ast.copy_location(asg, s); ast.fix_missing_locations(asg)
                codes.append(self.s_Assign(asg))
            out = codes[-1]
            for cc in reversed(codes[:-1]):
                out = f"(Py.seq {cc}\n{out})"
            return out
        if isinstance(tgt, ast.Attribute):
            # `n.pid = e` on a node handle: a write into the owner's column at the node's row (Node.__setitem__)
            try:
                s0, rc, rt = self.tr(tgt.value)
            except Untranslatable:
                rt = None
            if rt is not None and is_node(rt):
                cols = self.spec.tree_cols.get(node_tree(rt), {})
                if tgt.attr not in cols:
                    raise Untranslatable(f"{self.spec.lean}: assignment to node attribute `{ast.unparse(tgt)}`")
                col = lname(cols[tgt.attr])
                # CPython evaluates the right-hand side first, then the target's sub-expressions
                s2, x, tx = self.tr(s.value)
                if tx != "Int" and not is_node(tx):
                    raise Untranslatable(f"{self.spec.lean}: `{ast.unparse(s)}` assigns {tx} to a column")
                s0, rc, rt = self.tr(tgt.value)
                n = self.bindname()
                return self.chain(s2 + s0 + [f"Py.bind (Py.setIdx v.{col} {rc} {x}) fun {n} =>"], f".next {{ v with {col} := {n} }}")
            if isinstance(tgt.value, ast.Subscript) and isinstance(tgt.value.value, ast.Name):
                # `xs[i].f = e` on a list of records: the record at position i is updated in place (right-hand side first, then `xs[i]`)
                L = tgt.value.value
                tl = self.var_type(L.id)
                if isinstance(tl, tuple) and tl[0] == "List" and isinstance(tl[1], str) and tl[1] in STRUCTS and tgt.attr in STRUCTS[tl[1]]:
                    s2, x, tx = self.tr(s.value, parse_type(STRUCTS[tl[1]][tgt.attr]))
                    x = self.coerce(x, tx, parse_type(STRUCTS[tl[1]][tgt.attr]))
                    s1, i, ti = self.tr(tgt.value.slice)
                    if ti != "Int":
                        raise Untranslatable(f"{self.spec.lean}: index of `{ast.unparse(tgt)}`")
                    n1, n2 = self.bindname(), self.bindname()
                    lv = self.lvalue(L)
                    return self.chain(s2 + s1 + [f"Py.bind (Py.idx v.{lname(L.id)} {i}) fun {n1} =>",
                                                 f"Py.bind (Py.setIdx v.{lname(L.id)} {i} {{ {n1} with {lname(tgt.attr)} := {x} }}) fun {n2} =>"],
                                      ".next " + lv(n2))
            if rt is not None and self.is_ref_expr(tgt.value):
                # `o.f = e` on a heap-allocated object: a write through the reference (right-hand side first)
                s2, x, tx = self.tr(s.value)
                s0, rc, rt = self.tr(tgt.value)
                s0, rc, rt = self.deref_opt(s0, rc, rt)
                C = ref_class(rt)
                if tgt.attr not in STRUCTS.get(C, {}):
                    raise Untranslatable(f"{self.spec.lean}: assignment to `{ast.unparse(tgt)}`")
                ft = parse_type(STRUCTS[C][tgt.attr])
                s2, x = self.coerce2(s2, x, tx, ft)
                steps = s2 + s0
                hc, lv = self.heap_of(C)
                o, h = self.bindname(), self.bindname()
                steps += [f"Py.bind (Py.idx {hc} {rc}) fun {o} =>",
                          f"Py.bind (Py.setIdx {hc} {rc} {{ {o} with {lname(tgt.attr)} := {x} }}) fun {h} =>"]
                return self.chain(steps, ".next " + lv(h))
            try:
                _, _, ft = self.tr(tgt)
            except Untranslatable:
                ft = None
            st, c, t = self.tr(s.value, ft)
            if ft is not None and t != ft and isinstance(ft, tuple) and ft[0] == "Option":
                c = self.coerce(c, t, ft)             # a value stored into a field that may also hold None
            lv = self.lvalue(tgt)
            return self.chain(st, ".next " + lv(c))
        if isinstance(tgt, ast.Subscript) and isinstance(tgt.slice, ast.Tuple) and len(tgt.slice.elts) == 2:
            # stores into a 2-d array: `m[i, j] = x`, `m[i, :] = scalar | 1-d array`, `m[:, j] = scalar`
            s0, a, ta = self.tr(tgt.value)
            if not (isinstance(ta, tuple) and ta[0] == "List" and isinstance(ta[1], tuple) and ta[1][0] == "List") or s0:
                raise Untranslatable(f"{self.spec.lean}: assignment `{ast.unparse(s)}` on {ta}")
            et = ta[1][1]
            x0, x1 = tgt.slice.elts
            lv = self.lvalue(tgt.value)
            n = self.bindname()
            s2, x, tx = self.tr(s.value, et)                  # CPython evaluates the right-hand side first, then the target's sub-expressions
            if is_full_slice(x1) and not is_full_slice(x0):
                s1, i, ti = self.tr(x0)
                if ti == "Int" and tx == et:
                    return self.chain(s2 + s1 + [f"Py.bind (Py.setRowConst {self.reread(tgt.value)} {i} {x}) fun {n} =>"], ".next " + lv(n))
                if ti == "Int" and tx == ("List", et):
                    return self.chain(s2 + s1 + [f"Py.bind (Py.setRow {self.reread(tgt.value)} {i} {x}) fun {n} =>"], ".next " + lv(n))
            elif is_full_slice(x0) and not is_full_slice(x1):
                s1, j, tj = self.tr(x1)
                if tj == "Int" and tx == et:
                    return self.chain(s2 + s1 + [f"Py.bind (Py.setColConst {self.reread(tgt.value)} {j} {x}) fun {n} =>"], ".next " + lv(n))
            elif not is_full_slice(x0) and not is_full_slice(x1):
                s1, i, ti = self.tr(x0); s3, j, tj = self.tr(x1)
                if ti == "Int" and tj == "Int" and tx == et:
                    return self.chain(s2 + s1 + s3 + [f"Py.bind (Py.setIdx2 {self.reread(tgt.value)} {i} {j} {x}) fun {n} =>"], ".next " + lv(n))
            raise Untranslatable(f"{self.spec.lean}: assignment `{ast.unparse(s)}`")
        if isinstance(tgt, ast.Subscript):
            s0, a, ta = self.tr(tgt.value)
            s1, i, ti = self.tr(tgt.slice)
            s2, x, tx = self.tr(s.value, ta[1] if ta[0] == "List" else ta[2])
            lv = self.lvalue(tgt.value)
            n = self.bindname()
            if ta[0] == "List" and ti == "Int":
                x = self.coerce(x, tx, ta[1])
                # the container is re-read after the right-hand side was evaluated (it may have been updated by a call)
                return self.chain(s1 + s2 + [f"Py.bind (Py.setIdx {self.reread(tgt.value)} {i} {x}) fun {n} =>"], ".next " + lv(n))
            if ta[0] in ("Dict", "DDict"):
                x = self.coerce(x, tx, ta[2])
                return self.chain(s1 + s2, ".next " + lv(f"(Py.Dict.set {self.reread(tgt.value)} {i} {x})"))
        raise Untranslatable(f"{self.spec.lean}: assignment `{ast.unparse(s)}`")

    def reread(self, e):
        _, c, _ = self.tr(e)
        return c

    def check_type(self, name, t, s):
        d = self.var_type(name)
        if d != t and not (isinstance(t, tuple) and t[0] == "Option" and t[1] == "Unit" and isinstance(d, tuple) and d[0] == "Option"):
            raise Untranslatable(f"{self.spec.lean}: `{name}` declared {d} but assigned {t} in `{ast.unparse(s)}`")

    def s_AugAssign(self, s):
        return self.s_Assign(ast.Assign([s.target], ast.BinOp(s.target, s.op, s.value)))

    def s_AnnAssign(self, s):
        if s.value is None:
            return None
        return self.s_Assign(ast.Assign([s.target], s.value))

    def s_If(self, s):
        if isinstance(s.test, ast.NamedExpr) and isinstance(s.test.target, ast.Name):
            # `if x := e:`  ->  `x = e; if x:`
            asg = ast.Assign([ast.Name(s.test.target.id, ast.Store())], s.test.value)
            new = ast.If(ast.Name(s.test.target.id, ast.Load()), s.body, s.orelse)
            for nd in (asg, new):
                ast.copy_location(nd, s); ast.fix_missing_locations(nd)
            a, b = self.stmt(asg), self.s_If(new)
            return f"(Py.seq {a}\n{b})"
        known = self.static_truth(s.test)
        if known is not None:
            # the test is decided by the signature this definition instantiates: only the branch that runs is translated
            live = s.body if known else s.orelse
            return self.block(live) if live else None
        st, c, t = self.tr(s.test)
        cur0 = dict(self.cur)
        a = self.block(s.body)
        cur1, self.cur = self.cur, dict(cur0)
        b = self.block(s.orelse) if s.orelse else "Py.skip"
        self.cur = {n: (k if cur1[n] == k else None) for n, k in self.cur.items()}     # after the merge: only what both branches agree on
        return self.chain(st, f"if {self.as_bool(c, t)} then {a} v else {b} v")

    def static_truth(self, test):
        """truthiness of an optional parameter that this instantiation passes (a callback: a function object is truthy) or leaves out (None)"""
        neg = False
        while isinstance(test, ast.UnaryOp) and isinstance(test.op, ast.Not):
            test, neg = test.operand, not neg
        val = None
        if isinstance(test, ast.Name) and test.id not in self.vars:
            if test.id in self.spec.callbacks:
                val = True
            elif test.id in self.spec.absent:
                val = False
        elif (isinstance(test, ast.Compare) and len(test.ops) == 1 and isinstance(test.left, ast.Name) and test.left.id not in self.vars
              and isinstance(test.comparators[0], ast.Constant) and test.comparators[0].value is None
              and isinstance(test.ops[0], (ast.Is, ast.IsNot))):
            if test.left.id in self.spec.callbacks:
                val = isinstance(test.ops[0], ast.IsNot)
            elif test.left.id in self.spec.absent:
                val = isinstance(test.ops[0], ast.Is)
        return None if val is None else (val != neg)

    def match_cond(self, p, m, t):
        """the test of a value pattern (a constant, a member of an `Enum` of the source file) or of `P | Q`, against the subject `m : t`"""
        if isinstance(p, ast.MatchOr):
            return "(" + " || ".join(self.match_cond(q, m, t) for q in p.patterns) + ")"
        if isinstance(p, ast.MatchValue) and (isinstance(p.value, ast.Constant) or ast.unparse(p.value) in self.enums):
            _, cc, tc = self.tr(p.value)
            if t in ("PyVal", "PyAtom") and tc == "String":
                return f"(Py.{t[2:]}.eqStr {m} {cc})"          # a dynamically typed subject against a str constant
            if tc != t or t not in ("Int", "String", "Bool"):
                raise Untranslatable(f"{self.spec.lean}: `case {ast.unparse(p)}` against a subject of type {t}")
            return f"(decide ({m} = {cc}))"
        raise Untranslatable(f"{self.spec.lean}: pattern `case {ast.unparse(p)}`")

    def s_Match(self, s):
        """`match e:` with value patterns (constants, `Enum` members), `|` alternatives and a final wildcard: the first case whose value
        equals the subject (`==`); no case matching = nothing happens"""
        st, c, t = self.tr(s.subject)
        m = self.bindname()
        code = "Py.skip v"
        for k, case in reversed(list(enumerate(s.cases))):
            if case.guard is not None:
                raise Untranslatable(f"{self.spec.lean}: guarded `case`")
            body = self.block(case.body)
            p = case.pattern
            if isinstance(p, ast.MatchAs) and p.pattern is None and p.name is None:
                if k != len(s.cases) - 1:
                    raise Untranslatable("wildcard before the last case")
                code = f"{body} v"
            else:
                code = f"if {self.match_cond(p, m, t)} then {body} v else {code}"
        return self.chain(st + [f"let {m} := {c};"], code)

    def s_Return(self, s):
        if s.value is None:
            return f"(fun (v : {self.Vt}) => .ret v {'(.ok default)' if self.spec.raises else 'default'})"
        rt = parse_type(self.spec.ret)
        st, c, t = self.tr(s.value, rt)
        if rt == "Frac" and t == "Int":
            c, t = self.coerce(c, t, rt), rt
        if t == ("Option", rt) and t != rt:
            # the source returns a variable it has just tested `is not None`: a None here is unreachable, and is an error in the typed model
            n0 = self.bindname()
            st, c, t = st + [f"Py.bind ({c}) fun {n0} =>"], n0, rt
        if t != rt and self.spec.raises:
            raise Untranslatable(f"{self.spec.lean}: returns {t}, declared {rt}")
        return self.chain(st, f".ret v (.ok {c})" if self.spec.raises else f".ret v {c}")

    def s_Continue(self, s):
        return f"(fun (v : {self.Vt}) => .cont v)"

    def s_Break(self, s):
        return f"(fun (v : {self.Vt}) => .brk v)"

    def s_Raise(self, s):
        if not self.spec.raises:
            return f"(fun (v : {self.Vt}) => .err)"            # untracked: some exception
        # `raise K(f"…")` / `raise K` (`from cause` only sets `__cause__`): a tracked exception
        if s.exc is None:
            raise Untranslatable(f"{self.spec.lean}: bare `raise`")
        steps, exc = self.exc_value(s.exc, None)
        return self.chain(steps, f"Py.raise {exc} v")

    def exc_value(self, e, default_kind):
        """`K(msg)` / `K` / `msg` (with a default class) -> (steps, lean term of type Py.Exc)"""
        if isinstance(e, ast.Name) and default_kind is None:
            return [], f'(⟨"{e.id}", "", []⟩ : Py.Exc)'
        if isinstance(e, ast.Call) and isinstance(e.func, ast.Name) and len(e.args) <= 1 and not e.keywords and default_kind is None:
            kind, msg = e.func.id, (e.args[0] if e.args else ast.Constant(""))
        elif default_kind is not None:
            kind, msg = default_kind, e
        else:
            raise Untranslatable(f"{self.spec.lean}: exception `{ast.unparse(e)}`")
        steps, args, tmpl = [], [], ""
        if isinstance(msg, ast.Constant) and isinstance(msg.value, str):
            tmpl = msg.value
        elif isinstance(msg, ast.JoinedStr):
            # the message template keeps every placeholder as source text; the integer placeholders that can be translated are the arguments
            for part in msg.values:
                if isinstance(part, ast.Constant):
                    tmpl += str(part.value)
                else:
                    tmpl += "{" + ast.unparse(part.value) + "}"
                    try:
                        s0, c, t = self.tr(part.value)
                    except Untranslatable:
                        continue
                    if t == "Int":
                        steps += s0; args.append(c)
        else:
            raise Untranslatable(f"{self.spec.lean}: exception message `{ast.unparse(msg)}`")
        return steps, f'(⟨"{kind}", {lean_string(tmpl)}, [{", ".join(args)}]⟩ : Py.Exc)'

    def s_Try(self, s):
        """`try: body` / `except K as e: handler` (one handler naming one class)"""
        if not self.spec.raises:
            raise Untranslatable(f"{self.spec.lean}: try/except in a function without tracked exceptions")
        if s.orelse or s.finalbody or len(s.handlers) != 1 or not isinstance(s.handlers[0].type, ast.Name):
            raise Untranslatable(f"{self.spec.lean}: try statement `{ast.unparse(s).splitlines()[0]}` …")
        h = s.handlers[0]
        touched = self.assigned_versions(s.body)
        body = self.block(s.body)
        for n in touched | self.assigned_versions(h.body):
            self.cur[n] = None
        if h.name:
            if h.name not in self.vars:
                self.vars[h.name] = "Exc"
            self.check_type(h.name, "Exc", s)
        hb = self.block(h.body)
        for n in self.assigned_versions(h.body):
            self.cur[n] = None
        bind = f"{{ v with {lname(h.name)} := e_ }}" if h.name else "v"
        handler = f"fun (e_ : Py.Exc) (v : {self.Vt}) => {hb} {bind}"
        if self.hoist:
            self.nloop += 1
            nm = f"{self.spec.lean}.try{self.nloop}"
            rt = self.ret_t()
            self.aux.append((nm + "_body", f"{self.Vt} → Py.Res {self.Vt} {rt}", body))
            self.aux.append((nm + "_handler", f"Py.Exc → {self.Vt} → Py.Res {self.Vt} {rt}", handler))
            return f'(Py.tryExcept ({nm}_body {self.args_for(body)}) "{h.type.id}" ({nm}_handler {self.args_for(handler)}))'
        return f'(Py.tryExcept {body} "{h.type.id}" ({handler}))'

    def s_With(self, s):
        """`with X as f: body`: `f = X.__enter__()`; run the body; call the TRANSLATED `__exit__` of X's class (with the exception the body
        raised, or None); the exception propagates unless `__exit__` returned a true value"""
        if not self.spec.raises:
            raise Untranslatable(f"{self.spec.lean}: `with` in a function without tracked exceptions")
        if len(s.items) != 1:
            raise Untranslatable(f"{self.spec.lean}: `with` with several items")
        it = s.items[0]
        s0, mc, mt = self.tr(it.context_expr)
        if not (isinstance(mt, str) and mt in STRUCTS and f"__exit__#{mt}" in self.table):
            raise Untranslatable(f"{self.spec.lean}: context manager `{ast.unparse(it.context_expr)}` : {mt} has no translated __exit__")
        codes = []
        m = re.fullmatch(r"v\.(\w+)", mc)
        if m and not s0:
            slot = m.group(1)                       # the manager is a variable: it is updated in place
        else:
            slot = self.fresh(mt, "mgr")
            codes.append(self.chain(s0, f".next {{ v with {slot} := {mc} }}"))
        # f = X.__enter__()
        enter = ast.Call(ast.Attribute(it.context_expr, "__enter__", ast.Load()), [], [])
        if f"__enter__#{mt}" in self.table:
            raise Untranslatable(f"{self.spec.lean}: translated __enter__ not supported yet")
        if ast.unparse(enter) not in self.spec.subst:
            raise Untranslatable(f"{self.spec.lean}: the value of `{ast.unparse(enter)}` is not given")
        if it.optional_vars is not None:
            asg = ast.Assign([it.optional_vars], enter)
            ast.copy_location(asg, s); ast.fix_missing_locations(asg)
            codes.append(self.s_Assign(asg))
        callee = self.table[f"__exit__#{mt}"]
        if len(callee.params) != 4 or callee.fuel or callee.callbacks:
            raise Untranslatable(f"{self.spec.lean}: signature of {callee.lean}")
        rty = parse_type(callee.ret)
        if callee.out == ["self"]:
            upd, rv = f"{{ v with {slot} := r.1 }}", "r.2"
        elif not callee.out:
            upd, rv = "v", "r"
        else:
            raise Untranslatable(f"{self.spec.lean}: out-parameters of {callee.lean}")
        truth = "false" if rty == "Unit" else self.as_bool(rv, rty)           # no `return` = None = false
        exit_ = f"fun (v : {self.Vt}) (e : Option Py.Exc) => ({callee.lean} v.{slot} e e e).map fun r => ({upd}, {truth})"
        touched = self.assigned_versions(s.body)
        body = self.block(s.body)
        for n in touched:
            self.cur[n] = None
        if self.hoist:
            self.nloop += 1
            nm = f"{self.spec.lean}.with{self.nloop}"
            self.aux.append((nm + "_exit", f"{self.Vt} → Option Py.Exc → Option ({self.Vt} × Bool)", exit_))
            self.aux.append((nm + "_body", f"{self.Vt} → Py.Res {self.Vt} {self.ret_t()}", body))
            codes.append(f"(Py.withExit ({nm}_exit {self.args_for(exit_)}) ({nm}_body {self.args_for(body)}))")
        else:
            codes.append(f"(Py.withExit ({exit_}) {body})")
        out = codes[-1]
        for c in reversed(codes[:-1]):
            out = f"(Py.seq {c}\n{out})"
        return out

    def s_Assert(self, s):
        st, c, t = self.tr(s.test)
        return self.chain(st, f"if {self.as_bool(c, t)} then .next v else .err")

    def s_For(self, s):
        if s.orelse:
            raise Untranslatable("for-else")
        live = self.live_iteration(s)
        if live is not None:
            return live
        alias = self.alias_iteration(s)
        if alias is not None:
            return alias
        return self.s_For_plain(s)

    def alias_iteration(self, s):
        """`for x in A` / `for i, x in enumerate(A)` over a list of RECORDS (mutable objects) whose body assigns `x.f = ...`: the loop
        variable is an alias of the list element, so the write is a write into the list.  Lowered to an index loop that reads `A[i]` into
        `x`, runs the body and writes `x` back to `A[i]`.  Sound because the body neither mentions `A` nor rebinds `x` nor leaves the
        iteration early (checked below), so between the read and the write-back `x` is the only path to the element."""
        it = s.iter
        enum = isinstance(it, ast.Call) and ast.unparse(it.func) == "enumerate" and len(it.args) == 1
        arr = it.args[0] if enum else it
        if not isinstance(arr, ast.Name) or arr.id not in self.vars:
            return None
        tl = self.vars[arr.id]
        if not (isinstance(tl, tuple) and tl[0] == "List" and isinstance(tl[1], str) and tl[1] in STRUCTS):
            return None
        if enum:
            if not (isinstance(s.target, ast.Tuple) and len(s.target.elts) == 2 and all(isinstance(x, ast.Name) for x in s.target.elts)):
                raise Untranslatable("enumerate target")
            ivar, xvar = s.target.elts[0].id, s.target.elts[1].id
        else:
            if not isinstance(s.target, ast.Name):
                return None
            ivar, xvar = None, s.target.id
        nodes = [n for b in s.body for n in ast.walk(b)]
        writes = any(isinstance(n, ast.Attribute) and isinstance(n.ctx, ast.Store) and isinstance(n.value, ast.Name) and n.value.id == xvar
                     for n in nodes)
        if not writes:
            return None
        if any(isinstance(n, ast.Name) and n.id == arr.id for n in nodes):
            raise Untranslatable(f"{self.spec.lean}: the loop body mentions `{arr.id}` while updating its elements through `{xvar}`")
        if any(isinstance(n, ast.Name) and isinstance(n.ctx, ast.Store) and n.id in (xvar, ivar) for n in nodes):
            raise Untranslatable(f"{self.spec.lean}: the loop body rebinds `{xvar}`")
        if any(isinstance(n, (ast.Break, ast.Continue, ast.Return, ast.FunctionDef, ast.Lambda)) for n in nodes):
            raise Untranslatable(f"{self.spec.lean}: early exit from a loop that updates the elements of `{arr.id}` in place")
        if ivar is None:
            ivar = self.fresh("Int", "k")
        read = ast.parse(f"{xvar} = {arr.id}[{ivar}]").body[0]
        back = ast.parse(f"{arr.id}[{ivar}] = {xvar}").body[0]
        loop = ast.For(ast.Name(ivar, ast.Store()), ast.parse(f"range(len({arr.id}))").body[0].value, [read] + list(s.body) + [back], [], None)
        for nd in ast.walk(loop):
            if not hasattr(nd, "lineno"):
                nd.lineno = nd.col_offset = nd.end_lineno = nd.end_col_offset = 0
        if ivar not in self.vars and ivar not in self.extra_vars:
            self.vars[ivar] = "Int"
        if xvar not in self.vars:
            self.vars[xvar] = tl[1]
        return self.s_For_plain(loop)

    def s_For_plain(self, s):
        st, it, tit = self.tr(s.iter)
        et = self.elem_type(tit)
        self.bind_target_types(s.target, et)
        touched = self.assigned_versions(s.body)
        for n in touched:                    # a later iteration sees what an earlier one left
            self.cur[n] = None
        body = self.block(s.body)
        for n in touched:
            self.cur[n] = None
        stream = isinstance(tit, tuple) and tit[0] == "Stream"
        if stream and not self.spec.raises:
            raise Untranslatable(f"{self.spec.lean}: iteration over a stream in a function without tracked exceptions")
        loop = (lambda b: f"Py.forEachS ({b}) ({it}).items ({it}).fail {v0}") if stream else (lambda b: f"Py.forEach ({b}) {it} {v0}")
        if isinstance(s.target, ast.Name):
            upd = f"{{ v with {lname(s.target.id)} := {self.coerce('x', et, self.var_type(s.target.id))} }}"
        else:
            n = len(s.target.elts)
            pts = prod_parts(et, n)
            upd = "{ v with " + ", ".join(f"{lname(x.id)} := {self.coerce(proj('x', k, n), pts[k], self.var_type(x.id))}"
                                          for k, x in enumerate(s.target.elts)) + " }"
        v0 = "v"
        if isinstance(tit, tuple) and tit[0] == "Iter":
            # the loop takes the remaining items of the iterator: afterwards (and inside the body) the iterator is exhausted
            if not isinstance(s.iter, ast.Name):
                raise Untranslatable(f"{self.spec.lean}: `for` over the iterator expression `{ast.unparse(s.iter)}`")
            if any(isinstance(n, ast.Break) or (isinstance(n, ast.Name) and n.id == s.iter.id) for b in s.body for n in ast.walk(b)):
                raise Untranslatable(f"{self.spec.lean}: the body of `for … in {s.iter.id}` breaks or uses the iterator")
            v0 = f"{{ v with {lname(s.iter.id)} := [] }}"
        if self.hoist:
            self.nloop += 1
            nm = f"{self.spec.lean}.for{self.nloop}"
            code = f"fun x (v : {self.Vt}) => {body} {upd}"
            self.aux.append((nm, f"{show_type(et)} → {self.Vt} → Py.Res {self.Vt} {self.ret_t()}", code))
            return self.chain(st, loop(f"{nm} {self.args_for(code)}"))
        return self.chain(st, loop(f"fun x (v : {self.Vt}) => {body} {upd}"))

    def live_iteration(self, s):
        """`for x in A` / `for i, x in enumerate(A)` whose body stores into `A[...]`: Python reads the elements of `A` LIVE, one per
        iteration; a snapshot of `A` at loop entry would be wrong.  Lowered to an index loop that reads `A[i]` at the start of every
        iteration (the length is fixed at entry: arrays cannot grow, and `append` on the iterated list is rejected)."""
        it = s.iter
        enum = isinstance(it, ast.Call) and ast.unparse(it.func) == "enumerate" and len(it.args) == 1
        arr = it.args[0] if enum else it
        if not isinstance(arr, ast.Name):
            return None
        name = arr.id
        stores = any(isinstance(n, ast.Subscript) and isinstance(n.ctx, ast.Store) and isinstance(n.value, ast.Name) and n.value.id == name
                     for b in s.body for n in ast.walk(b))
        grows = any(isinstance(n, ast.Call) and isinstance(n.func, ast.Attribute) and n.func.attr in ("append", "extend", "pop", "insert")
                    and isinstance(n.func.value, ast.Name) and n.func.value.id == name for b in s.body for n in ast.walk(b))
        rebinds = any(isinstance(n, ast.Name) and isinstance(n.ctx, ast.Store) and n.id == name for b in s.body for n in ast.walk(b))
        if grows or rebinds:
            raise Untranslatable(f"{self.spec.lean}: the loop body resizes / rebinds `{name}` while iterating over it")
        if not stores:
            return None
        if enum:
            if not (isinstance(s.target, ast.Tuple) and len(s.target.elts) == 2 and all(isinstance(x, ast.Name) for x in s.target.elts)):
                raise Untranslatable("enumerate target")
            ivar, xvar = s.target.elts[0].id, s.target.elts[1].id
        else:
            if not isinstance(s.target, ast.Name):
                raise Untranslatable("loop target")
            ivar, xvar = self.fresh("Int", "k"), s.target.id
        read = ast.parse(f"{xvar} = {name}[{ivar}]").body[0]
        loop = ast.For(ast.Name(ivar, ast.Store()), ast.parse(f"range(len({name}))").body[0].value, [read] + list(s.body), [], None)
        for nd in ast.walk(loop):
            if not hasattr(nd, "lineno"):
                nd.lineno = nd.col_offset = nd.end_lineno = nd.end_col_offset = 0
        if ivar not in self.vars and ivar not in self.extra_vars:
            self.vars[ivar] = "Int"
        return self.s_For_plain(loop)

    def args_for(self, code):
        """arguments of a hoisted definition: the callbacks, and the fuel only if the code uses it (nested `while`, calls)"""
        uses_fuel = self.spec.fuel and re.search(r"\bfuel\b", code) is not None
        return (self.bargs_nofuel + (" fuel" if uses_fuel else "")).strip()

    def binders_for(self, code):
        uses_fuel = self.spec.fuel and re.search(r"\bfuel\b", code) is not None
        return (self.binders_nofuel + (" (fuel : Nat)" if uses_fuel else "")).strip()

    def lower_walrus_test(self, t0):
        """statements that `break` out of the enclosing `while True:` exactly when the loop test `t0` is false, performing its
        assignment expressions in evaluation order"""
        if not any(isinstance(n, ast.NamedExpr) for n in ast.walk(t0)):
            return [ast.If(ast.UnaryOp(ast.Not(), t0), [ast.Break()], [])]
        if isinstance(t0, ast.BoolOp) and isinstance(t0.op, ast.And):
            return [st for x in t0.values for st in self.lower_walrus_test(x)]
        if not (isinstance(t0, ast.Compare) and isinstance(t0.left, ast.NamedExpr) and isinstance(t0.left.target, ast.Name)
                and not any(isinstance(n, ast.NamedExpr) for n in ast.walk(t0.left.value))
                and not any(isinstance(n, ast.NamedExpr) for c0 in t0.comparators for n in ast.walk(c0))):
            raise Untranslatable(f"{self.spec.lean}: walrus in `while {ast.unparse(t0)}`")
        asg = ast.Assign([ast.Name(t0.left.target.id, ast.Store())], t0.left.value)
        test2 = ast.Compare(ast.Name(t0.left.target.id, ast.Load()), t0.ops, t0.comparators)
        return [asg, ast.If(ast.UnaryOp(ast.Not(), test2), [ast.Break()], [])]

    def s_While(self, s):
        if s.orelse:
            raise Untranslatable("while-else")
        if not self.spec.fuel:
            raise Untranslatable(f"{self.spec.lean}: while loop in a function without fuel")
        if any(isinstance(n, ast.NamedExpr) for n in ast.walk(s.test)):
            # `while (x := e) is not None: body`  ->  `while True: x = e; if not (x is not None): break; body`
            # (sound when the walrus is the first thing the conjunct evaluates: a comparison whose left operand it is);
            # `while A and B: body`  ->  `while True: if not A: break; if not B: break; body`  (short-circuit `and`, left to right)
            new = ast.While(ast.Constant(True), self.lower_walrus_test(s.test) + list(s.body), [])
            for nd in ast.walk(new):
                if not hasattr(nd, "lineno"):
                    nd.lineno = nd.col_offset = nd.end_lineno = nd.end_col_offset = 0
            return self.s_While(new)
        touched = self.assigned_versions(s.body) | self.assigned_versions([ast.Expr(s.test)])
        for n in touched:
            self.cur[n] = None
        st, c, t = self.tr(s.test)
        cond = self.opt_block(st, self.as_bool(c, t))
        body = self.block(s.body)
        for n in touched:
            self.cur[n] = None
        if self.hoist:
            self.nloop += 1
            nm = f"{self.spec.lean}.while{self.nloop}"
            rt = self.ret_t()
            ccode = f"fun (v : {self.Vt}) => {cond}"
            self.aux.append((nm + "_cond", f"{self.Vt} → Option Bool", ccode))
            self.aux.append((nm + "_body", f"{self.Vt} → Py.Res {self.Vt} {rt}", body))
            return f"(Py.whileF ({nm}_cond {self.args_for(ccode)}) ({nm}_body {self.args_for(body)}) fuel)"
        return f"(Py.whileF (fun (v : {self.Vt}) => {cond}) {body} fuel)"

    # ---- whole function ------------------------------------------------------------------
    def translate(self, fdef: ast.FunctionDef) -> str:
        sp = self.spec
        if sp.nested:
            return self.translate_nested(fdef)
        for pn, dv in sp.defaults.items():
            a = fdef.args
            pos = dict(zip([x.arg for x in a.args][len(a.args) - len(a.defaults):], a.defaults))
            pos.update({x.arg: d for x, d in zip(a.kwonlyargs, a.kw_defaults) if d is not None})
            if pn not in pos or ast.unparse(pos[pn]) != dv:
                raise Untranslatable(f"{sp.lean}: the default of `{pn}` is `{ast.unparse(pos[pn]) if pn in pos else None}`, the spec says `{dv}`")
        self.warn_sites = sorted((n.lineno, n.col_offset) for n in ast.walk(fdef)
                                 if isinstance(n, ast.Call) and ast.unparse(n.func) == "warnings.warn")
        # (a bare-name call `f(...)` inside a METHOD `f` is the module-level function of that name, not the method: no recursion)
        self.hoist = not (sp.rec_group or sp.fuel and (f"self.{sp.func}(" in ast.unparse(fdef) or (sp.cls is None and any(
            isinstance(n, ast.Call) and ast.unparse(n.func) == sp.func for n in ast.walk(fdef)))))
        stmts = fdef.body
        if sp.seg_from is not None or sp.seg_to is not None:
            # a segment of the body: the statements before it compute the parameters, the statements after it consume the `out` variables
            a = [k for k, st in enumerate(stmts) if ast.unparse(st) == sp.seg_from]
            b = [k for k, st in enumerate(stmts) if ast.unparse(st).splitlines()[0] == sp.seg_to]
            if len(a) != 1 or len(b) != 1 or a[0] > b[0]:
                raise Untranslatable(f"{sp.lean}: segment `{sp.seg_from}` … `{sp.seg_to}` not found exactly once in `{sp.func}`")
            stmts = stmts[a[0]:b[0] + 1]
        body = self.block(stmts)
        allvars = dict(self.vars)
        allvars.update(self.extra_vars)
        fields = "\n".join(f"  {lname(k)} : {show_type(t)}" for k, t in allvars.items())
        cb_state = ""
        if sp.callbacks:
            fields += "\n  cbs : σ"
        tps = " ".join(f"({t} : Type)" for t in self.all_tparams)
        tpsi = tparam_binders(sp)
        tapp = (" " + " ".join(self.all_tparams)) if self.all_tparams else ""
        cbb = self.cbb
        params = " ".join(f"({lname(p)} : {show_type(self.vars[p])})" for p in sp.params)
        if sp.callbacks:
            params += " (cbs : σ)"
        init = ", ".join(f"{lname(p)} := {lname(p)}" for p in sp.params)
        if sp.callbacks:
            init += ", cbs := cbs"
        ret_t = self.ret_t()
        outs = list(sp.out) + (["cbs"] if sp.callbacks else [])
        if outs:
            out_t = "(" + " × ".join([show_type(self.vars[o]) if o != "cbs" else "σ" for o in outs] + [ret_t]) + ")"
            out_c = "(" + ", ".join([f"r.1.{lname(o)}" for o in outs] + ["r.2"]) + ")"
        else:
            out_t, out_c = ret_t, "r.2"
        fuel = "(fuel : Nat) " if sp.fuel else ""
        dflt = "default"
        doc = (sp.doc or f"`{sp.file}::{(sp.cls + '.') if sp.cls else ''}{sp.func}`")
        rec = sp.rec_group or sp.fuel and (f"self.{sp.func}(" in ast.unparse(fdef) or (sp.cls is None and any(
            isinstance(n, ast.Call) and ast.unparse(n.func) == sp.func for n in ast.walk(fdef))))
        if sp.rec_group and not sp.fuel:
            raise Untranslatable(f"{sp.lean}: a member of a recursion group needs fuel")
        lines = [f"/-- variables of {doc} -/",
                 f"structure {sp.lean}.V {tps} where".replace("  ", " ").rstrip() if not self.all_tparams else f"structure {sp.lean}.V {tps} where",
                 fields]
        inhb = " ".join(f"{{{t} : Type}} [Inhabited {t}]" for t in self.all_tparams)
        lines.append(f"instance {sp.lean}.instV {inhb} : Inhabited ({sp.lean}.V{tapp}) := ⟨{{ " + ", ".join(
            f"{lname(k)} := default" for k in list(allvars) + (["cbs"] if sp.callbacks else [])) + " }⟩")
        Vt = f"({sp.lean}.V{tapp})" if self.all_tparams else f"{sp.lean}.V"
        if rec:
            # recursion: structural on the fuel
            if sp.rec_group:
                lines.append(MUTUAL_SPLIT)          # the members' definitions go into one `mutual` block (regenerate)
            lines.append(f"/-- body of {doc} (one level; `fuel` bounds the recursion depth and the loops) -/")
            lines.append(f"def {sp.lean} {tpsi} {cbb} : Nat → " + " → ".join(
                [show_type(self.vars[p]) for p in sp.params] + (["σ"] if sp.callbacks else [])) + f" → Option {out_t}")
            lines.append("  | 0" + ", _" * (len(sp.params) + (1 if sp.callbacks else 0)) + " => none")
            pl = ", ".join([lname(p) for p in sp.params] + (["cbs"] if sp.callbacks else []))
            lines.append(f"  | fuel + 1, {pl} =>")
            lines.append(f"    let body : {Vt} → Py.Res {Vt} {ret_t} :=\n" + textwrap.indent(body, "      "))
            lines.append(f"    (Py.finish {dflt} (body {{ (default : {Vt}) with {init} }})).map fun r => {out_c}")
        else:
            for nm, ty, code in self.aux:
                lines.append(f"def {nm} {self.binders_for(code)} : {ty} :=\n" + textwrap.indent(code, "  "))
            lines.append(f"/-- body of {doc} -/")
            lines.append(f"def {sp.lean}.body {tpsi} {cbb} {fuel}: {Vt} → Py.Res {Vt} {ret_t} :=\n" + textwrap.indent(body, "  "))
            lines.append(f"/-- {doc} -/")
            lines.append(f"def {sp.lean} {tpsi} {cbb} {fuel}{params} : Option {out_t} :=")
            fa = "fuel " if sp.fuel else ""
            cba = self.bargs_nofuel
            fin = "Py.finishX" if sp.raises else "Py.finish"
            lines.append(f"  ({fin} {dflt} ({sp.lean}.body {cba} {fa}{{ (default : {Vt}) with {init} }})).map fun r => {out_c}")
        return "\n".join(lines) + "\n"



    def translate_nested(self, outer: ast.FunctionDef) -> str:
        """a closure: `def F(a, b)` capturing `caps`  ->  `F (s : S) (a) (b) : Option (S × R)` with S the tuple of captured variables
        (followed by the state `σ` of the enclosing function's callbacks when the closure calls them)"""
        sp = self.spec
        fdef = find_nested(outer, sp.nested)
        pnames = [a.arg for a in fdef.args.args]
        if len(pnames) != len(sp.params):
            raise Untranslatable(f"{sp.lean}: closure takes {pnames}, the spec says {sp.params}")
        # the closure's own parameter names are renamed to the spec's (a lambda's `_` etc.)
        ren = {a: b for a, b in zip(pnames, sp.params) if a != b}
        if ren:
            for nd in ast.walk(fdef):
                if isinstance(nd, ast.Name) and nd.id in ren:
                    nd.id = ren[nd.id]
        self.hoist = True
        body = self.block(fdef.body)
        allvars = dict(self.vars)
        allvars.update(self.extra_vars)
        fields = "\n".join(f"  {lname(k)} : {show_type(t)}" for k, t in allvars.items())
        if sp.callbacks:
            fields += "\n  cbs : σ"
        caps = sp.captures
        cap_t = [show_type(self.vars[c]) for c in caps] + (["σ"] if sp.callbacks else [])
        cap_n = [lname(c) for c in caps] + (["cbs"] if sp.callbacks else [])
        S = "Unit" if not cap_t else "(" + " × ".join(cap_t) + ")"
        ret_t = show_type(parse_type(sp.ret))
        doc = sp.doc or f"`{sp.file}::{sp.func}`, nested `{sp.nested}`"
        # (numeric type parameters and pure function parameters of a closure are binders like those of a top-level function)
        tps = " ".join(f"({t} : Type)" for t in self.all_tparams)
        tpsi = tparam_binders(sp)
        tapp = (" " + " ".join(self.all_tparams)) if self.all_tparams else ""
        cbb = self.cbb
        Vt = self.Vt
        sig = " ".join(x for x in (tpsi, cbb) if x)
        sig = (" " + sig) if sig else ""
        allnames = [lname(k) for k in allvars] + (["cbs"] if sp.callbacks else [])
        lines = [f"/-- variables of {doc} -/", f"structure {sp.lean}.V{(' ' + tps) if tps else ''} where", fields,
                 f"instance {sp.lean}.instV{(' ' + tpsi) if tpsi else ''} : Inhabited {Vt} := ⟨{{ " + ", ".join(f"{k} := default" for k in allnames) + " }⟩"]
        for nm, ty, code in self.aux:
            b = self.binders_for(code)
            lines.append(f"def {nm}{(' ' + b) if b else ''} : {ty} :=\n" + textwrap.indent(code, "  "))
        if sp.fuel:
            sig, cba_f = sig + " (fuel : Nat)", " fuel"
        else:
            cba_f = ""
        lines.append(f"def {sp.lean}.body{sig} : {Vt} → Py.Res {Vt} {ret_t} :=\n" + textwrap.indent(body, "  "))
        params = " ".join(f"({lname(p)} : {show_type(self.vars[p])})" for p in sp.params)
        init = ", ".join([f"{lname(p)} := {lname(p)}" for p in sp.params] + [f"{c} := {proj('s', k, len(cap_n))}" for k, c in enumerate(cap_n)])
        out_s = "()" if not cap_n else "(" + ", ".join(f"r.1.{c}" for c in cap_n) + ")"
        cba = (" " + self.bargs_nofuel) if self.bargs_nofuel else ""
        lines.append(f"/-- {doc}: the closure as a state-passing function over its captured variables (`none` = it raised) -/")
        lines.append(f"def {sp.lean}{sig} (s : {S}) {params} : Option ({S} × {ret_t}) :=")
        lines.append(f"  (Py.finish default ({sp.lean}.body{cba}{cba_f} {{ (default : {Vt}) with {init} }})).map fun r => ({out_s}, r.2)")
        return "\n".join(lines) + "\n"

MUTUAL_SPLIT = "--MUTUAL-SPLIT--"
STRUCT_CTORS = {}
HEAP_CTORS = {}         # python constructor text -> {"cls": heap class, "fields": positional fields, "ignore": dropped keywords, "fixed": {field: python text}}
REF_METHODS = {}        # (heap class, method name) -> lean name of its translation (params: heap, self, ...; out: the heap)
NODE_METHODS = {}       # method name of `Tree.Node` -> lean name of its translation (filled by `spec(node_method=...)`)
TREE_CALLEES = {}       # python callee text of a function taking (and updating) a whole tree -> lean name
TREE_METHODS = {}       # method name of `Tree` / `SWCLike` -> lean name of its translation as a function of the tree's columns (`spec(tree_method=...)`)


def self_want(callee, pn):
    """declared type of a callee's parameter (the expected type of the argument: an empty list literal needs it)"""
    return parse_type(callee.vars[pn]) if pn in callee.vars else None


def retarget_nodes(t, T):
    """the node handles a `Tree.Node` method returns belong to the caller's tree"""
    if isinstance(t, str):
        return f"Node@{T}" if is_node(t) else t
    return (t[0],) + tuple(retarget_nodes(x, T) for x in t[1:])
CLASS_INITS = {"DisjointSetUnion": "dsu_init"}      # python class name -> lean name of its translated __init__
by_lean_global = {}


def find_def(tree: ast.Module, cls, func):
    scope = tree.body
    for part in (cls.split(".") if cls else []):
        for n in scope:
            if isinstance(n, ast.ClassDef) and n.name == part:
                scope = n.body
                break
        else:
            raise Untranslatable(f"class {cls} not found")
    cands = [n for n in scope if isinstance(n, ast.FunctionDef) and n.name == func]
    if not cands:
        raise Untranslatable(f"function {func} not found")
    return cands[-1]          # the implementation follows its @overload stubs


def imported_const(module: str, name: str, cache: dict, depth: int = 4):
    """the integer a module-level name of `module` (a module of the library under REPO) is bound to: a literal assignment there, or the same
    name re-exported from another module (`from .subtree import *`, `from x import NAME`); None when it is anything else"""
    if depth == 0:
        return None
    base = REPO / Path(*module.split("."))
    p = base.with_suffix(".py") if base.with_suffix(".py").exists() else base / "__init__.py"
    if not p.exists():
        return None
    if p not in cache:
        try:
            cache[p] = ast.parse(p.read_text())
        except SyntaxError:
            return None
    found = None
    for nd in cache[p].body:
        if isinstance(nd, ast.Assign) and len(nd.targets) == 1 and isinstance(nd.targets[0], ast.Name) and nd.targets[0].id == name:
            try:
                val = ast.literal_eval(nd.value)
            except (ValueError, SyntaxError):
                return None
            found = val if isinstance(val, int) and not isinstance(val, bool) else None
        elif isinstance(nd, ast.ImportFrom) and nd.module and any(al.name in ("*", name) and al.asname is None for al in nd.names):
            pkg = module.split(".") if p.name == "__init__.py" else module.split(".")[:-1]
            src = ".".join(pkg[:len(pkg) - (nd.level - 1)] + nd.module.split(".")) if nd.level else nd.module
            if src.split(".")[0] != module.split(".")[0]:
                continue
            val = imported_const(src, name, cache, depth - 1)
            if val is not None:
                found = val
    return found


_AST_CACHE = {}


def fn_defaults(sp) -> dict:
    """default values of the parameters of a translated function, read from its current source (`def f(a, b=1, *, c=2)`)"""
    p = REPO / sp.file
    if p not in _AST_CACHE:
        _AST_CACHE[p] = ast.parse(p.read_text())
    a = find_def(_AST_CACHE[p], sp.cls, sp.func).args
    pos = a.posonlyargs + a.args
    out = {x.arg: d for x, d in zip(pos[len(pos) - len(a.defaults):], a.defaults)}
    out.update({x.arg: d for x, d in zip(a.kwonlyargs, a.kw_defaults) if d is not None})
    return out


def find_nested(fdef: ast.FunctionDef, name: str) -> ast.FunctionDef:
    """the nested function `name` of `fdef`, or its only lambda (as a function whose body is the lambda's expression statement)"""
    if name == "<lambda>":
        lams = [n for n in ast.walk(fdef) if isinstance(n, ast.Lambda)]
        if len(lams) != 1:
            raise Untranslatable(f"{fdef.name}: expected exactly one lambda, found {len(lams)}")
        lam = lams[0]
        f = ast.FunctionDef(name="lambda_", args=lam.args, body=[ast.Expr(lam.body)], decorator_list=[], returns=None, type_comment=None)
        for nd in ast.walk(f):
            if not hasattr(nd, "lineno"):
                nd.lineno = nd.col_offset = nd.end_lineno = nd.end_col_offset = 0
        return f
    for n in ast.walk(fdef):
        if isinstance(n, ast.FunctionDef) and n.name == name and n is not fdef:
            return n
    raise Untranslatable(f"nested function {name} not found in {fdef.name}")


# ----------------------------------------------------------------------------- the functions

SPECS: list[Fn] = []
CALLEES: dict[str, str] = {}     # python call text -> lean name


def spec(callee=None, node_method=None, tree_callee=None, tree_method=None, ref_method=None, **kw):
    f = Fn(**kw)
    SPECS.append(f)
    for c in callee or []:
        CALLEES[c] = f.lean
    if node_method:
        NODE_METHODS[node_method] = f.lean
    if tree_callee:
        TREE_CALLEES[tree_callee] = f.lean
    if tree_method:
        TREE_METHODS[tree_method] = f.lean
    if ref_method:
        REF_METHODS[tuple(ref_method)] = f.lean
    return f


spec(lean="dsu_init", file="swcgeom/utils/dsu.py", cls="DisjointSetUnion", func="__init__",
     params=["self", "node_number"], vars={"self": "DisjointSetUnion", "node_number": "Int"}, ret="Unit", out=["self"])
spec(lean="dsu_validate_node", file="swcgeom/utils/dsu.py", cls="DisjointSetUnion", func="validate_node",
     params=["self", "node_id"], vars={"self": "DisjointSetUnion", "node_id": "Int"}, ret="Bool",
     callee=["self.validate_node", "dsu.validate_node"])
spec(lean="dsu_find_parent", file="swcgeom/utils/dsu.py", cls="DisjointSetUnion", func="find_parent",
     params=["self", "node_id"], vars={"self": "DisjointSetUnion", "node_id": "Int"}, ret="Int", out=["self"], fuel=True,
     callee=["self.find_parent", "dsu.find_parent"])
spec(lean="dsu_union_sets", file="swcgeom/utils/dsu.py", cls="DisjointSetUnion", func="union_sets",
     params=["self", "node_a", "node_b"],
     vars={"self": "DisjointSetUnion", "node_a": "Int", "node_b": "Int", "root_a": "Int", "root_b": "Int"},
     ret="Unit", out=["self"], fuel=True, callee=["self.union_sets", "dsu.union_sets"])
spec(lean="dsu_is_same_set", file="swcgeom/utils/dsu.py", cls="DisjointSetUnion", func="is_same_set",
     params=["self", "node_a", "node_b"], vars={"self": "DisjointSetUnion", "node_a": "Int", "node_b": "Int"},
     ret="Bool", out=["self"], fuel=True, callee=["self.is_same_set", "dsu.is_same_set"])


spec(lean="traverse_dfs", module="AlgoTraverse", file="swcgeom/core/swc_utils/base.py", func="_traverse_dfs",
     params=["topology", "root"],
     vars={"topology": "(List Int) × (List Int)", "root": "Int", "children_map": "Dict Int (List Int)", "idx": "Int", "pid": "Int",
           "stack": "List (Int × Bool)", "params": "Dict Int (Option T)", "vals": "Dict Int K", "is_enter": "Bool",
           "pre": "Option T", "cur": "T", "child": "Int", "children": "List K"},
     ret="K", fuel=True, tparams=["σ", "T", "K"],
     callbacks={"enter": ("(enter : σ → Int → Option T → σ × T)", 2, "T"), "leave": ("(leave : σ → Int → List K → σ × K)", 2, "K")})


spec(lean="sort_nodes_impl", module="AlgoSort", file="swcgeom/core/swc_utils/normalizer.py", func="sort_nodes_impl", callee=["sort_nodes_impl"],
     params=["topology"],
     vars={"topology": "(List Int) × (List Int)", "old_ids": "List Int", "old_pids": "List Int", "id_map": "List Int",
           "new_pids": "List Int", "new_id": "Int", "first_root": "Int", "s": "List (Int × Int)", "old_id": "Int", "new_pid": "Int",
           "id2idx": "Dict Int Int", "indices": "List Int", "new_ids": "List Int"},
     ret="((List Int) × (List Int)) × (List Int)", fuel=True)


spec(lean="get_dsu", module="AlgoCheckers", file="swcgeom/core/swc_utils/base.py", func="get_dsu",
     params=["ids", "pids"],
     vars={"ids": "List Int", "pids": "List Int", "dsu": "List Int", "id2idx": "Dict Int Int", "flag": "Bool", "i": "Int", "p": "Int"},
     ret="List Int", fuel=True,
     subst={"df[names.pid]": ("v.pids", "List Int"), "df[names.id]": ("v.ids", "List Int"), "len(df)": ("(Py.len v.ids)", "Int")},
     skip_stmts=["names = get_names(names)"],
     doc="`swcgeom/core/swc_utils/base.py::get_dsu` (the two DataFrame columns are the parameters `ids`, `pids`)")


spec(lean="pop_get_idx", module="AlgoPopulation", file="swcgeom/core/population.py", func="_get_idx",
     params=["key", "length"], vars={"key": "Int", "length": "Int"}, ret="Int", callee=["_get_idx"])
spec(lean="chain_len", module="AlgoPopulation", file="swcgeom/core/population.py", cls="ChainTrees", func="__len__",
     params=["self"], vars={"self": "ChainTrees"}, ret="Int", callee=["len(self)#ChainTrees"])
spec(lean="chain_init", module="AlgoPopulation", file="swcgeom/core/population.py", cls="ChainTrees", func="__init__",
     params=["self", "trees"], vars={"self": "ChainTrees", "trees": "List (List Int)"}, ret="Unit", out=["self"],
     skip_stmts=["super().__init__()"])
spec(lean="chain_getitem", module="AlgoPopulation", file="swcgeom/core/population.py", cls="ChainTrees", func="__getitem__",
     params=["self", "key"], vars={"self": "ChainTrees", "key": "Int", "i": "Int", "j": "Int", "idx": "Int", "mid": "Int"},
     ret="Int", fuel=True)
spec(lean="nest_getitem", module="AlgoPopulation", file="swcgeom/core/population.py", cls="NestTrees", func="__getitem__",
     params=["self", "key"], vars={"self": "NestTrees", "key": "Int"}, ret="Int")
spec(lean="lazy_len", module="AlgoPopulation", file="swcgeom/core/population.py", cls="LazyLoadingTrees", func="__len__",
     params=["self"], vars={"self": "LazyLoadingTrees"}, ret="Int", callee=["len(self)#LazyLoadingTrees"])
spec(lean="lazy_load", module="AlgoPopulation", file="swcgeom/core/population.py", cls="LazyLoadingTrees", func="load",
     params=["self", "key"], vars={"self": "LazyLoadingTrees", "key": "Int"}, ret="Unit", out=["self"], tparams=["σ"],
     callbacks={"Tree.from_swc": ("(read : σ → Int → σ × Int)", 1, "Int")}, callee=["self.load"])
spec(lean="lazy_getitem", module="AlgoPopulation", file="swcgeom/core/population.py", cls="LazyLoadingTrees", func="__getitem__",
     params=["self", "key"], vars={"self": "LazyLoadingTrees", "key": "Int", "idx": "Int"}, ret="Option Int", out=["self"], tparams=["σ"],
     callbacks={"Tree.from_swc": ("(read : σ → Int → σ × Int)", 1, "Int")})


spec(lean="to_sub_topology", module="AlgoSubtree", file="swcgeom/core/swc_utils/subtree.py", func="to_sub_topology", callee=["to_sub_topology"],
     params=["sub"],
     vars={"sub": "(List Int) × (List Int)", "sub_id": "List Int", "sub_pid": "List Int", "keeped_id": "List Bool",
           "old2new": "Dict Int Int", "new_id": "List Int", "new_pid": "List Int"},
     ret="((List Int) × (List Int)) × (List Int)")


spec(lean="has_cyclic", module="AlgoCheckers", file="swcgeom/core/swc_utils/checker.py", func="has_cyclic",
     params=["topology"],
     vars={"topology": "(List Int) × (List Int)", "node_num": "Int", "dsu": "DisjointSetUnion", "i": "Int", "node_a": "Int", "node_b": "Int"},
     ret="Bool", fuel=True)


spec(lean="is_bifurcate", module="AlgoCheckers", file="swcgeom/core/swc_utils/checker.py", func="is_bifurcate",
     params=["topology", "exclude_root"],
     vars={"topology": "(List Int) × (List Int)", "exclude_root": "Bool", "children": "DDict Int (List Int)", "idx": "Int", "pid": "Int",
           "root": "List Int", "k": "Int", "v": "List Int"},
     ret="Bool")


spec(lean="is_sorted", module="AlgoCheckers", file="swcgeom/core/swc_utils/checker.py", func="is_sorted",
     params=["topology"], vars={"topology": "(List Int) × (List Int)", "ids": "List Int", "pids": "List Int"}, ret="Bool")


_DF = {"df[names.id]": ("v.ids", "List Int"), "df[names.pid]": ("v.pids", "List Int"), "df[names.type]": ("v.types", "List Int")}
_DFS = {"df[names.id]": "ids", "df[names.pid]": "pids", "df[names.type]": "types"}
spec(lean="reset_index_", module="AlgoNormalizer", file="swcgeom/core/swc_utils/normalizer.py", func="reset_index_",
     params=["ids", "pids"], vars={"ids": "List Int", "pids": "List Int", "roots": "List Bool", "root_loc": "Int", "root_id": "Int"},
     ret="Unit", out=["ids", "pids"], subst=_DF, stores=_DFS, skip_stmts=["names = get_names(names)"],
     doc="`swcgeom/core/swc_utils/normalizer.py::reset_index_` (the DataFrame columns are the variables `ids`, `pids`)")
spec(lean="mark_roots_as_somas_", module="AlgoNormalizer", file="swcgeom/core/swc_utils/normalizer.py", func="mark_roots_as_somas_",
     params=["ids", "pids", "types", "update_type"],
     vars={"ids": "List Int", "pids": "List Int", "types": "List Int", "update_type": "Option Int", "roots": "List Bool", "root_loc": "Int", "root_id": "Int"},
     ret="Unit", out=["pids", "types"],
     subst=dict(_DF, **{"update_type is not False": ("(v.update_type).isSome", "Bool"), "update_type": ("(v.update_type.getD 0)", "Int")}),
     stores=_DFS, skip_stmts=["names = get_names(names)"],
     doc="`swcgeom/core/swc_utils/normalizer.py::mark_roots_as_somas_` (DataFrame columns as variables; `update_type=False` is `none`)")


spec(lean="subtree_collect", module="AlgoSubtree", file="swcgeom/core/tree_utils_impl.py", func="get_subtree_impl", nested="<lambda>",
     params=["n", "parent"], vars={"n": "Int", "parent": "Option Unit", "ids": "List Int"}, ret="Unit", captures=["ids"],
     doc="`swcgeom/core/tree_utils_impl.py::get_subtree_impl`, the `enter` lambda")
spec(lean="get_subtree_impl", module="AlgoSubtree", file="swcgeom/core/tree_utils_impl.py", func="get_subtree_impl",
     params=["tids", "tpids", "n"],
     vars={"tids": "List Int", "tpids": "List Int", "n": "Int", "ids": "List Int", "topo": "(List Int) × (List Int)", "sub_ids": "List Int", "sub_pid": "List Int"},
     ret="((List Int) × (List Int)) × (List Int)", fuel=True, closures={"<lambda>": "subtree_collect"},
     subst={"swc_like.id()": ("v.tids", "List Int"), "swc_like.pid()": ("v.tpids", "List Int")},
     call_alias={"to_subtree_impl": ("to_sub_topology", [1])},
     doc="`swcgeom/core/tree_utils_impl.py::get_subtree_impl` at the topology level (the tree is its columns `tids`, `tpids`; the attribute "
         "columns are gathered by `to_subtree_impl` through the returned mapping)")
spec(lean="propagate", module="AlgoSubtree", file="swcgeom/core/swc_utils/subtree.py", func="propagate_removal", nested="propagate",
     params=["n", "parent"], vars={"n": "Int", "parent": "Option Bool", "new_ids": "List Int", "remove": "Bool"}, ret="Bool", captures=["new_ids"])
spec(lean="propagate_removal", module="AlgoSubtree", file="swcgeom/core/swc_utils/subtree.py", func="propagate_removal",
     params=["topology"], vars={"topology": "(List Int) × (List Int)", "new_ids": "List Int", "pids": "List Int", "ids": "List Int"},
     ret="(List Int) × (List Int)", fuel=True, closures={"propagate": "propagate"})
_BR = "List ((List (List Int)) × (List Int))"
_TREE = "swcgeom/core/tree.py"
spec(lean="collect_branches", module="AlgoBranches", file=_TREE, cls="Tree", func="get_branches", nested="collect_branches",
     params=["node", "pre"],
     vars={"node": "Int", "pre": _BR, "branches": "List (List Int)", "child": "List Int", "sub_branches": "List (List Int)"},
     ret="(List (List Int)) × (List Int)",
     subst={"node.id": ("v.node", "Int"), "Tree.Branch(self, np.array(child, dtype=np.int32))": ("v.child", "List Int")},
     doc="`swcgeom/core/tree.py::Tree.get_branches`, nested `collect_branches` (a `Tree.Branch` is the list of its node ids; a `Node` is its id)")
spec(lean="get_branches", module="AlgoBranches", file=_TREE, cls="Tree", func="get_branches",
     params=["ids", "pids"], vars={"ids": "List Int", "pids": "List Int", "branches": "List (List Int)", "child": "List Int"},
     ret="List (List Int)", fuel=True, closures={"collect_branches": "collect_branches"}, self_topology=("v.ids", "v.pids"),
     tree_method="get_branches", tree_cols={"self": {"id": "ids", "pid": "pids"}},
     subst={"Tree.Branch(self, np.array(child, dtype=np.int32))": ("v.child", "List Int")},
     doc="`swcgeom/core/tree.py::Tree.get_branches` (the tree is its two topology columns `ids`, `pids`)")
spec(lean="collect_furcations", module="AlgoBranches", file=_TREE, cls="Tree", func="get_furcations", nested="collect_furcations",
     params=["n", "children"], vars={"n": "Int", "children": "List Unit", "furcations": "List Int"}, ret="Unit", captures=["furcations"],
     subst={"n.id": ("v.n", "Int")})
spec(lean="get_furcations", module="AlgoBranches", file=_TREE, cls="Tree", func="get_furcations",
     params=["ids", "pids"], vars={"ids": "List Int", "pids": "List Int", "furcations": "List Int", "i": "Int"},
     ret="List Int", fuel=True, closures={"collect_furcations": "collect_furcations"}, self_topology=("v.ids", "v.pids"),
     tree_method="get_furcations", tree_cols={"self": {"id": "ids", "pid": "pids"}},
     subst={"self.node(i)": ("v.i", "Int")})
spec(lean="assign_path", module="AlgoBranches", file=_TREE, cls="Tree", func="get_paths", nested="assign_path",
     params=["n", "pre_path"], vars={"n": "Int", "pre_path": "Option (List Int)", "path": "List Int", "path_dic": "Dict Int (List Int)"},
     ret="List Int", captures=["path_dic"],
     subst={"n.id": ("v.n", "Int"), "[] if pre_path is None else pre_path.copy()": ("(v.pre_path.getD [])", "List Int")})
spec(lean="collect_path", module="AlgoBranches", file=_TREE, cls="Tree", func="get_paths", nested="collect_path",
     params=["n", "children"], vars={"n": "Int", "children": "List (List (List Int))", "path_dic": "Dict Int (List Int)"},
     ret="List (List Int)", captures=["path_dic"], subst={"n.id": ("v.n", "Int")})
spec(lean="get_paths", module="AlgoBranches", file=_TREE, cls="Tree", func="get_paths",
     params=["ids", "pids"], vars={"ids": "List Int", "pids": "List Int", "path_dic": "Dict Int (List Int)", "paths": "List (List Int)", "idx": "List Int"},
     ret="List (List Int)", fuel=True, closures={"assign_path": "assign_path", "collect_path": "collect_path"}, self_topology=("v.ids", "v.pids"),
     subst={"self.Path(self, idx)": ("v.idx", "List Int")})


# --- node handles (`Tree.Node` / `Node`): a node is the row index it dereferences, its tree is the column variables
_ATT = {"self.attach": {"id": "ids", "pid": "pids"}}
spec(lean="node_parent", module="AlgoNode", file=_TREE, cls="Tree.Node", func="parent", node_method="parent",
     params=["pids", "self"], vars={"pids": "List Int", "self": "Node@self.attach"}, ret="Option Node@self.attach",
     tree_cols={"self.attach": {"pid": "pids"}})
spec(lean="node_children", module="AlgoNode", file=_TREE, cls="Tree.Node", func="children", node_method="children",
     params=["ids", "pids", "self"], vars={"ids": "List Int", "pids": "List Int", "self": "Node@self.attach", "children": "List Int", "idx": "Int"},
     ret="List Node@self.attach", tree_cols=_ATT)
spec(lean="node_is_root", module="AlgoNode", file=_TREE, cls="Tree.Node", func="is_root", node_method="is_root",
     params=["pids", "self"], vars={"pids": "List Int", "self": "Node@self.attach"}, ret="Bool", tree_cols={"self.attach": {"pid": "pids"}})
spec(lean="node_is_furcation", module="AlgoNode", file="swcgeom/core/node.py", cls="Node", func="is_furcation", node_method="is_furcation",
     params=["ids", "pids", "self"], vars={"ids": "List Int", "pids": "List Int", "self": "Node@self.attach"}, ret="Bool", tree_cols=_ATT)
spec(lean="node_is_tip", module="AlgoNode", file="swcgeom/core/node.py", cls="Node", func="is_tip", node_method="is_tip",
     params=["ids", "pids", "self"], vars={"ids": "List Int", "pids": "List Int", "self": "Node@self.attach"}, ret="Bool", tree_cols=_ATT)

_TU = "swcgeom/core/tree_utils.py"
_TCOLS = {"tree": {"id": "ids", "pid": "pids", "type": "types"}}
spec(lean="sort_tree_", module="AlgoRedirect", file=_TU, func="_sort_tree", tree_callee="_sort_tree",
     params=["ids", "pids", "types"],
     vars={"ids": "List Int", "pids": "List Int", "types": "List Int", "new_ids": "List Int", "new_pids": "List Int", "id_map": "List Int"},
     ret="Unit", out=["ids", "pids", "types"], fuel=True, tree_cols=_TCOLS, subst={"tree": ("()", "Unit")},
     stmt_subst={"tree.ndata = {k: tree.ndata[k][id_map] for k in tree.ndata}": "ids = ids[id_map]\npids = pids[id_map]\ntypes = types[id_map]",
                 "tree.ndata[tree.names.id] = new_ids": "ids = new_ids", "tree.ndata[tree.names.pid] = new_pids": "pids = new_pids"},
     doc="`swcgeom/core/tree_utils.py::_sort_tree` (the tree is its columns `ids`, `pids`, `types`: every column is gathered by `id_map`, "
         "then the two topology columns are replaced)")
spec(lean="redirect_tree", module="AlgoRedirect", file=_TU, func="redirect_tree",
     params=["ids", "pids", "types", "new_root", "sort"],
     vars={"ids": "List Int", "pids": "List Int", "types": "List Int", "new_root": "Int", "sort": "Bool",
           "path": "List Node@tree", "p": "Option Node@tree", "n": "Node@tree"},
     ret="Unit", out=["ids", "pids", "types"], fuel=True, tree_cols=_TCOLS, subst={"tree": ("()", "Unit")},
     skip_stmts=["tree = tree.copy()"],
     doc="`swcgeom/core/tree_utils.py::redirect_tree` on the columns `ids`, `pids`, `types` of the copied tree (node handles are row indices)")


# further specs live one file per group in harness/algo_specs/*.py; each file is executed in THIS module's namespace (it calls `spec(...)` and may
# extend MODULE_IMPORTS / MODULE_STRUCTS / STRUCTS / CLASS_INITS), in file-name order
HOOK_SCOPE = {}      # id(hook) -> the generated modules of the plugin that registered it: a plugin's hooks serve its own specs only


def share_hooks(from_module: str, to_module: str):
    """the hooks that serve `from_module` (registered by an earlier plugin) also serve `to_module`"""
    for mods in HOOK_SCOPE.values():
        if from_module in mods:
            mods.add(to_module)


for _f in sorted((VERIF / "harness" / "algo_specs").glob("*.py")):
    _n = (len(EXPR_HOOKS), len(STMT_HOOKS), len(SPECS))
    exec(compile(_f.read_text(), str(_f), "exec"), globals())
    _mods = {sp.module for sp in SPECS[_n[2]:]}
    for _h in EXPR_HOOKS[_n[0]:] + STMT_HOOKS[_n[1]:]:
        HOOK_SCOPE[id(_h)] = _mods


def regenerate(modules=None):
    """rewrite Gen/<module>.lean for the given modules (default: all) from the current sources; returns failure messages"""
    fails = []
    table = {}
    by_lean = {f.lean: f for f in SPECS}
    by_lean_global.update(by_lean)
    for c, ln in CALLEES.items():
        table[c] = by_lean[ln]
    cache = {}
    mods = sorted({sp.module for sp in SPECS})
    for mod in mods:
        if modules is not None and mod not in modules:
            continue
        out = ["-- GENERATED by harness/translate_algo.py from the current /repo sources. Do not edit.",
               "import SwcVerif.Model.Py"] + [f"import SwcVerif.Model.{m}" for m in MODULE_MODEL_IMPORTS.get(mod, [])] + [
               (f"import {m}" if m.startswith("SwcVerif.") else f"import SwcVerif.{m}" if m.startswith("Model.") else f"import SwcVerif.Gen.{m}")
               for m in MODULE_IMPORTS.get(mod, [])] + [
               "set_option linter.unusedVariables false", "namespace Gen.Algo", ""]
        for name in MODULE_STRUCTS.get(mod, []):
            out.append(f"structure {name} where")
            for k, t in STRUCTS[name].items():
                out.append(f"  {lname(k)} : {show_type(parse_type(t))}")
            out.append("deriving Repr, DecidableEq, Inhabited\n")
        groups = {}
        for sp in SPECS:
            if sp.module != mod:
                continue
            try:
                p = REPO / sp.file
                if p not in cache:
                    cache[p] = ast.parse(p.read_text())
                fdef = find_def(cache[p], sp.cls, sp.func)
                tr = FnTr(sp, table)
                for nd in cache[p].body:
                    if (isinstance(nd, ast.Assign) and len(nd.targets) == 1 and isinstance(nd.targets[0], ast.Name)):
                        try:
                            val = ast.literal_eval(nd.value)
                        except (ValueError, SyntaxError):
                            continue
                        if isinstance(val, int) and not isinstance(val, bool):
                            tr.consts[nd.targets[0].id] = val
                    elif isinstance(nd, ast.ImportFrom) and nd.level == 0 and nd.module:
                        # integer constants imported by name from another module of the library (`from swcgeom.core.swc_utils import REMOVAL`)
                        for al in nd.names:
                            if al.name != "*" and (al.asname or al.name) not in tr.consts:
                                val = imported_const(nd.module, al.name, cache)
                                if val is not None:
                                    tr.consts[al.asname or al.name] = val
                    elif isinstance(nd, ast.ClassDef) and [ast.unparse(b) for b in nd.bases] == ["Enum"]:
                        # `class T(Enum): A = auto(); B = auto()`: the members' values are 1, 2, ... in the order of definition
                        mem = [x for x in nd.body if isinstance(x, ast.Assign)]
                        if mem and all(len(x.targets) == 1 and isinstance(x.targets[0], ast.Name) and ast.unparse(x.value) == "auto()" for x in mem):
                            for k, x in enumerate(mem):
                                tr.enums[f"{nd.name}.{x.targets[0].id}"] = k + 1
                    elif isinstance(nd, ast.ClassDef) and [ast.unparse(b) for b in nd.bases] == ["NamedTuple"]:
                        tr.namedtuples[nd.name] = sum(1 for x in nd.body if isinstance(x, ast.AnnAssign))
                text = tr.translate(fdef)
                if sp.rec_group:
                    pre, _, dfn = text.partition(MUTUAL_SPLIT + "\n")
                    out.append(pre)
                    groups.setdefault(sp.rec_group, []).append(dfn)
                    if sp is [x for x in SPECS if x.module == mod and x.rec_group == sp.rec_group][-1]:
                        out.append("mutual\n" + "\n".join(groups[sp.rec_group]) + "end\n")
                else:
                    out.append(text)
            except Untranslatable as e:
                fails.append(f"translate_algo: {sp.file}::{sp.func}: {e}")
                out.append(f"-- UNTRANSLATABLE {sp.lean}: {e}\n")
            except (SyntaxError, OSError, AssertionError, KeyError, TypeError, IndexError, AttributeError) as e:
                fails.append(f"translate_algo: {sp.file}::{sp.func}: {type(e).__name__}: {e}")
                out.append(f"-- UNTRANSLATABLE {sp.lean}: {type(e).__name__}\n")
        out.append("end Gen.Algo")
        text = "\n".join(out) + "\n"
        f = GEN / f"{mod}.lean"
        if not f.exists() or f.read_text() != text:
            f.write_text(text)
    return fails


if __name__ == "__main__":
    for m in regenerate():
        print(m)
