"""Regenerates MANIFEST.json from the property modules present (single source of truth)."""
import importlib
import json
from pathlib import Path

import sys
sys.path.insert(0, str(Path(__file__).resolve().parent.parent))
V = Path(__file__).resolve().parent.parent
props = [json.loads(l) for l in (V / "properties.jsonl").read_text().splitlines() if l.strip()]


def _tie(m):
    """the part of technique / level_note that follows from what the check regenerates today (kept current automatically)"""
    gen = list(getattr(m, "TRANSLATE_ALGO", None) or [])
    if not gen:
        return "", ""
    mods = ", ".join(f"Gen/{g}" for g in gen)
    tech = (f" + translation tie, re-established on every run: the library functions behind this property are TRANSLATED from the current /repo source into Lean "
            f"definitions ({mods}; harness/translate_algo.py + harness/algo_specs/*.py, plus every generated module these import), kernel-checked REFINEMENT theorems identify the generated "
            f"definitions with the model / specification for every input (induction, invariants, fuel sufficiency included), and the generated definitions are executed through the driver against the real functions")
    note = (f" Translation tie (DESIGN §2.2b): a source change alters the generated definitions the theorems are about — the refinement proof still checks, or a named theorem / the translator fails and the failing-input search runs. "
            f"Trusted there: the translator and its Python semantics library (Model/Py*.lean), and the glue listed per group in design_notes/session4/*.md (callbacks standing for geometry, codecs, float formatting, regex matching).")
    return tech, note

checks, na = [], []
for p in props:
    pid = p["id"]
    try:
        m = importlib.import_module(f"harness.props.{pid.lower()}")
    except ModuleNotFoundError as e:
        if e.name != f"harness.props.{pid.lower()}":
            raise SystemExit(f"mkmanifest: cannot import the check of {pid} ({e}); run with /venv/bin/python")
        na.append({"property_id": pid, "reason": "check not built yet (work in progress; see DESIGN.md §5 for the planned model and theorems)"})
        continue
    if getattr(m, "READY", True) is False:
        na.append({"property_id": pid, "reason": "check being built: model, correspondence suite and theorem statements exist, proofs not yet complete (not claimed until they are)"})
        continue
    if getattr(m, "NOT_APPLICABLE", None):
        na.append({"property_id": pid, "reason": m.NOT_APPLICABLE})
        continue
    checks.append({
        "property_id": pid,
        "quick_cmd": f"./check {pid} --tier quick",
        "thorough_cmd": f"./check {pid} --tier thorough",
        "evidence_file": f"evidence/{pid}.json",
        "replay_cmd_template": f"./check {pid} --replay {{path}}",
        "engine": "lean4-proof+correspondence",
        "level_claimed": {
            "category": "proof",
            "text": m.LEVEL_TEXT,
            "design_ref": f"DESIGN.md §5 {pid}",
        },
        "level_note": m.LEVEL_NOTE + _tie(m)[1],
        "technique": m.TECHNIQUE + _tie(m)[0],
    })
man = {
    "version": 1,
    "setup_cmd": "cd lean && lake build",
    "hooks": {
        "guard": "SWCGEOM_VERIF",
        "enable": "no source hooks are needed: the harness wraps public entry points from outside (SWCGEOM_VERIF=1 is exported by ./check but nothing in /repo reads it)",
        "baseline_off_cmd": "cd /repo && /venv/bin/python -m pytest -ra -q -p no:cacheprovider --timeout=900 --continue-on-collection-errors",
        "source_commits": [],
        "add_only": True,
    },
    "engines": [{
        "name": "lean4-proof+correspondence",
        "path": "lean/ (models, proofs, property theorems, driver) + harness/ (translator, generators, correspondence, oracles, decision rule)",
        "serves_properties": [c["property_id"] for c in checks],
        "kind_free_text": "Lean 4 theorems about executable models of the code, re-checked by the kernel on every run; models tied to /repo by a Python-AST→Lean translator (Gen/) and by a differential correspondence check against the real library; property oracles turn a broken proof/correspondence into a replayable failing input",
    }],
    "checks": checks,
    "not_applicable": na,
    "notes": "See DESIGN.md. ./check <ID> [--tier quick|thorough] [--replay file]; VERIF_SEED selects the PRNG seed.",
}
(V / "MANIFEST.json").write_text(json.dumps(man, indent=1) + "\n")
print(len(checks), "checks;", len(na), "not yet claimed")
