"""C18 — topology diagnosis and root repair tell the truth about any parent table."""
import io
import itertools
import warnings

import numpy as np

from harness import gen
from harness.framework import Suite

PID = "C18"
LEAN_MODS = ["SwcVerif.Props.C18", "SwcVerif.Props.C05", "SwcVerif.Props.C18Gen", "SwcVerif.Props.C18GenRepair",
             "SwcVerif.Props.C18Wrap", "SwcVerif.Props.C03Gen"]
TRANSLATE_ALGO = ["AlgoDsu", "AlgoCheckers", "AlgoNormalizer", "AlgoSort", "AlgoRepair", "AlgoCtor"]   # Gen/AlgoDsu.lean, Gen/AlgoCheckers.lean are regenerated from swcgeom/utils/dsu.py, swc_utils/base.py::get_dsu and swc_utils/checker.py::has_cyclic / is_bifurcate on every run
DRIVER_FILES = ["SwcVerif/Model/AlgoRunDsu.lean", "SwcVerif/Model/AlgoRunNormalizer.lean", "SwcVerif/Model/AlgoRunRepair.lean",
                "SwcVerif/Model/AlgoRunCtor.lean", "SwcVerif/Model/PyCtor.lean"]
THEOREMS = [
    "C18.dsu_refines_partition", "C18.runOps_cons", "C18.invalid_rejected", "C18.hasCyclic_spec", "C18.isBifurcate_correct",
    "C18.jumpPass_stop", "C18.getDsu_fixpoint", "C18.getDsu_sorted_forest", "Dsu.jumpLoop_forest", "C18.getDsu_forest", "C18.forest_single_label_iff", "Dsu.jumpLoop_conn", "C18.getDsu_labels_are_components", "C18.repair_somas", "C18.repair_nearest_partial", "Dsu.linkLoop_inv", "C18.repair_nearest_tree", "Dsu.cycle_strict", "Dsu.jumpLoop_terminates", "C18.getDsu_total", "C18.isSingleRoot_total",
    "C05.isSorted_iff",
    # refinement: the definitions generated from dsu.py on this run compute what the model computes (every script)
    "RefineDsu.find_refines", "RefineDsu.union_refines", "RefineDsu.same_refines", "RefineDsu.init_refines",
    "RefineDsu.script_refines", "RefineDsu.script_refines_init", "C18.generated_dsu_refines_partition",
    "RefineCheckers.getDsu_refines", "C18.generated_getDsu_eq_model", "C18.generated_getDsu_total",
    "RefineCheckers.hasCyclic_refines", "C18.generated_hasCyclic_spec",
    "RefineCheckers.isBifurcate_refines", "C18.generated_isBifurcate_eq_model", "RefineCheckers.isSorted_refines",
    "RefineNorm.markRoots_refines", "RefineNorm.resetIndex_refines", "C18.generated_markRoots_eq_model", "C18.generated_resetIndex",
    # root repair: is_single_root, link_roots_to_nearest_ and the tail of read_swc as generated on this run
    "RefineRepair.isSingleRoot_refines", "RefineRepair.linkRoots_refines", "RefineRepair.readFix_stages",
    "C18.generated_isSingleRoot_eq_model", "C18.generated_isSingleRoot_total", "C18.generated_linkRoots_eq_model",
    "C18.generated_repair_nearest_tree",
    "C18.generated_readFix_unknown_raises", "C18.generated_readFix_few_roots", "C18.generated_readFix_plain", "C18.checkStage_total",
    "C18.generated_readFix_somas", "C18.generated_readFix_nearest",
    # the spellings users call, as generated on this run (Gen/AlgoCtor.lean): deprecated checker names, the copying normalizer spellings
    "RefineCtor.is_binary_tree_eq", "RefineCtor.check_single_root_eq", "C18.generated_is_binary_tree_eq_model", "C18.generated_is_binary_tree_correct",
    "C18.generated_check_single_root_eq_model", "C18.generated_check_single_root_total",
    "RefineCtor.copy_and_apply_spec", "RefineCtor.copy_and_apply_lift", "RefineCtor.pure_of_eq",
    "RefineCtor.mark_roots_as_somas_eq", "RefineCtor.reset_index_eq", "RefineCtor.sort_nodes_eq", "RefineCtor.link_roots_to_nearest_eq",
    "C18.generated_mark_roots_as_somas_eq_model", "C18.generated_reset_index_copy",
    "C03.generated_copy_and_apply_pure", "C03.generated_mark_roots_as_somas_pure", "C03.generated_reset_index_pure", "C03.generated_sort_nodes_pure",
    "C03.generated_link_roots_to_nearest_pure",
]
TRUSTED = ["hand-written models Model/Dsu.lean of DisjointSetUnion, has_cyclic, is_bifurcate, get_dsu / is_single_root, mark_roots_as_somas_, "
           "link_roots_to_nearest_ (tied by the c18.* correspondence suites: union/find scripts, ALL parent tables with n ≤ 5, random larger ones, multi-root files)"]
ASSUMPTIONS = [
    "Python list / numpy array indexing as modelled; has_cyclic is only defined for 0-based ids (it indexes the DSU with the ids)",
    "nearest-root repair: Euclidean norms are compared through their squares; generated clouds have pairwise distinct squared distances (no argmin ties)",
    "recursion depth of find_parent (bounded by the rank, which is at most log2 n) is not part of the model",
]


# ---------------------------------------------------------------- the copying spellings of the normalizer, on whole frames

BYSTANDER = "7,8 / -1,7 / 1,2 / 4,4"      # object 0 of the heap the driver op `gcopying` starts from (Model/AlgoRunCtor.lean)


def frame_cols(df):
    return {"ids": [int(v) for v in df["id"]], "pids": [int(v) for v in df["pid"]], "types": [int(v) for v in df["type"]],
            "rs": [int(round(4 * float(v))) for v in df["r"]], "x": [int(v) for v in df["x"]], "y": [int(v) for v in df["y"]],
            "z": [int(v) for v in df["z"]]}


def copying_frames(text):
    """every copying spelling on the frame read from `text` (and `sort_nodes` also on the somas-repaired frame, which has one root):
    [op, input columns, result columns | exception, input columns AFTER the call, does any result column share memory with the input]"""
    from swcgeom.core.swc_utils import link_roots_to_nearest, mark_roots_as_somas, read_swc, reset_index, sort_nodes

    out = []
    with warnings.catch_warnings():
        warnings.simplefilter("ignore")
        raw, _ = read_swc(io.StringIO(text), fix_roots=False, reset_index=False)
        fixed = mark_roots_as_somas(raw)
        for op, fn, src in (("somas", mark_roots_as_somas, raw), ("somas/ut=5", lambda d: mark_roots_as_somas(d, 5), raw),
                            ("somas/ut=F", lambda d: mark_roots_as_somas(d, update_type=False), raw),
                            ("nearest", link_roots_to_nearest, raw), ("reset", reset_index, raw), ("sort", sort_nodes, raw), ("sort", sort_nodes, fixed)):
            before = frame_cols(src)
            try:
                r = fn(src)
                got = frame_cols(r)
                shares = any(np.shares_memory(r[c].to_numpy(), src[c].to_numpy()) for c in r.columns) or r is src
            except Exception as e:  # noqa: BLE001
                got, shares = {"exc": type(e).__name__}, False
            out.append([op, before, got, frame_cols(src), bool(shares)])
    return out


def copying_lines(rows):
    """the definitions generated from the copying spellings on this run, on a heap [bystander, input]: result frame | input after | bystander | refs"""
    fr = lambda c: " / ".join(gen.ints(c[k]) for k in ("ids", "pids", "types", "rs"))
    out = []
    for op, before, got, after, _ in rows:
        o, _, ut = op.partition("/ut=")
        line = (f"gcopying op={o} ids={gen.ints(before['ids'])} pids={gen.ints(before['pids'])} types={gen.ints(before['types'])} rs={gen.ints(before['rs'])}"
                + ("" if ut == "F" else f" ut={ut or 1}" if o == "somas" else "")
                + (f" x={gen.ints(before['x'])} y={gen.ints(before['y'])} z={gen.ints(before['z'])}" if o == "nearest" else ""))
        out.append((line, "E" if "exc" in got else f"{fr(got)} | {fr(after)} | {BYSTANDER} | 1 2 3"))
    return out


def copying_oracle(rows):
    out = []
    for op, before, got, after, shares in rows:
        if after != before:
            out.append((f"copying-mutates/{op}", f"{op}: the frame handed in changed: {before} → {after}"))
        if shares:
            out.append((f"copying-shares/{op}", f"{op}: the result shares memory with the frame handed in"))
    return out


# ---------------------------------------------------------------- truth, computed independently

def components(n, pids):
    adj = [[] for _ in range(n)]
    for i, p in enumerate(pids):
        if 0 <= p < n:
            adj[i].append(p); adj[p].append(i)
    lab = [-1] * n
    c = 0
    for s in range(n):
        if lab[s] >= 0:
            continue
        st = [s]; lab[s] = c
        while st:
            v = st.pop()
            for w in adj[v]:
                if lab[w] < 0:
                    lab[w] = c; st.append(w)
        c += 1
    return lab, c


def has_cycle(n, pids):
    for s in range(n):
        v, k = s, 0
        while 0 <= v < n and pids[v] != -1 and k <= n:
            v = pids[v]; k += 1
        if k > n:
            return True
    return False


CONTAINERS = ["int64", "list", "int32", "tuple", "series", "list+array", "array+list"]


def as_container(kind, ids, pids):
    import pandas as pd
    mk = {"int64": lambda a: np.array(a, dtype=np.int64), "int32": lambda a: np.array(a, dtype=np.int32), "list": list, "tuple": tuple,
          "series": lambda a: pd.Series(a, dtype=np.int64)}
    if kind == "list+array":
        return list(ids), np.array(pids, dtype=np.int64)
    if kind == "array+list":
        return np.array(ids, dtype=np.int64), list(pids)
    return mk[kind](ids), mk[kind](pids)


def long_script(rng, kind, n):
    """union/find history over elements 0..n (element n is never united): n-1 unions that join 0..n-1 into one set, then queries"""
    if kind == "doubling":
        pairs, w = [], 1
        while w < n:
            for lo in range(0, n - w, 2 * w):
                a, b = lo + rng.randrange(w), lo + w + rng.randrange(min(w, n - lo - w))
                pairs.append((a, b) if rng.random() < 0.5 else (b, a))
            w *= 2
    else:
        sweep, order = kind.split("/")
        steps = range(n - 1) if sweep == "line-up" else range(n - 2, -1, -1)
        pairs = []
        for i in steps:
            ab = order == "ab" if order != "coin" else rng.random() < 0.5
            pairs.append((i, i + 1) if ab else (i + 1, i))
    ops = [("u", a, b) for a, b in pairs]
    qs = [(0, n - 1), (n - 1, 0), (0, n), (n, n - 1)] + [(rng.randrange(n + 1), rng.randrange(n + 1)) for _ in range(6)]
    rng.shuffle(qs)
    return ops + [("s", a, b) for a, b in qs]


class DsuScripts(Suite):
    name = "c18.dsu"

    def cases(self, rng, tier, widen):
        out = []
        big = tier == "thorough" or widen
        for _ in range(300 if big else 40):
            n = rng.choice([1, 2, 3, 4, 6, 9, 16, 40])
            ops = []
            for _ in range(rng.randint(1, 3 * n + 4)):
                a, b = rng.randrange(n), rng.randrange(n)
                ops.append(("u" if rng.random() < 0.55 else "s", a, b))
            out.append({"class": f"n{n}", "n": n, "ops": ops})
        # deep chains built adversarially (union small into large keeps ranks low; queries interleaved)
        for n in ([64, 300] if big else [64]):
            ops = [("u", i, i + 1) for i in range(n - 1)] + [("s", 0, n - 1), ("s", n // 2, 1)]
            out.append({"class": "chain", "n": n, "ops": ops})
        # long histories (more unions than the interpreter's recursion limit): neighbours united along a line in either sweep direction and
        # either argument order, coin-tossed argument order, blocks of doubling size; then the first look-ups of the far ends, of random
        # elements and of an element that was never united.  Whatever linking rule a union-find uses, one of these builds its deepest forest.
        import sys as _sys
        lim = _sys.getrecursionlimit()
        kinds = ["line-up/ab", "line-up/ba", "line-down/ab", "line-down/ba", "line-up/coin", "line-down/coin", "doubling"]
        for rep in range(2 if big else 1):
            skip = None if big else rng.choice(["line-up/coin", "line-down/coin"])     # quick tier: one of the two coin-tossed sweeps per run
            for kind in kinds:
                if kind == skip:
                    continue
                n = (3 if "coin" in kind else 1) * lim * (rep + 1) + rng.randint(200, 900)
                ops = long_script(rng, kind, n)
                out.append({"class": "long/" + kind, "n": n + 1, "ops": ops, "big": True})
        return out

    def run(self, case):
        from swcgeom.utils import DisjointSetUnion

        d = DisjointSetUnion(case["n"])
        ans = []
        for k, a, b in case["ops"]:
            if k == "u":
                d.union_sets(a, b)
            else:
                ans.append(bool(d.is_same_set(a, b)))
        return {"ans": ans}

    def lines(self, case, res):
        if "exc" in res:
            return []
        ops = ";".join(f"{k}:{a}:{b}" for k, a, b in case["ops"])
        want = "".join("T" if x else "F" for x in res["ans"])
        # the hand-written model AND the definitions generated from dsu.py on this run (translator cross-check)
        return [(f"dsu n={case['n']} ops={ops}", want), (f"gdsu n={case['n']} ops={ops}", want)]

    def oracle(self, case, res):
        if "exc" in res:
            ops = case["ops"]
            return [("dsu-raises", f"{res['exc']}: {res.get('msg')} — n={case['n']}, {sum(1 for o in ops if o[0] == 'u')} unions {ops[:4]}…, "
                                   f"queries {[o for o in ops if o[0] == 's'][:4]}…")]
        n = case["n"]
        lab = list(range(n))
        members = {i: [i] for i in range(n)}       # label -> its elements; the smaller class is relabelled (no trees, nothing to compress)
        want = []
        for k, a, b in case["ops"]:
            if k == "u":
                la, lb = lab[a], lab[b]
                if la != lb:
                    if len(members[la]) > len(members[lb]):
                        la, lb = lb, la
                    for x in members[la]:
                        lab[x] = lb
                    members[lb].extend(members.pop(la))
            else:
                want.append(lab[a] == lab[b])
        ans = res.get("ans")
        if not isinstance(ans, list) or len(ans) != len(want):
            return [("dsu-malformed", f"{len(want)} queries, answers {str(ans)[:80]}")]
        if want != res["ans"]:
            i = next(i for i, (x, y) in enumerate(zip(want, res["ans"])) if x != y)
            return [("dsu-wrong-answer", f"query #{i} answered {res['ans'][i]}, the unions so far make it {want[i]} (n={n}, ops={case['ops'][:30]})")]
        return []


def all_tables(n):
    for pids in itertools.product(range(-1, n), repeat=n):
        yield list(pids)


class Checkers(Suite):
    name = "c18.checkers"
    case_timeout = 20

    def cases(self, rng, tier, widen):
        out = []
        big = tier == "thorough" or widen
        for n in range(1, 6 if big else 5):
            for pids in all_tables(n):
                if any(p == i for i, p in enumerate(pids)):
                    continue  # a node that is its own parent is not a parent table entry the format can mean
                out.append({"class": f"all-n{n}", "ids": list(range(n)), "pids": pids})
        if not big:
            for _ in range(150):
                out.append({"class": "rand-n5", "ids": list(range(5)), "pids": [rng.choice([-1] + [j for j in range(5) if j != i]) for i in range(5)]})
        for _ in range(200 if big else 40):
            n = rng.choice([6, 8, 12, 20, 40])
            kind = rng.choice(["forest", "forest", "cyclic", "tree"])
            if kind == "tree":
                pids = gen.renumber_root0(rng, gen.parents_sorted(rng, n, gen.pick_shape(rng, rng.randrange(9))))
                n = len(pids)
            else:
                pids = gen.renumber_root0(rng, gen.parents_sorted(rng, n, "random"))
                for _ in range(rng.randint(1, 3)):
                    pids[rng.randrange(1, n)] = -1
                if kind == "cyclic":
                    for _ in range(rng.randint(1, 2)):
                        i = rng.randrange(n)
                        pids[i] = rng.choice([j for j in range(n) if j != i])
            out.append({"class": kind, "ids": list(range(n)), "pids": pids})
        # arbitrary functional graphs: long cycles with tails hanging off them, several cycles, roots in between
        for _ in range(300 if big else 60):
            n = rng.randint(6, 14)
            pids = [(-1 if rng.random() < 0.15 else rng.choice([j for j in range(n) if j != i])) for i in range(n)]
            if rng.random() < 0.3:      # one big cycle through most nodes
                cyc = list(range(n)); rng.shuffle(cyc); m = rng.randint(n // 2, n)
                for a, b in zip(cyc[:m], cyc[1:m] + cyc[:1]):
                    pids[a] = b
            out.append({"class": "functional-graph", "ids": list(range(n)), "pids": pids})
        # long tables (thousands of rows): runs in which every node's parent is the previous / the next row, closed into a ring or not,
        # trunks with short twigs, in id order and shuffled — sizes around and beyond the interpreter's recursion limit
        import sys as _sys
        lim = _sys.getrecursionlimit()
        longs = []
        for kind in (["run-open", "run-ring", "trunk-twigs", "run-back", "run-shuffled", "run-back-twigs", "run-back-ring", "run-back-twigs", "run-back-ring"]
                     if big else ["run-open", "run-ring", "trunk-twigs", "run-back-twigs", "run-back-ring"]):
            n = lim + rng.randint(200, 900) if kind != "trunk-twigs" else 2 * lim + rng.randint(0, 500)
            if kind in ("run-back-twigs", "run-back-ring"):
                # rows list children BEFORE their parents (row i has parent i+1); a few more rows at the end hang off nodes of the run,
                # the first of them off its leaf end; "ring": the run's last node has that row as its parent, which closes one big cycle
                t = rng.randint(1, 12)
                m = n - t
                pids = list(range(1, m)) + [-1] + [rng.randrange(60)] + [rng.randrange(m) for _ in range(t - 1)]
                if kind == "run-back-ring":
                    pids[m - 1] = m
                longs.append({"class": "long/" + kind, "ids": list(range(n)), "pids": pids, "big": True, "light": not big})
                continue
            if kind == "run-open":
                pids = [-1] + list(range(n - 1))                     # 0 <- 1 <- 2 ...
                pids[-1] = 0                                          # the last node hangs off the root
            elif kind == "run-ring":
                pids = [n - 1] + list(range(n - 1))                  # one big cycle
            elif kind == "run-back":
                pids = list(range(1, n)) + [-1]                      # parents after children
            elif kind == "trunk-twigs":
                m = n // 2
                pids = [-1] + list(range(m - 1)) + [rng.randrange(m) for _ in range(n - m)]
            else:
                perm = list(range(1, n)); rng.shuffle(perm); order = [0] + perm
                pids = [-1] * n
                for a, b in zip(order, order[1:]):
                    pids[b] = a
            longs.append({"class": "long/" + kind, "ids": list(range(n)), "pids": pids, "big": True})
        out.extend(longs)
        # tables whose ids are not 0-based (checkers that work on any table)
        for _ in range(60 if big else 15):
            n = rng.choice([3, 5, 9])
            p = gen.parents_sorted(rng, n, "random")
            for _ in range(rng.randint(0, 2)):
                p[rng.randrange(1, n)] = -1
            ids, pp, _ = gen.table_form(rng, p)
            # table_form maps -1 parents to -1 already; extra roots were set before
            out.append({"class": "table-form", "ids": ids, "pids": pp, "anyids": True})
        # the form in which the two columns are handed over (ndarray of either width, list, tuple, pandas Series, mixed)
        for i, c in enumerate(out):
            c["container"] = CONTAINERS[i % len(CONTAINERS)]
            c["class"] = c["class"] + "/" + c["container"]
        return out

    def run(self, case):
        import pandas as pd
        from swcgeom.core.swc_utils import has_cyclic, is_bifurcate, is_single_root, is_sorted
        from swcgeom.core.swc_utils.base import get_dsu

        ids = np.array(case["ids"], dtype=np.int64)
        pids = np.array(case["pids"], dtype=np.int64)
        df = pd.DataFrame({"id": ids, "pid": pids})
        res = {}
        res["single_root"] = bool(is_single_root(df))
        res["get_dsu"] = [int(x) for x in get_dsu(df)]
        # the topology-taking checkers accept "any table of (id, parent id) pairs": the two columns in every sequence form
        ids, pids = as_container(case.get("container", "int64"), case["ids"], case["pids"])
        res["sorted"] = bool(is_sorted((ids, pids)))
        res["bif1"] = bool(is_bifurcate((ids, pids), exclude_root=True))
        res["bif0"] = bool(is_bifurcate((ids, pids), exclude_root=False))
        if not case.get("anyids"):
            res["cyclic"] = bool(has_cyclic((ids, pids)))
        # the deprecated spellings answer the same
        import warnings as _w
        from swcgeom.core.swc_utils import checker as _ck

        with _w.catch_warnings():
            _w.simplefilter("ignore")
            res["alias"] = {"single": bool(_ck.check_single_root(df)), "bin1": bool(_ck.is_binary_tree(df)),
                            "bin1e": bool(_ck.is_binary_tree(df, exclude_root=True)), "bin0": bool(_ck.is_binary_tree(df, exclude_root=False))}
            res["aliases_same"] = bool(_ck.check_single_root(df) == res["single_root"] and _ck.is_binary_tree(df) == res["bif1"]
                                       and _ck.is_binary_tree(df, exclude_root=False) == res["bif0"])
        return res

    def lines(self, case, res):
        if "exc" in res:
            return []
        a = f"ids={gen.ints(case['ids'])} pids={gen.ints(case['pids'])}"
        tf = lambda b: "T" if b else "F"
        out = [("singleroot " + a, tf(res["single_root"])), ("getdsu " + a, gen.ints(res["get_dsu"])),
               ("ggetdsu " + a, gen.ints(res["get_dsu"])),     # the definition generated from get_dsu on this run (translator cross-check)
               ("issorted " + a, str(res["sorted"])), ("bifurcate excl=1 " + a, tf(res["bif1"])), ("bifurcate excl=0 " + a, tf(res["bif0"])),
               ("gbifurcate excl=1 " + a, tf(res["bif1"])), ("gbifurcate excl=0 " + a, tf(res["bif0"]))]     # generated from is_bifurcate on this run
        if case.get("light"):      # quick tier: the pointer-jumping labelling of these long tables is compared in the thorough tier only
            out = [x for x in out if not x[0].startswith(("getdsu", "ggetdsu"))]
        if not case.get("big"):
            out.append(("gsingleroot " + a, tf(res["single_root"])))     # the definition generated from is_single_root on this run
        # the deprecated spellings as generated on this run (Gen/AlgoCtor.lean), against what THEY answered (`excl` omitted = the default)
        al = res.get("alias")
        if al:
            out += [("gwrap op=binary " + a, tf(al["bin1"])), ("gwrap op=binary excl=1 " + a, tf(al["bin1e"])), ("gwrap op=binary excl=0 " + a, tf(al["bin0"]))]
            if not case.get("big"):
                out.append(("gwrap op=singleroot " + a, tf(al["single"])))
        if "cyclic" in res:
            out.append(("hascyclic " + a, tf(res["cyclic"])))
            out.append(("ghascyclic " + a, tf(res["cyclic"])))     # the definition generated from has_cyclic on this run
        return out

    def oracle(self, case, res):
        ids, pids = case["ids"], case["pids"]
        n = len(ids)
        if "exc" in res:
            key = "checker-timeout" if res["exc"] == "Timeout" else "checker-raises"
            show = (lambda a: a) if n <= 60 else (lambda a: f"[{', '.join(map(str, a[:6]))}, … {', '.join(map(str, a[-14:]))}] ({n} rows)")
            return [(key, f"{case.get('class')}: ids={show(ids)} pids={show(pids)}: {res['exc']}: {res.get('msg')}")]
        pos = {v: k for k, v in enumerate(ids)}
        pp = [-1 if p == -1 else pos[p] for p in pids]      # positions
        out = []
        _, nc = components(n, pp)
        if res["single_root"] != (nc == 1):
            out.append(("single-root", f"ids={ids} pids={pids}: is_single_root={res['single_root']} but the table has {nc} connected component(s)"))
        if "cyclic" in res and res["cyclic"] != has_cycle(n, pp):
            out.append(("has-cyclic", f"pids={pids}: has_cyclic={res['cyclic']}, truth {has_cycle(n, pp)}"))
        if res.get("aliases_same") is False:
            out.append(("checker-alias", f"ids={ids} pids={pids}: check_single_root / is_binary_tree differ from is_single_root / is_bifurcate"))
        truth_sorted = all(p < i for i, p in zip(ids, pids))
        if res["sorted"] != truth_sorted:
            out.append(("is-sorted", f"ids={ids} pids={pids}: is_sorted={res['sorted']}, truth {truth_sorted}"))
        cnt = {}
        for p in pids:
            cnt[p] = cnt.get(p, 0) + 1
        roots = {i for i, p in zip(ids, pids) if p == -1}
        for excl, key in ((True, "bif1"), (False, "bif0")):
            truth = all(c <= 2 for k, c in cnt.items() if k != -1 and not (excl and k in roots))
            if res[key] != truth:
                out.append(("is-bifurcate", f"ids={ids} pids={pids} exclude_root={excl}: is_bifurcate={res[key]}, truth {truth}"))
        return out[:3]

    def nontrivial(self, case, res):
        return len(case["ids"]) >= 3


class Repair(Suite):
    """multi-root files: reading succeeds; each repair mode returns a single-rooted tree keeping the first
    root, every original edge and every attribute"""
    name = "c18.repair"

    def cases(self, rng, tier, widen):
        out = []
        big = tier == "thorough" or widen
        k = 0
        for _ in range(400 if big else 120):
            n = rng.choice([2, 3, 5, 8, 14, 30])
            p = gen.parents_sorted(rng, n, gen.pick_shape(rng, k)); k += 1
            n = len(p)
            nroots = rng.choice([1, 2, 2, 3, 3, 4, 5])
            for _ in range(nroots - 1):
                if n > 1:
                    p[rng.randrange(1, n)] = -1
            base = rng.choice([0, 1, 1, 7])
            # lattice points; the argmin of every non-first root must be unique (no distance ties in its row)
            layout = rng.choice(["cloud", "cloud", "interleaved"])
            pts = []
            if layout == "cloud":
                while len(pts) < n:
                    c = (rng.randint(-30, 30), rng.randint(-30, 30), rng.randint(-30, 30))
                    if c not in pts:
                        pts.append(c)
            else:
                # fragments laid side by side and interleaved along x, the first root's fragment far away:
                # a later root's nearest node is then often an inner node of a fragment that was linked before
                comp, _ = components(n, p)
                order = sorted(set(comp), key=lambda c: comp.index(c))
                slot = {c: k for k, c in enumerate(order)}
                cnt = {c: 0 for c in order}
                for i in range(n):
                    c = comp[i]
                    k = cnt[c]; cnt[c] += 1
                    if slot[c] == 0:
                        pts.append((-500 - 3 * k, rng.randint(-2, 2), rng.randint(-2, 2)))
                    else:
                        pts.append((100 + len(order) * 2 * k + 2 * slot[c] + rng.choice([0, 1]), 7 * slot[c] % 5 - 2 + rng.choice([0, 1]), rng.randint(-1, 1)))
                if len(set(pts)) < n:
                    continue
            d2 = lambda a, b: sum((x - y) ** 2 for x, y in zip(a, b))
            rts = [i for i in range(n) if p[i] == -1][1:]
            if any(len({d2(pts[i], pts[j]) for j in range(n) if j != i}) < n - 1 for i in rts):
                continue
            out.append({"class": f"roots{sum(1 for x in p if x == -1)}/base{base}", "ids": [i + base for i in range(n)],
                        "pids": [-1 if x == -1 else x + base for x in p], "types": [rng.randint(0, 7) for _ in range(n)],
                        "xyz": pts, "r": [rng.randint(1, 16) / 4 for _ in range(n)], "base": base})
            if rng.random() < 0.25:
                out[-1]["r"][rng.randrange(n)] = rng.choice([0.0, -0.25, 0.0])      # the third warning of read_swc
                out[-1]["class"] += "/r<=0"
            # the first root not in the first row (second warning of read_swc): row 0 changes places with a non-root row before every other
            # root; the first root keeps the smallest id (see design_notes/session4/repair.md for what reset_index_ does otherwise)
            c = out[-1]
            # the first root does NOT carry the smallest id (seed C18_m17: the fragment listed first uses the larger ids): the ids of the first root's
            # component are moved above all others, rows stay where they are.  Kept to tables where no row names `first root's id - 1` as its
            # parent — that one parent is what `reset_index_` turns into -1 at HEAD (design_notes/session4/repair.md, possible defect, not in the oracle)
            if sum(1 for x in c["pids"] if x == -1) >= 2 and rng.random() < 0.3:
                comp2, _ = components(n, p)
                fr = next(k for k in range(n) if p[k] == -1)
                lo = [k for k in range(n) if comp2[k] != comp2[fr]]
                hi_rows = [k for k in range(n) if comp2[k] == comp2[fr]]
                new_id = {}
                for rk, k in enumerate(lo):
                    new_id[k] = base + rk
                for rk, k in enumerate(hi_rows):
                    new_id[k] = base + len(lo) + rk
                nids = [new_id[k] for k in range(n)]
                npids = [-1 if p[k] == -1 else new_id[p[k]] for k in range(n)]
                if nids[fr] >= 2 and (nids[fr] - 1) not in npids:
                    c["ids"], c["pids"] = nids, npids
                    c["class"] += "/first-root-not-min"
                    continue
            others = [k for k in range(1, n) if c["pids"][k] == -1]
            hi = min(others) if others else n
            if hi > 1 and rng.random() < 0.2:
                j = rng.randrange(1, hi)
                for col in ("ids", "pids", "types", "xyz", "r"):
                    c[col][0], c[col][j] = c[col][j], c[col][0]
                c["class"] += "/root-late"
        return out

    def run(self, case):
        from swcgeom.core.swc_utils import read_swc

        n = len(case["ids"])
        text = "".join(f"{case['ids'][k]} {case['types'][k]} {case['xyz'][k][0]} {case['xyz'][k][1]} {case['xyz'][k][2]} {case['r'][k]!r} {case['pids'][k]}\n"
                       for k in range(n))
        res = {}
        for mode in (False, "somas", "nearest"):
            with warnings.catch_warnings(record=True) as w:
                warnings.simplefilter("always")
                try:
                    df, _ = read_swc(io.StringIO(text), fix_roots=mode, reset_index=False)
                    res[str(mode)] = {"id": df["id"].tolist(), "pid": df["pid"].tolist(), "type": df["type"].tolist(),
                                      "x": df["x"].tolist(), "y": df["y"].tolist(), "z": df["z"].tolist(), "r": df["r"].tolist(),
                                      "warn": [str(x.message)[:40] for x in w]}
                    df2, _ = read_swc(io.StringIO(text), fix_roots=mode)
                    res[str(mode)]["reset_pid"] = df2["pid"].tolist()
                    res[str(mode)]["reset_id"] = df2["id"].tolist()
                except Exception as e:  # noqa: BLE001
                    res[str(mode)] = {"exc": type(e).__name__, "msg": str(e)[:200]}
        # the dispatch after parsing under every option (fix mode incl. an unknown one × sort_nodes × reset_index): columns + warnings
        WARN = ["not a simple tree", "root is not the first node", "non-positive radius"]
        res["dispatch"] = {}
        for mode in (False, "somas", "nearest", "soma"):
            for srt, rst in ((False, False), (False, True), (True, True)):
                with warnings.catch_warnings(record=True) as w:
                    warnings.simplefilter("always")
                    try:
                        df, _ = read_swc(io.StringIO(text), fix_roots=mode, sort_nodes=srt, reset_index=rst)
                        ws = []
                        for x in w:
                            k = [i for i, t in enumerate(WARN) if str(x.message).startswith(t)]
                            ws.append(k[0] if len(k) == 1 else -9)
                        res["dispatch"][f"{mode}/{int(srt)}/{int(rst)}"] = {
                            "id": df["id"].tolist(), "pid": df["pid"].tolist(), "type": df["type"].tolist(),
                            "r4": [int(round(4 * float(v))) for v in df["r"].tolist()], "warn": ws}
                    except Exception as e:  # noqa: BLE001
                        res["dispatch"][f"{mode}/{int(srt)}/{int(rst)}"] = {"exc": type(e).__name__}
        # the copying spellings (no trailing underscore): the same tables, and the frame handed in is left alone
        try:
            from swcgeom.core.swc_utils import link_roots_to_nearest, mark_roots_as_somas, reset_index

            with warnings.catch_warnings():
                warnings.simplefilter("ignore")
                raw, _ = read_swc(io.StringIO(text), fix_roots=False, reset_index=False)
                keep = raw.copy()
                a1, a2, a3 = mark_roots_as_somas(raw), link_roots_to_nearest(raw), reset_index(raw)
                res["copying"] = {"somas": a1["pid"].tolist(), "nearest": a2["pid"].tolist(), "reset_id": a3["id"].tolist(), "reset_pid": a3["pid"].tolist(),
                                  "input_unchanged": bool(raw.equals(keep))}
        except Exception as e:  # noqa: BLE001
            res["copying"] = {"exc": type(e).__name__, "msg": str(e)[:200]}
        # ... and every one of them (sort_nodes included) with the whole frames: the result AND the frame handed in after the call
        res["gcopying"] = copying_frames(text)
        return res

    def lines(self, case, res):
        out = []
        a = f"ids={gen.ints(case['ids'])} pids={gen.ints(case['pids'])}"
        nroots = sum(1 for p in case["pids"] if p == -1)
        out += copying_lines(res.get("gcopying", []))
        if "exc" not in res.get("somas", {"exc": 1}) and nroots > 1:
            out.append((f"somas {a} types={gen.ints(case['types'])} ut=1", f"{gen.ints(res['somas']['pid'])} / {gen.ints(res['somas']['type'])}"))
            # the definition generated from mark_roots_as_somas_ on this run (translator cross-check)
            out.append((f"gsomas {a} types={gen.ints(case['types'])} ut=1", f"{gen.ints(res['somas']['pid'])} / {gen.ints(res['somas']['type'])}"))
        if "exc" not in res.get("nearest", {"exc": 1}) and nroots > 1:
            xs, ys, zs = zip(*case["xyz"])
            out.append((f"nearest {a} x={gen.ints(xs)} y={gen.ints(ys)} z={gen.ints(zs)}", gen.ints(res["nearest"]["pid"])))
            # the definition generated from link_roots_to_nearest_ on this run (the callback `norm` = squared lattice distances)
            out.append((f"gnearest {a} x={gen.ints(xs)} y={gen.ints(ys)} z={gen.ints(zs)}", gen.ints(res["nearest"]["pid"])))
        # the tail of read_swc (from `# fix swc`) as generated on this run, under every option
        xs, ys, zs = zip(*case["xyz"])
        for key, r in res.get("dispatch", {}).items():
            mode, srt, rst = key.split("/")
            line = (f"greadfix {a} types={gen.ints(case['types'])} rs={gen.ints([int(round(4 * v)) for v in case['r']])} "
                    f"x={gen.ints(xs)} y={gen.ints(ys)} z={gen.ints(zs)} mode={'F' if mode == 'False' else mode} sort={srt} reset={rst}")
            want = "E" if "exc" in r else " / ".join(gen.ints(r[c]) for c in ("id", "pid", "type", "r4", "warn"))
            out.append((line, want))
        return out

    def oracle(self, case, res):
        if "exc" in res:
            return [("repair-raises", f"{res['exc']}: {res.get('msg')}")]
        ids, pids = case["ids"], case["pids"]
        n = len(ids)
        nroots = sum(1 for p in pids if p == -1)
        first_root = next(k for k, p in enumerate(pids) if p == -1)
        out = []
        for mode in ("False", "somas", "nearest"):
            r = res[mode]
            if "exc" in r:
                out.append((f"multiroot-read-raises/{mode}", f"reading a file with {nroots} root(s), ids from {case['base']}, fix_roots={mode} raised {r['exc']}: {r['msg']}"))
                continue
            if r["id"] != ids:
                out.append((f"repair-ids/{mode}", "ids changed"))
            for c, want in (("type", case["types"]), ("x", [p[0] for p in case["xyz"]]), ("y", [p[1] for p in case["xyz"]]),
                            ("z", [p[2] for p in case["xyz"]]), ("r", case["r"])):
                if [float(v) for v in r[c]] != [float(v) for v in want]:
                    out.append((f"repair-attrs/{mode}", f"column {c} changed by fix_roots={mode}: {r[c][:6]} vs {want[:6]}")); break
            if mode == "False":
                if r["pid"] != pids:
                    out.append(("read-changes-parents", f"plain read changed parents {pids} → {r['pid']}"))
                if nroots > 1 and not any("not a simple tree" in x for x in r["warn"]):
                    out.append(("multiroot-no-warning", "several roots but no warning"))
                # re-based read keeps every root's -1
                if [p == -1 for p in r["reset_pid"]] != [p == -1 for p in pids]:
                    out.append(("reset-index-roots", f"reset_index changed which nodes are roots: {pids} → {r['reset_pid']}"))
                # ... and every edge: the re-based parent of a row is the re-based id of its original parent's row
                pos0 = {v: k for k, v in enumerate(ids)}
                if len(r["reset_id"]) == n and len(r["reset_pid"]) == n and len(set(r["reset_id"])) == n and (ids[first_root] - 1) not in pids:
                    for k in range(n):
                        if pids[k] != -1 and pids[k] in pos0 and r["reset_pid"][k] != r["reset_id"][pos0[pids[k]]]:
                            out.append(("reset-index-edges", f"reset_index: row {k} had parent id {pids[k]} (row {pos0[pids[k]]}); afterwards its parent "
                                                             f"is {r['reset_pid'][k]} but that row's id is {r['reset_id'][pos0[pids[k]]]}")); break
                continue
            # repaired: single root = first root; original edges kept; acyclic & connected
            rp = r["pid"]
            if [k for k, p in enumerate(rp) if p == -1] != [first_root]:
                out.append((f"repair-single-root/{mode}", f"fix_roots={mode}: roots after repair at rows {[k for k, p in enumerate(rp) if p == -1]}, first root is row {first_root}"))
                continue
            for k in range(n):
                if pids[k] != -1 and rp[k] != pids[k]:
                    out.append((f"repair-edges/{mode}", f"row {k}: original parent {pids[k]} became {rp[k]}")); break
            pos = {v: k for k, v in enumerate(ids)}
            if any(p != -1 and p not in pos for p in rp):
                out.append((f"repair-dangling/{mode}", "a repaired parent names no node")); continue
            pp = [-1 if p == -1 else pos[p] for p in rp]
            _, nc = components(n, pp)
            if nc != 1 or has_cycle(n, pp):
                out.append((f"repair-not-a-tree/{mode}", f"fix_roots={mode}: result has {nc} component(s), cycle={has_cycle(n, pp)}: {rp}"))
        out += copying_oracle(res.get("gcopying", []))
        c = res.get("copying", {})
        if "exc" in c:
            out.append(("copying-repair-raises", f"{c['exc']}: {c['msg']}"))
        elif c:
            if not c["input_unchanged"]:
                out.append(("copying-repair-mutates", "mark_roots_as_somas / link_roots_to_nearest / reset_index changed the frame they were given"))
            for nm, mode, key in (("somas", "somas", "pid"), ("nearest", "nearest", "pid"), ("reset_id", "False", "reset_id"), ("reset_pid", "False", "reset_pid")):
                r = res[mode]
                if "exc" not in r and c[nm] != r[key]:
                    out.append((f"copying-repair-differs/{nm}", f"the copying spelling gives {c[nm]}, the reader with the same option gives {r[key]}"))
        return out[:3]

    def nontrivial(self, case, res):
        return sum(1 for p in case["pids"] if p == -1) >= 2

class Reread(Suite):
    """the SAME multi-root file, on disk or in memory, asked several times in a row with different options (repair mode x
    reset_index x sort_nodes) through every way of naming it (str path, path relative to the current directory, pathlib.Path,
    open handle, StringIO): every single answer is judged as if it were the only one — the property is stated per reading, so
    nothing of an earlier call (a repair, a renumbering) may show in a later one"""
    name = "c18.reread"
    INPUTS = ["str", "str", "Path", "relative", "handle", "stringio"]

    def cases(self, rng, tier, widen):
        big = tier == "thorough" or widen
        # (not the `/first-root-not-min` tables: a REPAIRED link may name `first root's id - 1`, which reset_index_ turns into a second root at HEAD —
        # design_notes/session4/repair.md, possible defect of the library, reported there with its replay, not part of this oracle)
        forests = [c for c in Repair().cases(rng, "quick", False) if sum(1 for p in c["pids"] if p == -1) >= 2 and "/first-root-not-min" not in c["class"]]
        out = []
        for k, f in enumerate(forests[:(90 if big else 36)]):
            opt = lambda: {"mode": rng.choice([False, False, "somas", "nearest"]), "reset": rng.random() < 0.5, "sort": rng.random() < 0.15}
            calls = [opt() for _ in range(rng.choice([2, 2, 3, 4]))]
            if k % 4 == 3:
                calls = [dict(calls[0]) for _ in calls]                     # the same question again and again
            elif all(c == calls[0] for c in calls):
                calls[-1]["mode"] = "somas" if calls[0]["mode"] is False else False
            if k % 4 == 0:                                                   # guaranteed: a repairing read first, a plain read later
                calls[0]["mode"] = rng.choice(["somas", "nearest"]); calls[-1]["mode"] = False; calls[-1]["sort"] = False
            c = dict(f)
            c["input"] = self.INPUTS[k % len(self.INPUTS)] if k < 12 else rng.choice(self.INPUTS)
            c["calls"] = calls
            c["rewrite"] = rng.random() < 0.2       # the file is written again (same text) between the calls
            kind = "same-options" if all(x == calls[0] for x in calls) else "mixed-options"
            c["class"] = f"{c['input']}/{kind}/{len(calls)}calls" + ("/rewritten" if c["rewrite"] else "")
            out.append(c)
        return out

    def run(self, case):
        import os
        import pathlib
        import shutil
        import tempfile

        from swcgeom.core.swc_utils import is_single_root, read_swc

        n = len(case["ids"])
        text = "# fragments\n" + "".join(
            f"{case['ids'][k]} {case['types'][k]} {case['xyz'][k][0]} {case['xyz'][k][1]} {case['xyz'][k][2]} {case['r'][k]!r} {case['pids'][k]}\n" for k in range(n))
        tmp = os.path.realpath(tempfile.mkdtemp(prefix="c18_"))
        fn = os.path.join(tmp, "forest.swc")
        cwd = os.getcwd()
        res = {"calls": []}
        try:
            with open(fn, "w", encoding="utf-8") as f:
                f.write(text)
            os.chdir(tmp)
            for k, c in enumerate(case["calls"]):
                if k and case.get("rewrite"):
                    with open(fn, "w", encoding="utf-8") as f:
                        f.write(text)
                fh = None
                src = {"str": fn, "Path": pathlib.Path(fn), "relative": "forest.swc", "stringio": None, "handle": None}[case["input"]]
                if case["input"] == "stringio":
                    src = io.StringIO(text)
                elif case["input"] == "handle":
                    src = fh = open(fn, "r", encoding="utf-8")
                with warnings.catch_warnings(record=True) as w:
                    warnings.simplefilter("always")
                    try:
                        df, _ = read_swc(src, fix_roots=c["mode"], reset_index=c["reset"], sort_nodes=c["sort"])
                        r = {col: df[col].tolist() for col in ("id", "pid", "type", "x", "y", "z", "r")}
                        r["warn"] = [str(x.message)[:40] for x in w]
                        r["single"] = bool(is_single_root(df))
                        res["calls"].append(r)
                    except Exception as e:  # noqa: BLE001
                        res["calls"].append({"exc": type(e).__name__, "msg": str(e)[:200]})
                    finally:
                        if fh is not None:
                            fh.close()
        finally:
            os.chdir(cwd)
            shutil.rmtree(tmp, ignore_errors=True)
        return res

    def oracle(self, case, res):
        if not isinstance(res, dict) or "exc" in res or not isinstance(res.get("calls"), list) or len(res["calls"]) != len(case["calls"]):
            return [("reread-raises", f"{res.get('exc')}: {res.get('msg')}" if isinstance(res, dict) else repr(res)[:200])]
        ids, pids = case["ids"], case["pids"]
        n = len(ids)
        nroots = sum(1 for p in pids if p == -1)
        first_root = next(k for k, p in enumerate(pids) if p == -1)
        spell = lambda c: f"fix_roots={c['mode']!r}, reset_index={c['reset']}, sort_nodes={c['sort']}"
        out = []
        for k, (c, r) in enumerate(zip(case["calls"], res["calls"])):
            mode = str(c["mode"])
            what = f"read #{k + 1} of the same {case['input']} input ({spell(c)}) after [{'; '.join(spell(x) for x in case['calls'][:k])}]"
            if isinstance(r, dict) and "exc" in r and c["sort"] and mode == "False":
                continue            # sort_nodes_ demands a single root (its own precondition, outside this property): kept as history only
            if not isinstance(r, dict) or "exc" in r:
                out.append((f"reread-raises/{mode}", f"{what} raised {r.get('exc') if isinstance(r, dict) else r}: {r.get('msg') if isinstance(r, dict) else ''}"))
                continue
            try:
                rid, rp = [int(v) for v in r["id"]], [int(v) for v in r["pid"]]
                cols = {col: [float(v) for v in r[col]] for col in ("type", "x", "y", "z", "r")}
                ok = len(rid) == len(rp) == n and all(len(v) == n for v in cols.values())
            except (KeyError, TypeError, ValueError):
                ok = False
            if not ok:
                out.append((f"reread-nodes/{mode}", f"{what}: not the {n} nodes of the file")); continue
            roots = [j for j, p in enumerate(rp) if p == -1]
            if mode == "False" and nroots > 1 and not any("not a simple tree" in x for x in r.get("warn") or []):
                out.append(("reread-no-warning", f"{what}: the file has {nroots} roots but there is no warning"))
            if len(roots) != (nroots if mode == "False" else 1):
                out.append((f"reread-roots/{mode}", f"{what}: the file has {nroots} roots, the table returned has roots at rows {roots}"))
            pos = {v: j for j, v in enumerate(rid)}
            if len(pos) == n and all(p == -1 or p in pos for p in rp):
                _, nc = components(n, [-1 if p == -1 else pos[p] for p in rp])
                if r.get("single") != (nc == 1):
                    out.append((f"reread-is-single-root/{mode}", f"{what}: is_single_root says {r.get('single')} on a table with {nc} component(s)"))
            if c["sort"]:
                continue            # renumbered by the sorter: rows are compared by the other suites
            shift = ids[first_root] if c["reset"] else 0
            if rid != [v - shift for v in ids]:
                out.append((f"reread-ids/{mode}", f"{what}: ids {rid[:8]}, the file has {ids[:8]} (shift {shift})")); continue
            want = {"type": case["types"], "x": [p[0] for p in case["xyz"]], "y": [p[1] for p in case["xyz"]], "z": [p[2] for p in case["xyz"]], "r": case["r"]}
            for col, v in want.items():
                if cols[col] != [float(x) for x in v]:
                    out.append((f"reread-attrs/{mode}", f"{what}: column {col} differs from the file")); break
            wp = [-1 if p == -1 else p - shift for p in pids]
            if mode == "False":
                if rp != wp:
                    out.append(("reread-changes-parents", f"{what}: parents {rp} but the file says {wp}"))
                continue
            if roots != [first_root]:
                continue
            if any(wp[j] != -1 and rp[j] != wp[j] for j in range(n)):
                out.append((f"reread-edges/{mode}", f"{what}: an original edge was lost: {wp} -> {rp}")); continue
            pp = [-1 if p == -1 else pos.get(p, -2) for p in rp]
            if -2 in pp or components(n, pp)[1] != 1 or has_cycle(n, pp):
                out.append((f"reread-not-a-tree/{mode}", f"{what}: result is not one tree: {rp}"))
        return out[:3]

    def nontrivial(self, case, res):
        return len(case["calls"]) >= 2


SUITES = [DsuScripts(), Checkers(), Repair(), Reread()]
TECHNIQUE = ("Lean 4 theorems: the union-find model (path compression + union by rank) answers same-set queries exactly as the equivalence closure of the "
             "unions performed so far, for every operation history (invariant: ranks strictly increase along parent pointers; find preserves every root); "
             "has_cyclic / is_bifurcate / is_sorted / pointer-jumping / root-repair models characterised + differential correspondence on union/find scripts, "
             "ALL parent tables with n ≤ 5 and multi-root files + independent graph oracles; "
             "the methods of dsu.py and base.get_dsu are additionally TRANSLATED to Lean on every run (harness/translate_algo.py → Gen/AlgoDsu.lean, Gen/AlgoCheckers.lean) and proved to refine the models "
             "(every script: RefineDsu.script_refines_init, C18.generated_dsu_refines_partition; every table, every fuel, failures included: RefineCheckers.getDsu_refines, C18.generated_getDsu_total); "
             "the generated definitions are also run against the real code")
LEVEL_TEXT = ("Kernel-checked for every history of unions and queries on n elements: is_same_set answers true exactly when the two elements are connected "
              "by the unions so far. Kernel-checked characterisations of has_cyclic (first row that joins two already connected nodes), is_bifurcate, "
              "is_sorted, of the pointer-jumping labelling (on EVERY forest, in any numbering, the loop stops within the modelled pass budget at the labelling 'root of my tree', so all labels are "
              "equal exactly when there is one root; on ANY table whose parents name rows, cycles included, the loop stops within the modelled pass budget — the sum of orbit sizes drops in every pass that changes anything — and two rows carry the same label exactly when they are weakly connected, so is_single_root answers 'one weak component'), and of the two root repairs (single root = first root, other rows untouched; the nearest-root repair of ANY forest, for any distances, returns an acyclic single-rooted table — each root is linked below a row of another component). "
              "The models are compared with the code on every parent table with at most 5 nodes and on random larger ones.")
LEVEL_NOTE = ("Trusted: Lean kernel; the imperative translator + its semantics library Model/Py.lean for dsu.py (cross-checked by running the generated code against the real class); hand-written models tied by exhaustive small-table and random correspondence; the total-correctness theorems of pointer jumping and the tree theorem of the nearest-root repair are stated for row-numbered ids (0..n-1), other numberings through the correspondence.")
