"""C02 — SWC reading keeps every data row, in order, or fails loudly."""
import io
import os
import re
import shutil
import sys
import tempfile
import warnings

import numpy as np

from harness import gen
from harness.framework import Suite

PID = "C02"
TRANSLATE = True
TRANSLATE_ALGO = ["AlgoParse", "AlgoReadFront"]   # Gen/AlgoParse.lean is regenerated on every run from io.py::parse_swc (the read loop and its context) and file.py::FileReader.__exit__
DRIVER_FILES = ["SwcVerif/Model/AlgoRunParse.lean", "SwcVerif/Model/AlgoRunReadFront.lean"]
LEAN_MODS = ["SwcVerif.Props.C02", "SwcVerif.Props.C02Gen", "SwcVerif.Props.C02Front"]
THEOREMS = [
    "C02.exit_flag_pinned", "C02.consts_pinned", "C02.read_ok_iff", "C02.read_row_count", "C02.read_never_partial", "C02.swallow_truncates",
    "C02.blank_and_comment_skipped", "C02.data_line_fields", "C02.natOf_append", "C02.float_token_value", "C02.too_few_fields_invalid",
    "C02.trailing_fields_only_warn", "C02.exponent_is_trailing_char", "C02.glued_suffix_not_a_tail",
    # the read loop and FileReader.__exit__ as TRANSLATED from the source on every run (Gen/AlgoParse.lean)
    "RefineParse.parse_refines", "RefineParse.loop_valid", "RefineParse.loop_invalid", "RefineParse.columns",
    "C02.generated_parse_eq_spec", "C02.generated_read_ok_iff", "C02.generated_columns", "C02.generated_never_partial",
    "C02.generated_decode_fails_loudly", "C02.generated_warning_iff", "C02.generated_exit_propagates",
    "C02.line_agrees", "C02.generated_ok_iff_model", "C02.generated_error_iff_model",
    # the front end (FileReader.__init__ / __enter__, detect_encoding, the extras statement: Gen/AlgoReadFront.lean) and the composition
    # front end + read loop + tail of read_swc
    "RefineReadFront.detect_encoding_eq", "RefineReadFront.file_reader_init_eq", "RefineReadFront.file_reader_enter_init",
    "RefineReadFront.parse_swc_extras_eq", "RefineReadFront.openReader_eq", "RefineReadFront.parseSwcFull_eq", "RefineReadFront.readSwcFull_eq",
    "C02.generated_detect_encoding", "C02.generated_open_reader", "C02.generated_extras", "C02.table_column",
    "C02.generated_read_swc_rows", "C02.generated_read_swc_invalid", "C02.generated_read_swc_decode", "C02.generated_norm_dispatch",
    "C02.generated_read_swc_sort_ignores_reset",
    "RefineReadFront.read_swc_front_eq", "RefineReadFront.parse_swc_prologue_eq", "C02.generated_names", "C02.generated_read_swc_front",
    "C02.generated_prologue", "RefineReadFront.tree_from_swc_eq", "RefineReadFront.from_eswc_extras_eq", "C02.generated_tree_from_swc",
    "C02.generated_from_eswc_extras",
]
TRUSTED = ["hand-written recogniser of the SWC line language (Model/SwcText.lean), tested equal to CPython's `re` on generated lines, pinned to the regex strings extracted from io.py (Gen/Consts.lean)"]
ASSUMPTIONS = ["CPython re / int() / float() / str methods / text decoding / universal newlines", "pandas DataFrame construction from the collected columns"]

FLOAT_SPELL = ["{i}", "{i}.", "{i}.{f}", ".{f}", "{i}e{e}", "{i}.{f}E-{e}", "+{i}.{f}", "-{i}.{f}", "-{i}", "{i}.{f}e+{e}", "0{i}.{f}0"]


LONG_SPELL = ["0.30000000000000004", "73357.736589430185", "6.42306e-20", "1.7976931348623157e308", "5e-324", "3.14159265358979323846264338327950288",
              "0.1000000000000000055511151231257827", "9007199254740993", "1.00000000000000011102230246251565", "123456789.123456789e-5", "2.2250738585072011e-308",
              "8.5e-1", "4.35", "0.000001", "1e23", "17.299999999999997", "-0.7000000000000001"]


def spell_float(rng):
    if rng.random() < 0.12:
        # every float spelling the line grammar admits, incl. more digits than a double holds: the value is the correctly rounded double
        s = rng.choice(LONG_SPELL) if rng.random() < 0.6 else f"{rng.randint(0, 99999)}.{rng.randint(0, 10**17):017d}"
        return s, float(s)
    s = rng.choice(FLOAT_SPELL).format(i=rng.randint(0, 999), f=rng.choice(["5", "25", "125", "0", "75", "0625"]), e=rng.randint(0, 3))
    return s, float(s)


def ws(rng, nonempty=True):
    k = rng.choice([1, 1, 1, 2, 3]) if nonempty else rng.choice([0, 0, 1, 2])
    return "".join(rng.choice([" ", " ", "\t"]) for _ in range(k))


def make_text(rng, tree_ids, tree_pids, n_extra=0, with_tail=False):
    """grammar-directed text; returns (text, rows, comments)"""
    lines, rows, comments = [], [], []
    eol = rng.choice(["\n", "\n", "\r\n"])
    for i, p in zip(tree_ids, tree_pids):
        while rng.random() < 0.25:
            kind = rng.choice(["comment", "blank", "ws", "lead-comment"])
            if kind == "comment":
                c = rng.choice([" a comment", "x=1 y=2", " ", "", " id is first", "# double"])
                lines.append("#" + c + eol); comments.append(c)
            elif kind == "lead-comment":
                c = " indented"
                lines.append(ws(rng) + "#" + c + eol); comments.append(c)
            elif kind == "blank":
                lines.append(eol)
            else:
                lines.append(ws(rng) + eol)
        ty = rng.randint(0, 7)
        fl = [spell_float(rng) for _ in range(4 + n_extra)]
        toks = [str(i) if rng.random() < 0.9 else "0" + str(i), str(ty)] + [f[0] for f in fl[:4]] + [str(p)] + [f[0] for f in fl[4:]]
        tail = ""
        if with_tail and rng.random() < 0.5:
            # fields beyond the requested columns: any numbers of the line grammar (integers, decimals, exponent spellings)
            tail = ws(rng) + " ".join((str(rng.randint(0, 9)) if rng.random() < 0.5 else spell_float(rng)[0]) for _ in range(rng.randint(1, 3)))
        line = ws(rng, False) + ws(rng).join(toks) + tail + ws(rng, False)
        lines.append(line + eol)
        rows.append({"id": i, "type": ty, "x": fl[0][1], "y": fl[1][1], "z": fl[2][1], "r": fl[3][1], "pid": p,
                     "extra": [f[1] for f in fl[4:]]})
    text = "".join(lines)
    if rng.random() < 0.3 and text.endswith("\n") and not text.endswith("\r\n"):
        text = text[:-1]
    return text, rows, comments


MALFORM = ["few-fields", "nonnumeric", "float-id", "junk-suffix", "neg-type", "float-pid-word", "comma", "inline-hash", "glued-suffix"]


def malformed_line(rng, kind):
    good = ["7", "3", "1.5", "2.5", "3.5", "1.0", "6"]
    if kind == "few-fields":
        k = rng.randint(1, 6)
        return " ".join(good[:k])
    if kind == "nonnumeric":
        pos = rng.randrange(7)
        g = good[:]
        g[pos] = rng.choice(["abc", "x1", "1x", "NaN", "--1", "1..2", "1e", "e5", "0x10"])
        return " ".join(g)
    if kind == "float-id":
        g = good[:]; g[0] = "7.5"
        return " ".join(g)
    if kind == "junk-suffix":
        return " ".join(good) + " abc"
    if kind == "inline-hash":      # a row with a remark after it is not a data row, and it is not a comment line either
        return " ".join(good) + rng.choice([" # note", "  #7", " #"]) if rng.random() < 0.7 else " ".join(good[:4]) + " # x 1.0 6"
    if kind == "glued-suffix":     # the parent id is not an integer: nothing of it may be read as one
        return " ".join(good[:6]) + " " + rng.choice(["6e5", "6.5", "6,5", "6-1", "6+", "6E+2"])
    if kind == "neg-type":
        g = good[:]; g[1] = "-3"
        return " ".join(g)
    if kind == "float-pid-word":
        g = good[:]; g[6] = "root"
        return " ".join(g)
    return ",".join(good)


# --- ids of any magnitude --------------------------------------------------------------------------------------------------------------
# "arbitrary distinct ids": an id is an integer token of the line grammar and comes back as that integer. Besides the small ids of ordinary
# files the generator places ids next to the limits of every numeric type a table could pass through on its way (int16, float32's 2**24,
# int32, uint32, float64's 2**53, the upper end of int64) and spreads them sparsely over the whole int64 range. (The table's id column is
# int64, so ids stay below 2**63.)
ID_MAGS = ["2^15", "2^24", "2^31", "2^32", "2^53", "2^62", "int64-top", "sparse"]


def big_id_pool(rng, n, mag, contiguous):
    """n distinct ids (ascending) of the given magnitude"""
    span = n if contiguous else 3 * n + 3
    if mag == "sparse":
        if contiguous:
            lo = rng.randrange(2 ** 40, 2 ** 63 - span)
        else:
            pool = set()
            while len(pool) < n:      # every order of magnitude, anywhere in the range
                pool.add(rng.randrange(2 ** rng.randint(8, 63)))
            return sorted(pool)
    elif mag == "int64-top":
        lo = 2 ** 63 - span - rng.randint(0, 3)
    else:
        t = 2 ** int(mag[2:])
        # straddling the limit, or just above it (odd and even ids alike)
        lo = t - rng.randint(0, span) if rng.random() < 0.4 else t + rng.randint(0, 7)
    return list(range(lo, lo + span)) if contiguous else sorted(rng.sample(range(lo, lo + span), n))


def big_table(rng, pids, mag, shuffled, contiguous=False):
    n = len(pids)
    pool = big_id_pool(rng, n, mag, contiguous)
    order = list(range(n))
    if shuffled:
        rng.shuffle(order)
    return [pool[o] for o in order], [-1 if pids[o] == -1 else pool[pids[o]] for o in order]


# --- bytes that are not text ------------------------------------------------------------------------------------------------------------
# every way a byte string fails to be utf-8, at every place of a file
BAD_BYTES = ["lone-continuation", "lead-then-ascii", "never-valid", "truncated-sequence", "overlong", "surrogate", "bom-like"]
BAD_PLACES = ["comment", "separator", "beside-separator", "in-number", "row-end", "start", "end", "own-line"]
# everything that reads an SWC file: the table reader, the tree front end, and the collections that read their members on access
ENTRIES = ["read_swc", "tree", "population", "population-iter", "lazy-list", "populations", "populations-chain"]


def bad_bytes(rng, kind):
    if kind == "lone-continuation":
        return bytes([rng.randint(0x80, 0xBF)])
    if kind == "lead-then-ascii":       # a lead byte of a 2/3/4-byte sequence (what a legacy code page letter looks like) followed by ASCII
        return bytes([rng.randint(0xC2, 0xF4)])
    if kind == "never-valid":
        return bytes([rng.choice([0xC0, 0xC1] + list(range(0xF5, 0x100)))])
    if kind == "truncated-sequence":
        full = rng.choice(["€", "ü", "𝛼", "é", "µ"]).encode("utf-8")
        return full[: rng.randint(1, len(full) - 1)]
    if kind == "overlong":
        return rng.choice([b"\xc0\xaf", b"\xe0\x80\xaf", b"\xc1\xbf"])
    if kind == "surrogate":
        return rng.choice([b"\xed\xa0\x80", b"\xed\xbf\xbf"])
    return rng.choice([b"\xff\xfe", b"\xfe\xff", b"\xff\xfe\xfa"])


def place_bad_bytes(rng, data, place):
    """(offset, number of bytes replaced, bytes appended to the inserted ones) for an ASCII file `data` with a comment line and a data row"""
    ls = data.split(b"\n")
    starts, o = [], 0
    for ln in ls:
        starts.append(o); o += len(ln) + 1
    rows_ = [k for k, ln in enumerate(ls) if ln.strip() and not ln.lstrip().startswith(b"#")]
    cms = [k for k, ln in enumerate(ls) if ln.lstrip().startswith(b"#")]
    if place == "start":
        return 0, 0, b""
    if place == "end":
        return len(data), 0, b""
    if place == "own-line":
        return starts[rng.randrange(len(ls))], 0, b"\n"
    if place == "comment":
        k = rng.choice(cms)
        return starts[k] + rng.randint(ls[k].index(b"#") + 1, len(ls[k]) - (1 if ls[k].endswith(b"\r") else 0)), 0, b""
    k = rng.choice(rows_)
    ln = ls[k]
    body = [j for j in range(len(ln)) if ln[j:j + 1] not in (b" ", b"\t", b"\r")]
    inner_ws = [j for j in range(body[0], body[-1]) if ln[j:j + 1] in (b" ", b"\t")]
    if place == "row-end":             # after the last field, where blanks may follow
        return starts[k] + body[-1] + 1, 0, b""
    if place == "separator":           # the bad bytes stand where a blank stood
        single = [j for j in inner_ws if j - 1 not in inner_ws and j + 1 not in inner_ws] or inner_ws
        return starts[k] + rng.choice(single), 1, b""
    if place == "beside-separator":
        return starts[k] + rng.choice(inner_ws) + rng.choice([0, 1]), 0, b""
    j = rng.choice([j for j in body if j + 1 in body] or body)   # inside a number
    return starts[k] + j + 1, 0, b""


# --- any whitespace ------------------------------------------------------------------------------------------------------------------------
# "any whitespace": the line grammar separates fields by whitespace, and a line ends at LF / CR LF. Every character that is whitespace
# (str.isspace(), which is what `\\s` means for text) and is not a line end may therefore stand wherever a blank may stand — between two
# fields, at either edge of a line, in front of trailing extra fields, inside a comment, on an otherwise blank line — without changing
# which rows and comments the text has. The set is computed, not listed: VT, FF, the ASCII separators FS/GS/RS/US, NEL, NBSP, the Unicode
# spaces, LINE / PARAGRAPH SEPARATOR, … Every one of them is used in every run, at the places walked round-robin.
WS_PLACES = ["separator", "line-edge", "before-tail", "comment", "blank-line"]
WS_VIAS = ["text", "bytes", "path", "tree", "population", "population-iter", "lazy-list", "populations", "populations-chain"]
_WS_CHARS = []


def ws_chars():
    if not _WS_CHARS:
        _WS_CHARS.extend(chr(c) for c in range(sys.maxunicode + 1) if chr(c).isspace() and chr(c) not in " \t\n\r")
    return list(_WS_CHARS)


def ws_group(ch):
    return "ascii" if ord(ch) < 0x80 else ("latin1" if ord(ch) < 0x100 else "unicode")


def ws_run(rng, ch):
    """a run of whitespace containing `ch`, alone or among blanks"""
    return rng.choice([ch, ch, ch, ch + " ", " " + ch, "\t" + ch, ch + ch, " " + ch + " ", ch + "\t"])


def spell_row(rng, i, p):
    return ws(rng).join([str(i), str(rng.randint(0, 7))] + [spell_float(rng)[0] for _ in range(4)] + [str(p)])


def ws_text(rng, ids, pids, ch, place, nx=0):
    """a text of the line grammar in which the whitespace character `ch` stands at `place`; returns (text, rows, comments)"""
    text, rows, _ = make_text(rng, ids, pids, n_extra=nx)
    eol = "\r\n" if "\r\n" in text else "\n"
    ls = text.split(eol)
    last = ls.pop()                     # "" when the text ends with a line end
    if last:
        ls.append(last); last = None
    is_comment = lambda l: l.lstrip(" \t").startswith("#")
    data = [k for k, l in enumerate(ls) if l.strip(" \t") and not is_comment(l)]
    some = lambda pool, hi: rng.sample(pool, rng.randint(1, min(hi, len(pool))))
    if place == "separator":
        for k in some(data, 3):
            gaps = list(re.finditer(r"(?<=[^ \t])[ \t]+(?=[^ \t])", ls[k]))
            chosen = {g.start() for g in some(gaps, 3)}
            ls[k] = re.sub(r"(?<=[^ \t])[ \t]+(?=[^ \t])", lambda m: ws_run(rng, ch) if m.start() in chosen else m.group(0), ls[k])
    elif place == "line-edge":
        for k in some([k for k, l in enumerate(ls) if l.strip(" \t")], 2):
            side = rng.choice(["lead", "trail", "both"])
            ls[k] = (ws_run(rng, ch) if side != "trail" else "") + ls[k] + (ws_run(rng, ch) if side != "lead" else "")
    elif place == "before-tail":
        # fields beyond the requested columns: any numbers — a few, many, or as many as a row of their own has
        for k in some(data, 2):
            if rng.random() < 0.5:
                tail = spell_row(rng, rng.randint(0, 99), rng.choice([-1, rng.randint(0, 99)]))
                if rng.random() < 0.3:
                    tail += " " + str(rng.randint(0, 9))
            else:
                tail = " ".join((str(rng.randint(0, 9)) if rng.random() < 0.5 else spell_float(rng)[0]) for _ in range(rng.randint(1, 9)))
            ls[k] = ls[k].rstrip(" \t") + ws_run(rng, ch) + tail + ws(rng, False)
    elif place == "comment":
        for _ in range(rng.randint(1, 2)):
            pre = rng.choice([" removed:", " see", "", " node", " soma ", "x"])
            post = (rng.choice(["", " "]) + spell_row(rng, rng.randint(0, 99), rng.choice([-1, rng.randint(0, 99)]))) if rng.random() < 0.5 \
                else rng.choice([" traced by hand", "", "7", " # more", " 1 2 3"])
            ls.insert(rng.randrange(len(ls)), ws(rng, False) + "#" + pre + ws_run(rng, ch) + post)
    else:
        for _ in range(rng.randint(1, 2)):
            ls.insert(rng.randrange(len(ls)), ws_run(rng, ch))
    comments = [l[l.index("#") + 1:] for l in ls if l.lstrip().startswith("#")]
    text = eol.join(ls) + (eol if last is not None else "")
    return text, rows, comments


# --- the same path read again --------------------------------------------------------------------------------------------------------------
# "for all texts … for all read options": what a read returns is a function of the bytes the file holds when it is read and of the options of
# THAT call — whatever the process has read before, from this path or from any other. A program that re-exports a morphology and reads it
# back, or a lazily loading population whose files are updated while it is in use, reads one path several times. A case of this family is a
# SEQUENCE of reads of one path by one entry point in one process; between two reads the file is left as it is, gets other rows, is stored
# in another encoding (same text or other text), gets a malformed line, or loses one. The `encoding` option is absent (utf-8 files), names
# the encoding the file has at that moment, or is 'detect' (files whose encoding a detector identifies from the bytes: ASCII, utf-8 with
# multi-byte text, the BOM-marked encodings). Every read of the sequence is judged like a single read of that file.
REREAD_OPTS = ["default", "named", "detect"]
REREAD_STORES = {"default": ["utf-8"], "named": ["utf-8", "utf-16", "latin-1", "cp1252", "utf-32"], "detect": ["utf-8", "utf-16", "ascii", "utf-8-sig", "utf-32"]}
NOTES_LATIN = [" Zellkörper é ü", " reconstrucción señal niño", " größe in µm ± 0.5", " tracé à la main"]
NOTES_WIDE = [" 神经元 形态 重建", " нейрон дендрит аксон", " νευρώνας δενδρίτης", " ニューロン 樹状突起"]
NOTES_ASCII = [" traced by hand", " neuron 7", " x y z in um"]


def reread_steps(rng, opt, k, force):
    """2–4 states of one file. `force`: a change that the sequence contains for certain ('encoding' | 'rows' | 'malformed' | None)"""
    stores = REREAD_STORES[opt]
    n_steps = rng.choice([2, 2, 3, 4])
    steps, prev = [], None
    forced_at = rng.randrange(1, n_steps)
    for j in range(n_steps):
        change = set()
        if prev is not None:
            if rng.random() < 0.6:
                change.add("rows")
            if len(stores) > 1 and rng.random() < 0.6:
                change.add("encoding")
            if j == forced_at and force in ("rows", "encoding") and (force == "rows" or len(stores) > 1):
                change.add(force)
        if prev is None or "rows" in change:
            pids = gen.parents_sorted(rng, rng.choice([1, 2, 4, 7]), gen.pick_shape(rng, k + j))
            base = rng.choice([0, 1, 1, 5])
            body, rows, comments = make_text(rng, [i + base for i in range(len(pids))], [-1 if p < 0 else p + base for p in pids])
        else:
            body, rows, comments = prev["body"], prev["rows"], prev["body_comments"]
        store = rng.choice([e for e in stores if prev is None or e != prev["store"]] or stores) if prev is None or "encoding" in change else prev["store"]
        def fits(t):
            try:
                t.encode(store)
                return True
            except UnicodeEncodeError:
                return False

        if prev is not None and "rows" not in change and (store == "ascii") == (prev["store"] == "ascii") and fits(prev["note"]):
            note = prev["note"]                      # the same text, left as it is or re-encoded
        else:
            note = rng.choice(NOTES_ASCII if store == "ascii" else (NOTES_LATIN if store in ("latin-1", "cp1252") or rng.random() < 0.4 else NOTES_WIDE))
        bad = None
        if (force == "malformed" and j == forced_at) or rng.random() < 0.15:
            bad = rng.choice(MALFORM)
        text = "#" + note + ("\r\n" if "\r\n" in body else "\n") + body
        step = {"body": body, "body_comments": comments, "note": note, "rows": rows, "comments": [note] + comments, "store": store, "bad": bad,
                "changed": sorted(change)}
        if bad:
            ls = text.split("\n")
            pos = rng.choice([0, len(ls) // 2, max(0, len(ls) - 1)])
            step["bad_pos"] = "first" if pos == 0 else ("middle" if pos == len(ls) // 2 else "last")
            ls.insert(pos, malformed_line(rng, bad))
            text = "\n".join(ls)
        step["text"] = text
        steps.append(step)
        prev = step
    return steps


class Read(Suite):
    name = "c02.read"

    def cases(self, rng, tier, widen):
        out = []
        reps = 6 if tier == "quick" and not widen else 40
        k = 0
        for n in [1, 2, 3, 5, 9] + ([30, 120] if tier == "thorough" or widen else [16]):
            for _ in range(reps):
                shape = gen.pick_shape(rng, k); k += 1
                pids = gen.parents_sorted(rng, n, shape)
                mode = rng.choice(["plain", "plain", "sorted-read", "extra", "tail", "malformed", "malformed", "bytes-bad", "population"])
                if mode == "sorted-read":
                    ids, pp, _ = gen.table_form(rng, pids)
                else:
                    base = rng.choice([0, 1, 1, 5])
                    ids = [i + base for i in range(len(pids))]
                    pp = [-1 if p < 0 else p + base for p in pids]
                nx = rng.randint(1, 2) if mode == "extra" else (rng.choice([0, 1, 2]) if mode == "sorted-read" else 0)
                text, rows, comments = make_text(rng, ids, pp, n_extra=nx, with_tail=(mode == "tail"))
                case = {"class": mode, "mode": mode, "rows": rows, "comments": comments, "n_extra": nx,
                        "reset_index": rng.random() < 0.5, "source": rng.choice(["text", "bytes", "path"])}
                if mode == "plain" and rng.random() < 0.5:
                    # the `encoding` option: a comment with non-ASCII text, the file stored in that encoding (or utf-8 with 'detect')
                    enc = rng.choice(["latin-1", "utf-16", "utf-8", "detect", "cp1252"])
                    note = " Zellkörper é ü"
                    text = "#" + note + ("\r\n" if "\r\n" in text else "\n") + text
                    case["comments"] = [note] + comments
                    case["encoding"] = enc
                    case["source"] = rng.choice(["bytes", "path"])
                    case["class"] = "plain/encoding-" + enc
                if mode in ("malformed", "population"):
                    kind = rng.choice(MALFORM)
                    ls = text.split("\n")
                    pos = rng.choice([0, len(ls) // 2, max(0, len(ls) - 1)])
                    if mode == "population" and rng.random() < 0.4:
                        case["bad"] = None
                    else:
                        ls.insert(pos, malformed_line(rng, kind))
                        case["bad"] = kind
                        case["bad_pos"] = ["first", "middle", "last"][[0, len(ls) // 2, max(0, len(ls) - 1)].index(pos)] if pos in (0, len(ls) // 2, max(0, len(ls) - 1)) else "middle"
                    text = "\n".join(ls)
                    case["class"] = f"{mode}/{case.get('bad')}"
                if mode == "bytes-bad":
                    case["source"] = rng.choice(["bytes", "path"])
                case["text"] = text
                out.append(case)
        # ESWC: the five extra columns of the format (and the caller's own before them), read through the tree front end — twice with the
        # same option objects, as a loop over files does
        for own in (0, 1, 2):
            for _ in range(2):
                pids = gen.parents_sorted(rng, rng.choice([2, 4, 7]), "random")
                text, rows, comments = make_text(rng, [i + 1 for i in range(len(pids))], [-1 if p < 0 else p + 1 for p in pids], n_extra=own + 5)
                out.append({"class": f"eswc/own{own}", "mode": "eswc", "rows": rows, "comments": comments, "n_extra": own + 5, "own": own,
                            "reset_index": True, "source": "text", "text": text})
        # the `encoding` option, every value with both binary source kinds
        for enc in ["latin-1", "utf-16", "utf-8", "detect", "cp1252"]:
            for src in ["bytes", "path"]:
                pids = gen.parents_sorted(rng, 4, "random")
                text, rows, comments = make_text(rng, [i + 1 for i in range(len(pids))], [-1 if p < 0 else p + 1 for p in pids])
                note = " Zellkörper é ü"
                out.append({"class": "plain/encoding-" + enc, "mode": "plain", "rows": rows, "comments": [note] + comments, "n_extra": 0, "reset_index": False,
                            "source": src, "encoding": enc, "text": "#" + note + "\n" + text})
        big = tier == "thorough" or widen
        # ids of any magnitude (every limit, each way of reading): as written (reset_index=False, any distinct ids in any row order),
        # shifted to the root (reset_index=True), sorted (arbitrary ids, arbitrary row order), and through a population directory
        # (`reset` tables keep the documented id convention — the first root carries the smallest id. Files whose root is NOT the smallest id,
        # read with reset_index=True and sort_nodes=False, are not a judgeable family: the unchanged reset_index_ already turns a parent id equal
        # to root_id - 1 into -1 (an extra root, a lost edge) and yields negative ids there — DESIGN §6 'looked at'; sort_nodes=True is the option
        # for arbitrary ids and is asked in `sorted-read`.)
        for mag in ID_MAGS:
            for how in ["raw", "reset", "sorted-read"] + (["population"] if big or mag in ("2^24", "2^53", "sparse") else []):
                for _ in range(6 if big else 1):
                    n = rng.choice([2, 3, 5, 9] + ([40] if big else []))
                    pids = gen.parents_sorted(rng, n, gen.pick_shape(rng, k)); k += 1
                    if how in ("raw", "sorted-read"):
                        ids, pp = big_table(rng, pids, mag, shuffled=(how == "sorted-read" or rng.random() < 0.5))
                    else:
                        ids, pp = big_table(rng, pids, mag, shuffled=False, contiguous=True)
                    nx = rng.choice([0, 0, 1]) if how != "population" else 0
                    text, rows, comments = make_text(rng, ids, pp, n_extra=nx)
                    mode = {"raw": "plain", "reset": "plain"}.get(how, how)
                    out.append({"class": f"big-ids/{mag}/{how}", "mode": mode, "rows": rows, "comments": comments, "n_extra": nx, "bad": None,
                                "reset_index": how != "raw", "source": rng.choice(["text", "bytes", "path"]), "text": text})
        # every entry point that reads a file × (well-formed | malformed line | bytes that are not text): a collection reads its members on
        # access with the options it was given, and what holds for one read holds for each of them
        kinds = BAD_BYTES[:]
        rng.shuffle(kinds)
        nb = 0
        for rep in range(4 if big else 1):
            # per entry point: a well-formed file, malformed lines, undecodable bytes at EVERY place under the default encoding (a place
            # decides what a guessing decoder would make of the bytes: part of a comment, a blank, a broken number), the kinds of bad bytes
            # walked round-robin over (entry, place), and two more with the encoding named by the caller
            combos = [(e, w) for e in ENTRIES for w in ["ok", "row", "row"] + [("bytes", pl) for pl in BAD_PLACES]
                      + [("bytes-enc", rng.choice(BAD_PLACES)) for _ in range(2)]]
            for entry, what in combos:
                place = None
                if isinstance(what, tuple):
                    what, place = what
                pids = gen.parents_sorted(rng, rng.choice([1, 2, 4, 7]), gen.pick_shape(rng, k)); k += 1
                base = rng.choice([0, 1, 1, 5])
                text, rows, comments = make_text(rng, [i + base for i in range(len(pids))], [-1 if p < 0 else p + base for p in pids])
                case = {"mode": "entry", "entry": entry, "rows": rows, "comments": comments, "n_extra": 0, "reset_index": True, "bad": None,
                        "source": rng.choice(["bytes", "path"]) if entry in ("read_swc", "tree") else "path"}
                if what == "row":
                    ls = text.split("\n")
                    pos = rng.choice([0, len(ls) // 2, max(0, len(ls) - 1)])
                    case["bad"] = rng.choice(MALFORM)
                    case["bad_pos"] = "first" if pos == 0 else ("middle" if pos == len(ls) // 2 else "last")
                    ls.insert(pos, malformed_line(rng, case["bad"]))
                    text = "\n".join(ls)
                    case["class"] = f"entry/{entry}/row-{case['bad']}"
                elif what in ("bytes", "bytes-enc"):
                    kind = kinds[nb % len(kinds)]; nb += 1
                    note = rng.choice([" traced by hand", " neuron 7", " x y z in um"])
                    text = "#" + note + "\n" + text
                    case["comments"] = [note] + comments
                    data = text.encode("ascii")
                    off, dele, suffix = place_bad_bytes(rng, data, place)
                    ins = bad_bytes(rng, kind) + suffix
                    try:
                        (data[:off] + ins + data[off + dele:]).decode("utf-8")
                        continue   # (cannot happen for an ASCII text; the case is about bytes that are NOT utf-8)
                    except UnicodeDecodeError:
                        pass
                    case.update({"bad": "bytes", "bad_kind": kind, "bad_place": place, "bad_off": off, "bad_del": dele, "bad_hex": ins.hex()})
                    if what == "bytes-enc":     # the encoding named by the caller (the other half: the default)
                        case["encoding"] = rng.choice(["utf-8", "utf-8", "ascii"])
                    case["class"] = f"entry/{entry}/bytes@{place}"
                else:
                    case["class"] = f"entry/{entry}/ok"
                case["text"] = text
                out.append(case)
            nb += 1      # the next round pairs every (entry, place) with the next kind
        # any whitespace: every whitespace character that is not a line end, at every place a blank may stand, through every way of reading
        chars = ws_chars()
        vias = WS_VIAS[:]
        j = 0
        for rnd in range(8 if big else 2):
            rng.shuffle(chars); rng.shuffle(vias)
            for ch in chars:
                place = WS_PLACES[(j + rnd) % len(WS_PLACES)]
                via = vias[j % len(vias)]; j += 1
                pids = gen.parents_sorted(rng, rng.choice([1, 2, 3, 5]), gen.pick_shape(rng, k)); k += 1
                base = rng.choice([0, 1, 1, 5])
                nx = rng.choice([0, 0, 1]) if via in ("text", "bytes", "path") else 0
                text, rows, comments = ws_text(rng, [i + base for i in range(len(pids))], [-1 if p < 0 else p + base for p in pids], ch, place, nx)
                case = {"class": f"ws/{place}/{ws_group(ch)}", "ws_cp": ord(ch), "ws_place": place, "rows": rows, "comments": comments, "n_extra": nx,
                        "bad": None, "text": text}
                if via in ("text", "bytes", "path"):
                    case.update({"mode": "plain", "source": via, "reset_index": rng.random() < 0.5})
                    if via != "text" and rng.random() < 0.3:     # the `encoding` option, the file stored in that encoding
                        case["encoding"] = rng.choice(["utf-8", "utf-16"] + (["latin-1"] if ord(ch) < 0x100 else []))
                else:
                    case.update({"mode": "entry", "entry": via, "source": rng.choice(["bytes", "path"]) if via == "tree" else "path", "reset_index": True})
                out.append(case)
        # the same path read again (file unchanged / other rows / re-encoded / malformed line added or removed in between), through every entry
        # point, with every way of giving the encoding
        combos = [(e, o, f) for e in ENTRIES for o, f in [("default", rng.choice(["rows", "malformed", None])), ("named", "encoding"), ("detect", "encoding"),
                                                          ("detect", rng.choice(["encoding", "rows", None]))]]
        for rep in range(4 if big else 1):
            for entry, opt, force in combos:
                steps = reread_steps(rng, opt, k, force); k += 1
                ch = sorted({c for st in steps for c in st["changed"]} | ({"malformed"} if any(st["bad"] for st in steps) else set()))
                out.append({"class": f"reread/{entry}/{opt}/{'+'.join(ch) or 'unchanged'}", "mode": "reread", "entry": entry, "opt": opt, "steps": steps,
                            "rows": steps[0]["rows"], "text": steps[0]["text"]})
        return out

    def run(self, case):
        from swcgeom.core import Population, Tree
        from swcgeom.core.swc_utils import read_swc

        if case["mode"] == "reread":
            return self.run_reread(case)
        text = case["text"]
        enc = case.get("encoding")
        data = text.encode("utf-8" if enc in (None, "detect") else enc)
        if case["mode"] == "bytes-bad":
            data = data[: len(data) // 2] + b"\xff\xfe\xfa" + data[len(data) // 2:]
        tmp = None
        kw = {}
        if enc:
            kw["encoding"] = enc
        if case["mode"] == "sorted-read":
            kw["sort_nodes"] = True
        else:
            kw["reset_index"] = case["reset_index"]
        if case["n_extra"]:
            kw["extra_cols"] = [f"e{i}" for i in range(case["n_extra"])]
        if case["mode"] == "eswc":
            from swcgeom.core import Tree

            own = [f"own{j}" for j in range(case["own"])]
            opts = list(own)
            out_ = []
            with warnings.catch_warnings():
                warnings.simplefilter("ignore")
                for _rep in range(2):
                    t = Tree.from_eswc(io.StringIO(text), extra_cols=opts) if case["own"] or _rep else Tree.from_eswc(io.StringIO(text))
                    names = own + ["level", "mode", "timestamp", "teraflyindex", "feature_value"]
                    out_.append({"keys": sorted(str(k) for k in t.keys()), "extra": {k: [float(v) for v in t.get_ndata(k)] if k in t.keys() else None for k in names},
                                 "x": [float(v) for v in t.x()], "pid": t.pid().tolist()})
            return {"eswc": out_, "via": "eswc", "df": {"id": list(range(len(case["rows"])))}, "comments": [], "warnings": []}
        if case["mode"] == "entry":
            return self.run_entry(case, data, kw)
        try:
            if case["mode"] == "population":
                tmp = tempfile.mkdtemp(prefix="c02_")
                with open(os.path.join(tmp, "a.swc"), "w", newline="") as f:
                    f.write("1 1 0 0 0 1 -1\n2 3 1 0 0 1 1\n")
                with open(os.path.join(tmp, "b.swc"), "w", newline="") as f:
                    f.write(text)
                pop = Population.from_swc(tmp)
                with warnings.catch_warnings(record=True) as w:
                    warnings.simplefilter("always")
                    t = pop[[os.path.basename(x) for x in pop.trees.swcs].index('b.swc')]
                df = {k: np.asarray(t.get_ndata(k)).tolist() for k in ["id", "type", "x", "y", "z", "r", "pid"]}
                return {"df": df, "comments": list(t.comments), "warnings": [str(x.message)[:60] for x in w], "via": "population"}
            if case["source"] == "path" or (case["mode"] == "bytes-bad" and case["source"] == "path"):
                tmp = tempfile.mkdtemp(prefix="c02_")
                src = os.path.join(tmp, "t.swc")
                with open(src, "wb") as f:
                    f.write(data)
            elif case["source"] == "bytes":
                src = io.BytesIO(data)
            else:
                src = io.StringIO(text, newline=None) if "\r" in text else io.StringIO(text)
            with warnings.catch_warnings(record=True) as w:
                warnings.simplefilter("always")
                df, comments = read_swc(src, **kw)
            cols = {k: df[k].tolist() for k in df.columns}
            res = {"df": cols, "comments": list(comments), "warnings": [str(x.message)[:60] for x in w], "via": "read_swc"}
            if case["n_extra"] and case["mode"] in ("extra", "sorted-read") and case["source"] == "text":
                # the same text through the tree front end: the requested extra columns are per-node data of the tree
                from swcgeom.core import Tree

                with warnings.catch_warnings():
                    warnings.simplefilter("ignore")
                    t = Tree.from_swc(io.StringIO(text, newline=None) if "\r" in text else io.StringIO(text), **kw)
                res["tree_keys"] = sorted(str(k) for k in t.keys())
                res["tree_extra"] = {f"e{j}": [float(v) for v in t.get_ndata(f"e{j}")] if f"e{j}" in t.keys() else None for j in range(case["n_extra"])}
                res["tree_x"] = [float(v) for v in t.x()]
            return res
        finally:
            if tmp:
                shutil.rmtree(tmp, ignore_errors=True)

    def run_entry(self, case, data, kw):
        """one file read through one of the entry points; an exception of the READ is part of the result ("raised"), anything else that
        goes wrong here is the harness's (reported as such, never taken for the loud failure the property asks for)"""
        if case.get("bad") == "bytes":
            off = case["bad_off"]
            data = data[:off] + bytes.fromhex(case["bad_hex"]) + data[off + case["bad_del"]:]
        tmp = tempfile.mkdtemp(prefix="c02_")
        try:
            return self.read_via(case["entry"], tmp, data, kw, case["source"] == "bytes")
        finally:
            shutil.rmtree(tmp, ignore_errors=True)

    def run_reread(self, case):
        """the states of one file written to ONE path one after the other, each read by the same entry point in this process"""
        tmp = tempfile.mkdtemp(prefix="c02_")
        try:
            out = []
            for st in case["steps"]:
                kw = {"reset_index": True}
                if case["opt"] != "default":
                    kw["encoding"] = "detect" if case["opt"] == "detect" else st["store"]
                out.append(self.read_via(case["entry"], tmp, st["text"].encode(st["store"]), kw, False, other_encoding=st["store"]))
            return {"steps": out, "via": case["entry"]}
        finally:
            shutil.rmtree(tmp, ignore_errors=True)

    def read_via(self, entry, tmp, data, kw, from_bytes, other_encoding="ascii"):
        """`data` stored as <tmp>/p/b.swc (next to other members of the collections) and read through `entry`"""
        from swcgeom.core import Population, Populations, Tree
        from swcgeom.core.population import LazyLoadingTrees
        from swcgeom.core.swc_utils import read_swc

        other = "1 1 0 0 0 1 -1\n2 3 1 0 0 1 1\n".encode(other_encoding)
        d1, d2 = os.path.join(tmp, "p"), os.path.join(tmp, "q")
        os.makedirs(d1, exist_ok=True); os.makedirs(d2, exist_ok=True)
        path = os.path.join(d1, "b.swc")
        for fn, content in [(path, data), (os.path.join(d1, "a.swc"), other), (os.path.join(d2, "b.swc"), other), (os.path.join(d2, "c.swc"), other)]:
            with open(fn, "wb") as f:
                f.write(content)
        src = io.BytesIO(data) if from_bytes else path
        # building a collection may already read a member, so it belongs to the read
        def member(pop):
            return [os.path.basename(x) for x in pop.trees.swcs].index("b.swc")

        def both():
            pops = Populations.from_swc([d1, d2], **kw)      # the files both directories have: b.swc
            assert len(pops) == 1, len(pops)
            return pops

        read = {
            "population": lambda: (lambda pop: pop[member(pop)])(Population.from_swc(d1, **kw)),
            "population-iter": lambda: (lambda pop: list(pop)[member(pop)])(Population.from_swc(d1, **kw)),
            "lazy-list": lambda: Population(LazyLoadingTrees([path], **kw))[0],
            "populations": lambda: both()[0][0],
            "populations-chain": lambda: both().to_population()[0],
            "tree": lambda: Tree.from_swc(src, **kw),
            "read_swc": lambda: read_swc(src, **kw),
        }[entry]
        with warnings.catch_warnings(record=True) as w:
            warnings.simplefilter("always")
            try:
                got = read()
            except Exception as e:  # noqa: BLE001 - the oracle decides
                return {"raised": type(e).__name__, "msg": str(e)[:200], "via": entry}
        ws_ = [str(x.message)[:60] for x in w]
        if entry == "read_swc":
            df, comments = got
            return {"df": {c: df[c].tolist() for c in df.columns}, "comments": list(comments), "warnings": ws_, "via": "read_swc"}
        return {"df": {c: np.asarray(got.get_ndata(c)).tolist() for c in ["id", "type", "x", "y", "z", "r", "pid"]},
                "comments": list(got.comments), "warnings": ws_, "via": entry}

    def oracle(self, case, res):
        try:
            return self._oracle(case, res)
        except Exception as e:  # noqa: BLE001 - a result the oracle cannot even read (missing column, wrong size, None) is not what the file says
            return [("malformed-output", f"the result of the read cannot be compared with the file ({type(e).__name__}: {e}); result {str(res)[:200]}")]

    def _oracle(self, case, res):
        rows = case["rows"]
        mode = case["mode"]
        if mode == "reread":
            # every read of the sequence is a read of the text the file holds at that moment: judged like a single read through this entry
            if "exc" in res:
                return [("entry-harness-error", f"the harness failed before/after a read via {case['entry']}: {res['exc']}: {res.get('msg')}")]
            steps = case["steps"]
            if not isinstance(res.get("steps"), list) or len(res["steps"]) != len(steps):
                return [("malformed-output", f"{len(steps)} reads, results {str(res)[:200]}")]
            out = []
            for j, (st, r) in enumerate(zip(steps, res["steps"])):
                sub = {"mode": "entry", "entry": case["entry"], "rows": st["rows"], "comments": st["comments"], "n_extra": 0, "reset_index": True,
                       "bad": st["bad"], "bad_pos": st.get("bad_pos"), "text": st["text"]}
                hist = " -> ".join(f"{s_['store']}{' (malformed line)' if s_['bad'] else ''}" for s_ in steps[: j + 1])
                opt = {"default": "no encoding option", "named": f"encoding={st['store']!r}", "detect": "encoding='detect'"}[case["opt"]]
                for key, msg in self.oracle(sub, r):
                    out.append((key, f"read #{j + 1} of one path, {opt}; the file was written as {hist}"
                                     f"{' (changed since the last read: ' + ', '.join(st['changed']) + ')' if st['changed'] else ''}: {msg}"))
                if out:
                    return out
            return out
        if mode == "entry":
            if "exc" in res:
                return [("entry-harness-error", f"the harness failed before/after the read via {case['entry']}: {res['exc']}: {res.get('msg')}")]
            if case.get("bad"):
                if "raised" in res:
                    return []
                what = (f"bytes that are not {case.get('encoding', 'utf-8 (the default encoding)')} ({case['bad_kind']}: {case['bad_hex']} at offset {case['bad_off']}, {case['bad_place']})"
                        if case["bad"] == "bytes" else f"malformed line ({case['bad']}) at the {case.get('bad_pos')} position")
                return [(f"malformed-accepted/{'decode' if case['bad'] == 'bytes' else 'row'}",
                         f"{what}: reading returned a table with {len(res['df']['id'])} rows (file has {len(rows)} valid rows), comments {res['comments']!r}, "
                         f"instead of raising; via {res['via']}; warnings {res['warnings']}")]
            if "raised" in res:
                return [("valid-text-rejected", f"well-formed text rejected via {case['entry']} with {res['raised']}: {res.get('msg')}; text={case['text'][:200]!r}")]
        bad = mode == "bytes-bad" or (mode in ("malformed", "population") and case.get("bad"))
        if bad:
            if "exc" in res:
                return []
            n_got = len(res["df"]["id"])
            what = "undecodable bytes" if mode == "bytes-bad" else f"malformed line ({case['bad']}) at the {case.get('bad_pos')} position"
            return [(f"malformed-accepted/{'decode' if mode == 'bytes-bad' else 'row'}",
                     f"{what}: reading returned a table with {n_got} rows (file has {len(rows)} valid rows) instead of raising; via {res['via']}")]
        if mode == "eswc" and "exc" not in res:
            names = [f"own{j}" for j in range(case["own"])] + ["level", "mode", "timestamp", "teraflyindex", "feature_value"]
            for rep, o in enumerate(res["eswc"]):
                for j, k in enumerate(names):
                    want = [float(np.float32(r["extra"][j])) for r in rows]
                    if o["extra"][k] is None or any(abs(a - b) > 1e-6 * max(1.0, abs(b)) for a, b in zip(o["extra"][k], want)):
                        return [("eswc-column", f"read #{rep + 1}: column {k} of Tree.from_eswc is {str(o['extra'][k])[:60]}, the file says {want[:6]}")]
            return []
        if "exc" in res:
            return [("valid-text-rejected", f"well-formed text rejected with {res['exc']}: {res.get('msg')}; text={case['text'][:200]!r}")]
        df = res["df"]
        out = []
        n = len(rows)
        if len(df["id"]) != n:
            return [("row-count", f"{len(df['id'])} nodes for {n} data rows")]
        if "tree_extra" in res:
            # Tree.from_swc(extra_cols=…): same rows as read_swc (float32 storage), extra columns included
            for j in range(case["n_extra"]):
                got = res["tree_extra"][f"e{j}"]
                if got is None:
                    out.append(("tree-extra-col-dropped", f"Tree.from_swc(extra_cols=[…'e{j}'…]) has no per-node column 'e{j}' (keys {res['tree_keys']})")); break
                want = [float(np.float32(v)) for v in df[f"e{j}"]]
                if len(got) != len(want) or any(abs(a - b) > 1e-6 * max(1.0, abs(b)) for a, b in zip(got, want)):
                    out.append(("tree-extra-col", f"Tree.from_swc: extra column e{j} is {got[:6]}…, the table read from the same text has {want[:6]}…")); break
        if mode == "sorted-read":
            # isomorphic to the file's graph: identify nodes by their (unique by construction? no) row -> use full attribute tuple + id map
            by_attr = {}
            for r in rows:
                by_attr.setdefault((r["type"], r["x"], r["y"], r["z"], r["r"], *r["extra"]), []).append(r)
            if df["id"] != list(range(n)):
                out.append(("sorted-ids", "sorted read does not number nodes 0..n-1"))
            # greedy match respecting parents: new node k ↔ old id
            old_of = {}
            ok = True
            idmap = {r["id"]: r for r in rows}
            for k in range(n):
                key = (df["type"][k], df["x"][k], df["y"][k], df["z"][k], df["r"][k], *[df[f"e{j}"][k] for j in range(case["n_extra"])])
                cands = [r for r in by_attr.get(key, []) if r["id"] not in old_of.values()]
                if df["pid"][k] == -1:
                    cands = [r for r in cands if r["pid"] == -1]
                else:
                    if not (0 <= df["pid"][k] < k):
                        out.append(("sorted-order", f"node {k} has parent {df['pid'][k]}")); ok = False; break
                    cands = [r for r in cands if r["pid"] == old_of.get(df["pid"][k])]
                if not cands:
                    ok = False
                    out.append(("sorted-isomorphism", f"node {k} of the sorted read matches no row of the file (all fields, extra columns included) with the corresponding parent")); break
                old_of[k] = cands[0]["id"]
            return out
        shift = 0
        if case["reset_index"] or mode == "population":
            shift = next(r["id"] for r in rows if r["pid"] == -1)
        for k, r in enumerate(rows):
            exp = {"id": r["id"] - shift, "type": r["type"], "x": r["x"], "y": r["y"], "z": r["z"], "r": r["r"],
                   "pid": -1 if r["pid"] == -1 else r["pid"] - shift}
            for c, v in exp.items():
                g = df[c][k]
                if c in ("id", "type", "pid") or res["via"] == "read_swc":
                    same = g == v
                else:
                    # a tree stores float32: compare with the value as float32 holds it (beyond 3.4e38 that is inf, below 1e-45 it is 0)
                    with np.errstate(over="ignore"):
                        v32 = float(np.float32(v))
                    same = (g == v32) or abs(g - v32) <= 1e-6 * max(1.0, abs(v32))
                if not same:
                    out.append(("field-value", f"row {k} field {c}: read {g}, file says {v} (shift {shift})"))
                    return out
            for j, v in enumerate(r["extra"]):
                if df[f"e{j}"][k] != v:
                    out.append(("extra-col", f"row {k} extra column {j}: read {df[f'e{j}'][k]}, file says {v}")); return out
        if (res["via"] == "read_swc" or mode == "entry") and res["comments"] != case["comments"]:
            out.append(("comments", f"comments read {res['comments']!r}, file has {case['comments']!r}"))
        return out

    def nontrivial(self, case, res):
        if case["mode"] == "reread":
            return any(st["changed"] for st in case["steps"])
        return len(case["rows"]) >= 2

    def klass(self, case, res):
        raised = "exc" in res or "raised" in res or any(isinstance(r, dict) and "raised" in r for r in (res.get("steps") or []) if case.get("mode") == "reread")
        return case["class"] + ("/raised" if raised else "")


# --- an option value in every form its declared type admits --------------------------------------------------------------------------------
# "for all read options (… extra_cols …)": `extra_cols` is declared Iterable[str]. Which columns are requested is a matter of the NAMES the
# iterable yields, not of the container: a list, a tuple, a dict (its keys), a keys view, the pieces of a split header line, or a one-shot
# iterator over them (generator, map, iter, reversed, a csv row being consumed) request the same columns. One-shot forms go through the
# entry points that read once per call; the re-iterable ones also through the collections, which read every member with the same options.
XCOL_FORMS_MULTI = ["list", "tuple", "dict", "dict-keys", "split"]
XCOL_FORMS_ONCE = ["generator", "map", "iter", "reversed", "csv-row", "zip-unpack"]
XCOL_NAMES = ["e{j}", "col{j}", "f_{j}", "label{j}", "w{j}"]


def xcol_names(case):
    return [case["name_pat"].format(j=j) for j in range(case["n_extra"])]


def xcol_object(form, names):
    """the requested names as an object of the given form (built at the call, as a caller does)"""
    import csv

    if form == "list":
        return list(names)
    if form == "tuple":
        return tuple(names)
    if form == "dict":
        return {n: None for n in names}
    if form == "dict-keys":
        return {n: None for n in names}.keys()
    if form == "split":
        return ",".join(names).split(",") if names else []
    if form == "generator":
        return (n for n in names)
    if form == "map":
        return map(str.strip, [" " + n + " " for n in names])
    if form == "iter":
        return iter(list(names))
    if form == "reversed":
        return reversed(list(names)[::-1])
    if form == "csv-row":
        return iter(next(csv.reader([",".join(names)]), [])) if names else iter([])
    if form == "zip-unpack":
        return (n for n, _ in zip(names, range(len(names))))
    raise ValueError(form)


ALPHABET = " \t0123456789.+-eE#,x\n\r"


def mutate(rng, line):
    if not line:
        return rng.choice(ALPHABET)
    k = rng.randrange(len(line))
    op = rng.choice(["del", "ins", "rep", "dup"])
    c = rng.choice(ALPHABET)
    if op == "del":
        return line[:k] + line[k + 1:]
    if op == "ins":
        return line[:k] + c + line[k:]
    if op == "dup":
        return line[:k] + line[k] + line[k:]
    return line[:k] + c + line[k + 1:]


class Recogniser(Suite):
    """model of parse_swc (recogniser + loop) against the real parse_swc, text by text"""
    name = "c02.recogniser"

    def cases(self, rng, tier, widen):
        out = []
        big = tier == "thorough" or widen
        n1 = 400 if big else 60
        for _ in range(n1):
            nx = rng.choice([0, 0, 0, 1, 2])
            text, _, _ = make_text(rng, [rng.randint(0, 99)], [rng.choice([-1, rng.randint(0, 99)])], n_extra=nx + rng.choice([0, 0, 1]) - rng.choice([0, 0, 1]) if nx else rng.choice([0, 0, 1]),
                                   with_tail=rng.random() < 0.4)
            line = text
            out.append({"class": "valid-ish", "text": line, "nx": nx})
            m = line
            for _ in range(rng.randint(1, 3)):
                m = mutate(rng, m)
            out.append({"class": "mutated", "text": m, "nx": nx})
        for _ in range(n1):
            out.append({"class": "malformed", "text": malformed_line(rng, rng.choice(MALFORM)) + rng.choice(["\n", "", "\r\n"]), "nx": rng.choice([0, 0, 1])})
            out.append({"class": "soup", "text": "".join(rng.choice(ALPHABET) for _ in range(rng.randint(0, 24))), "nx": rng.choice([0, 0, 1])})
        for s in ["", "\n", " \n", "#", "#\n", " # x\n", "# id type x y z r pid\n", "#   id type x y z r pid extra\n", "#id type x y z r pid\n",
                  "1 1 0 0 0 1 -1", "1 1 0 0 0 1 -1.5\n", "1 1 0 0 0 1 6.5 \n", "1 1 0 0 0 1 -1,2\n", "1 1 0 0 0 1 --1\n", "1 1 1e 0 0 1 -1\n",
                  "1 1 1.e5 .5e-2 +.5 1. -1\n", "1 1 . 0 0 1 -1\n", "01 007 0 0 0 1 -01\n", "1 1 0 0 0 1 -1 # c\n", "1 1 0 0 0 1 -1\t\x0b\x0c\n",
                  "1 1 0 0 0 1 -1\x1c\n", "1\x1f1 0 0 0 1 -1\n", "+1 1 0 0 0 1 -1\n", "1 1 0 0 0 1 +1\n", "1 1 0 0 0 1 1 2 3\n", "1 1 0 0 0 1e2 5e1\n"]:
            for nx in (0, 1):
                out.append({"class": "edge", "text": s, "nx": nx})
        k = 0
        for _ in range(40 if big else 10):
            n = rng.choice([2, 3, 6, 15])
            pids = gen.parents_sorted(rng, n, gen.pick_shape(rng, k)); k += 1
            nx = rng.choice([0, 0, 1])
            text, _, _ = make_text(rng, list(range(1, len(pids) + 1)), [-1 if p < 0 else p + 1 for p in pids], n_extra=nx, with_tail=rng.random() < 0.3)
            out.append({"class": "file", "text": text, "nx": nx})
            ls = text.split("\n")
            ls.insert(rng.randrange(len(ls) + 1), malformed_line(rng, rng.choice(MALFORM)))
            out.append({"class": "file-bad", "text": "\n".join(ls), "nx": nx})
        return out

    def run(self, case):
        from harness import swctext

        return swctext.run_parse_swc(case["text"], case["nx"])

    def lines(self, case, res):
        from harness import swctext

        if "exc" in res:
            return []
        return [(f"swcread nx={case['nx']} cp={swctext.cps(case['text'])}", swctext.expect_read(res))]

    def oracle(self, case, res):
        if "exc" in res:
            return [("parse-internal-error", f"parse_swc raised {res['exc']} (not the documented ValueError) on {case['text']!r}: {res.get('msg')}")]
        return []

    def nontrivial(self, case, res):
        return len(case["text"]) > 4

    def klass(self, case, res):
        k = "error" if "error" in res else ("exc" if "exc" in res else f"rows{min(len(res['cols']['id']), 2)}c{min(len(res['comments']), 1)}w{int(res['warned'])}")
        return case["class"] + "/" + k


# --- the GENERATED read loop (Gen/AlgoParse.lean: parse_swc + FileReader.__exit__ translated from the current source) ---------------------

def real_re_swc(nx):
    """the compiled `re_swc` the real `parse_swc` uses for `nx` extra columns (a local of the function: captured from its `re.compile` call)"""
    import re as _re

    from swcgeom.core.swc_utils import io as io_mod
    from swcgeom.core.swc_utils.base import get_names

    class Proxy:
        def __init__(self):
            self.compiled = []

        def compile(self, *a, **k):
            r = _re.compile(*a, **k)
            self.compiled.append(r)
            return r

        def __getattr__(self, n):
            return getattr(_re, n)

    px, old = Proxy(), io_mod.re
    io_mod.re = px
    try:
        io_mod.parse_swc(io.StringIO(""), names=get_names(None), extra_cols=[f"e{i}" for i in range(nx)] or None)
    finally:
        io_mod.re = old
    return px.compiled[-1]


class GenLoop(Suite):
    """the loop of parse_swc as GENERATED from the source (driver op `gparse`), fed the outcome of the real `re_swc.search`, `RE_COMMENT.match`,
    `str.isspace` on every line the real file iterator yields, against the real `parse_swc` on the same text / bytes"""
    name = "c02.genloop"

    def cases(self, rng, tier, widen):
        big = tier == "thorough" or widen
        out = [dict(c, src="text") for c in Recogniser().cases(rng, tier, widen)]
        if not big:
            keep = [c for c in out if c["class"] in ("edge", "file", "file-bad")]
            rest = [c for c in out if c["class"] not in ("edge", "file", "file-bad")]
            out = keep + rest[:120]
        k = 0
        for rep in range(40 if big else 12):
            # bytes that are not utf-8: in a small file (nothing is yielded before the decoder fails) and beyond the first 8 KiB chunk of a
            # large one (the lines before it ARE processed first: an invalid line among them wins, a table is never returned)
            n = rng.choice([2, 5, 9]) if rep % 3 else rng.choice([400, 700])
            pids = gen.parents_sorted(rng, n, gen.pick_shape(rng, k)); k += 1
            nx = rng.choice([0, 0, 1])
            text, _, _ = make_text(rng, list(range(1, len(pids) + 1)), [-1 if p < 0 else p + 1 for p in pids], n_extra=nx, with_tail=rng.random() < 0.3)
            ls = text.split("\n")
            bad_line = rng.random() < 0.4
            if bad_line:
                ls.insert(rng.randrange(len(ls) + 1), malformed_line(rng, rng.choice(MALFORM)))
            data = "\n".join(ls).encode("ascii")
            kind = rng.choice(BAD_BYTES)
            off = rng.randrange(len(data) + 1) if n < 100 and rng.random() < 0.7 else len(data) - rng.randrange(min(len(data), 200))
            data = data[:off] + bad_bytes(rng, kind) + data[off:]
            out.append({"class": f"bytes/{'large' if n > 100 else 'small'}{'/bad-line' if bad_line else ''}", "data": data.hex(), "nx": nx, "src": "bytes"})
        return out

    def run(self, case):
        import re as _re
        from io import BytesIO, StringIO, TextIOWrapper

        from swcgeom.core.swc_utils import io as io_mod
        from swcgeom.core.swc_utils.base import get_names

        nx = case["nx"]
        names = get_names(None)
        extras = [f"e{i}" for i in range(nx)]
        # (a) the real function
        src = StringIO(case["text"]) if case["src"] == "text" else BytesIO(bytes.fromhex(case["data"]))
        with warnings.catch_warnings(record=True) as w:
            warnings.simplefilter("always")
            try:
                df, comments = io_mod.parse_swc(src, names=names, extra_cols=extras or None)
                real = {"cols": [[k, df[k].tolist()] for k in df.columns], "comments": list(comments)}
            except ValueError as e:
                real = {"error": type(e).__name__, "msg": str(e)}
        real["warn"] = [str(x.message) for x in w]
        real["closed"] = bool(src.closed)
        # (b) what the file iterator yields, and what the three tests of the real code say about every line
        it = iter(StringIO(case["text"])) if case["src"] == "text" else iter(TextIOWrapper(BytesIO(bytes.fromhex(case["data"])), encoding="utf-8"))
        lines, fail = [], False
        while True:
            try:
                lines.append(next(it))
            except StopIteration:
                break
            except UnicodeDecodeError:
                fail = True
                break
        re_swc = real_re_swc(nx)
        transforms = [int, int, float, float, float, float, int] + [float] * nx
        header = " ".join(names.cols())
        table, ctable, toks = [], [], []
        for line in lines:
            m = re_swc.search(line)
            if m is None:
                r = "-"
            else:
                ids = []
                for j, tr in enumerate(transforms):
                    table.append(tr(m.group(j + 1))); ids.append(len(table) - 1)
                r = f"{int(bool(m.group(7 + nx + 1)))}:{','.join(map(str, ids))}"
            mc = io_mod.RE_COMMENT.match(line)
            if not mc:
                c = "-"
            else:
                text = line[len(mc.group(0)):].removesuffix("\n")
                ctable.append(text)
                c = str(-len(ctable) if text.lstrip().startswith(header) else len(ctable))
            toks.append(f"{r}/{c}/{int(line.isspace())}")
        return {"real": real, "line": f"gparse cols={','.join(names.cols())} extras={','.join(extras) or '_'} open=1 fail={int(fail)} lines={';'.join(toks) or '_'}",
                "table": [repr(v) for v in table], "ctable": ctable, "nlines": len(lines), "fail": fail}

    def lines(self, case, res):
        from harness import swctext

        if "exc" in res:
            return []
        real, table, ctable = res["real"], res["table"], res["ctable"]

        def fn(got):
            import re as _re

            if "error" in real:
                m = _re.fullmatch(r"error (\w+) args=(-?\d*) closed=(\d) warn=([\d,]*) msg=(.*)", got)
                if not m or m.group(1) != real["error"] or bool(int(m.group(3))) != real["closed"]:
                    return False
                if not real["msg"].startswith(m.group(5).split("{")[0]):
                    return False
                mr = _re.search(r"invalid row (\d+)", real["msg"])
                if (m.group(2) or None) != (mr.group(1) if mr else None):
                    return False
                warn = m.group(4)
            else:
                m = _re.fullmatch(r"ok closed=(\d) warn=([\d,]*) cols=(.*) comments=([-\d,]*)", got)
                if not m or bool(int(m.group(1))) != real["closed"]:
                    return False
                cols = [c.split(":") for c in m.group(3).split("|")]
                if [c[0] for c in cols] != [k for k, _ in real["cols"]]:
                    return False
                for (k, toks), (_, vals) in zip(cols, real["cols"]):
                    if [table[int(t)] for t in toks.split(",") if t] != [repr(v) for v in vals]:
                        return False
                if [ctable[abs(int(t)) - 1] for t in m.group(4).split(",") if t] != real["comments"]:
                    return False
                warn = m.group(2)
            rows = [int(_re.search(r"in row (\d+)", x).group(1)) for x in real["warn"] if "some fields are ignored" in x]
            return [int(t) for t in warn.split(",") if t] == rows and len(rows) == len(real["warn"])

        return [(res["line"], swctext.Expect(fn, "real=" + repr(real)[:1500]))]

    def oracle(self, case, res):
        if "exc" in res:
            return [("parse-internal-error", f"parse_swc / the line classification raised {res['exc']}: {res.get('msg')}")]
        real = res["real"]
        # the property itself, on the real function's I/O: a decode failure or a line that none of the three tests accepts never yields a table
        if res["fail"] and "error" not in real:
            return [("malformed-accepted/decode", f"the decoder failed after {res['nlines']} lines and parse_swc returned a table")]
        return []

    def nontrivial(self, case, res):
        return res.get("nlines", 0) >= 1

    def klass(self, case, res):
        if "exc" in res:
            return case["class"] + "/exc"
        r = res["real"]
        return case["class"] + "/" + ("error-" + ("decode" if "decode" in r["msg"] else "row") if "error" in r else f"ok-w{len(r['warn'])}")

# --- the front end of the reader as GENERATED (T37 `readfront`) ----------------------------------------------------------------------------
RF_KINDS = ["stringio", "textwrapper", "bytes", "path"]
RF_ENCODINGS = ["utf-8", "latin-1", "utf-16", "detect", "ascii", "UTF-8"]   # codec names Python knows (an unknown name: LookupError in TextIOWrapper / open, not modelled)
RF_CHARDET = ["real", [None, 0.0], ["ascii", 0.5], ["utf-8", 0.9], ["", 0.99], ["Windows-1252", 0.73], ["utf-8", 0.8999999999999999], [None, 1.0]]
RF_LOWC = [None, 0.9, 0.5, 0.0, 1.0, 0.73]
RF_EXTRA = ["None", "empty", "two", "one", "tuple"]


class ReadFront(Suite):
    """`FileReader.__init__` / `__enter__`, `detect_encoding` and the `extras` statement of `parse_swc` as GENERATED from the source (driver op
    `greadfront`) against the real objects: which of `fname` / `fb` / `f` is set, the encoding finally used, what `__enter__` returns (the caller's
    stream, a TextIOWrapper over the caller's BytesIO, the file opened by name), the low-confidence warning, the extra column keys"""
    name = "c02.readfront"

    def cases(self, rng, tier, widen):
        out = []
        for kind in RF_KINDS:
            for enc in RF_ENCODINGS:
                for cd in RF_CHARDET:
                    if enc != "detect" and cd != "real" and rng.random() < 0.8:
                        continue
                    out.append({"class": f"{kind}/{'detect' if enc == 'detect' else 'named'}", "kind": kind, "encoding": enc, "chardet": cd,
                                "lowc": rng.choice(RF_LOWC), "enc0": rng.choice(["utf-8", "latin-1", "utf-16"]), "extra": rng.choice(RF_EXTRA)})
        return out

    def run(self, case):
        import os
        import tempfile
        from fractions import Fraction
        from io import BytesIO, StringIO, TextIOWrapper

        import chardet

        from swcgeom.core.swc_utils import io as io_mod
        from swcgeom.core.swc_utils.base import get_names
        from swcgeom.utils import file as file_mod

        text = "# a\n1 1 0 0 0 1 -1 5 6\n2 3 1 0 0 1 1 7 8\n"
        kind, tmp = case["kind"], None
        if kind == "stringio":
            src, enc0 = StringIO(text), None
        elif kind == "textwrapper":
            src = TextIOWrapper(BytesIO(text.encode("ascii")), encoding=case["enc0"]); enc0 = src.encoding
        elif kind == "bytes":
            src, enc0 = BytesIO(text.encode("ascii")), None
        else:
            fd, tmp = tempfile.mkstemp(suffix=".swc"); os.write(fd, text.encode("ascii")); os.close(fd)
            src, enc0 = tmp, None
        answers, real_detect = [], chardet.detect

        def detect(data, *a, **k):
            r = real_detect(data, *a, **k) if case["chardet"] == "real" else {"encoding": case["chardet"][0], "confidence": case["chardet"][1]}
            answers.append([r["encoding"], r["confidence"]])
            return r

        def show(x, rd):
            if x is None:
                return "None"
            if isinstance(x, str):
                return f"path:{x}"
            if x is src:
                return "bytes:1" if isinstance(x, BytesIO) else f"text:1:{x.encoding}"
            if isinstance(x, TextIOWrapper) and x.buffer is src:
                return f"wrapped:1:{x.encoding}"
            if isinstance(x, TextIOWrapper) and x.name == src:
                return f"opened:{x.name}:{x.encoding}"
            return f"?{type(x).__name__}"

        kw = {} if case["lowc"] is None else {"low_confidence": case["lowc"]}
        chardet.detect = detect
        try:
            with warnings.catch_warnings(record=True) as w:
                warnings.simplefilter("always")
                try:
                    rd = file_mod.FileReader(src, encoding=case["encoding"], **kw)
                    f = rd.__enter__()
                    real = {"fname": show(rd.fname, rd), "fb": show(rd.fb, rd), "f": show(rd.f, rd), "encoding": str(rd.encoding), "ret": show(f, rd)}
                    rd.__exit__(None, None, None)
                except Exception as e:  # noqa: BLE001
                    real = {"error": type(e).__name__, "msg": str(e)}
            real["warn"] = [str(x.message) for x in w]
        finally:
            chardet.detect = real_detect
            if tmp:
                os.unlink(tmp)
        # the extra column keys: the real parse_swc
        xc = {"None": None, "empty": [], "two": ["a", "b"], "one": ["w"], "tuple": ("p", "q")}[case["extra"]]
        with warnings.catch_warnings():
            warnings.simplefilter("ignore")
            df, _ = io_mod.parse_swc(StringIO(text), names=get_names(None), extra_cols=xc)
        real["extras"] = list(df.columns[7:])
        # the prologue: the regex text parse_swc compiles, its number of groups, the dtype pandas infers per column, the header comment
        nx = len(real["extras"])
        rx = real_re_swc(nx)
        xrow = "".join(f" {7 + j}.5" for j in range(nx))
        with warnings.catch_warnings():
            warnings.simplefilter("ignore")
            df2, cm2 = io_mod.parse_swc(StringIO("# " + " ".join(get_names(None).cols()) + "\n#k\n1 1 0 0 0 1 -1" + xrow + "\n"), names=get_names(None), extra_cols=xc)
        real["prologue"] = {"re": rx.pattern, "groups": rx.groups, "tf": [{"int64": 0, "float64": 1}[str(t)] for t in df2.dtypes],
                            "hdr": " ".join(get_names(None).cols()), "hdr_dropped": list(cm2) == ["k"]}
        det, conf = answers[0] if answers else [None, 0.0]
        lowc = 0.9 if case["lowc"] is None else case["lowc"]
        fc, fl = Fraction(conf), Fraction(lowc)
        line = (f"greadfront kind={'text' if kind in ('stringio', 'textwrapper') else kind} enc0={enc0} name={tmp or '-'} encoding={case['encoding']} "
                f"det={'None' if det is None else (det or '_')} conf={fc.numerator * fl.denominator} lowc={fl.numerator * fc.denominator} "
                f"extra={'None' if xc is None else (','.join(xc) or '_')}")
        return {"real": real, "line": line, "ncalls": len(answers)}

    def lines(self, case, res):
        if "exc" in res:
            return []
        r = res["real"]
        if "error" in r:
            return [(res["line"], "E")]
        low = [x for x in r["warn"] if "low confidence" in x]
        exp = (f"ok fname={r['fname']} fb={r['fb']} f={r['f']} encoding={r['encoding']} ret={r['ret']} warn={'0' if low else ''} "
               f"extras={','.join(r['extras']) or '_'}")
        pr = r["prologue"]
        return [(res["line"], exp),
                (f"gprologue extra={','.join(r['extras']) or '_'}",
                 f"re={pr['re']} last={pr['groups']} tf={','.join(map(str, pr['tf']))} hdr={pr['hdr']}")]

    def oracle(self, case, res):
        if "exc" not in res and not res["real"].get("prologue", {}).get("hdr_dropped", True):
            return [("header-comment-kept", "the column header comment was returned as a comment")]
        if "exc" in res:
            return [("readfront-internal-error", f"the harness raised {res['exc']}: {res.get('msg')}")]
        return []

    def klass(self, case, res):
        if "exc" in res:
            return case["class"] + "/exc"
        r = res["real"]
        return case["class"] + "/" + ("error" if "error" in r else ("warn" if r["warn"] else "quiet"))


TF_EXC = ["ok", "ValueError", "KeyError", "FileNotFoundError", "TypeError", "RuntimeError", "IndexError", "OSError"]


class TreeFront(Suite):
    """`Tree.from_swc` (error wrapping, `source`, what is handed to `from_data_frame`) and the `extra_cols` of `Tree.from_eswc` as GENERATED
    from the source (driver ops `gtreefromswc`, `gtreefromeswc`) against the real methods with `read_swc` / `from_data_frame` / `from_swc` stubbed"""
    name = "c02.treefront"

    def cases(self, rng, tier, widen):
        out = []
        for kind in ["text", "bytes", "path"]:
            for rd in TF_EXC:
                for fdf in (TF_EXC if rd == "ok" else ["ok", "ValueError"]):
                    out.append({"class": f"{kind}/read-{'ok' if rd == 'ok' else 'raises'}/fdf-{'ok' if fdf == 'ok' else 'raises'}", "kind": kind,
                                "read": rd, "fdf": fdf, "name": rng.choice(["a.swc", "/tmp/x/b.swc", "../c.swc", "d"]),
                                "extra": rng.choice(["None", "empty", "two", "one"])})
        return out

    def run(self, case):
        import builtins
        import os
        from io import BytesIO, StringIO

        from swcgeom.core import tree as tree_mod

        src = {"text": StringIO(""), "bytes": BytesIO(b""), "path": case["name"]}[case["kind"]]
        seen = {}

        def read_stub(f, **kw):
            seen["read"] = [f is src, sorted(kw)]
            if case["read"] != "ok":
                raise getattr(builtins, case["read"])("stub")
            return ("DF", "CM")

        def fdf_stub(df, source="", comments=None, **kw):
            seen["fdf"] = [df, source, comments, sorted(kw)]
            if case["fdf"] != "ok":
                raise getattr(builtins, case["fdf"])("stub")
            return "TREE"

        old_read, old_fdf = tree_mod.read_swc, tree_mod.Tree.__dict__["from_data_frame"]
        tree_mod.read_swc, tree_mod.Tree.from_data_frame = read_stub, staticmethod(fdf_stub)
        try:
            try:
                r = tree_mod.Tree.from_swc(src, marker=1)
                real = {"ok": r == "TREE"}
            except Exception as e:  # noqa: BLE001
                real = {"error": type(e).__name__, "msg": str(e), "cause": type(e.__cause__).__name__ if e.__cause__ else None}
        finally:
            tree_mod.read_swc = old_read
            tree_mod.Tree.from_data_frame = old_fdf
        real["seen"] = seen
        real["abs"] = os.path.abspath(case["name"])
        # from_eswc: what reaches from_swc
        xc = {"None": None, "empty": [], "two": ["a", "b"], "one": ["w"]}[case["extra"]]
        got = {}
        old_fs = tree_mod.Tree.__dict__["from_swc"]
        tree_mod.Tree.from_swc = classmethod(lambda cls, f, **kw: got.update(kw) or "T")
        try:
            tree_mod.Tree.from_eswc("f.eswc", extra_cols=xc, marker=2)
        finally:
            tree_mod.Tree.from_swc = old_fs
        real["eswc"] = {"extra_cols": list(got.get("extra_cols")), "keys": sorted(got), "caller_list_untouched": xc in (None, [], ["a", "b"], ["w"])}
        real["xc"] = xc
        return {"real": real}

    def lines(self, case, res):
        if "exc" in res:
            return []
        r = res["real"]
        line = f"gtreefromswc kind={case['kind']} name={case['name']} read={case['read']} fdf={case['fdf']}"
        if "error" in r:
            if case["read"] != "ok":
                ok = r["error"] == "ValueError" and r["msg"].startswith("fails to read swc: ") and r["cause"] == case["read"] and "fdf" not in r["seen"]
                exp = "error ValueError msg=fails to read swc: {swc_file}" if ok else "<the real from_swc did not wrap the exception>"
            else:
                exp = f"error {r['error']} msg=stub"
        else:
            df, source, comments, kw = r["seen"]["fdf"]
            ok = r["ok"] and df == "DF" and comments == "CM" and kw == [] and r["seen"]["read"] == [True, ["marker"]]
            if case["kind"] == "path":
                ok = ok and source == r["abs"]
                exp = f"ok source=ABS({case['name']})" if ok else "<the real from_swc handed over something else>"
            else:
                exp = f"ok source={source}" if ok else "<the real from_swc handed over something else>"
        xc = r["xc"]
        return [(line, exp),
                (f"gtreefromeswc extra={'None' if xc is None else (','.join(xc) or '_')}", f"extras={','.join(r['eswc']['extra_cols'])}")]

    def oracle(self, case, res):
        if "exc" in res:
            return [("treefront-internal-error", f"the harness raised {res['exc']}: {res.get('msg')}")]
        return []

    def klass(self, case, res):
        return case["class"] + ("/exc" if "exc" in res else "")


# --- files of every size --------------------------------------------------------------------------------------------------------------------
# "for all texts assembled from the SWC line grammar … for all read options (… encoding)": a text has any number of rows. Whatever reads a
# file in pieces (a buffer, a block, a sample) has sizes at which its pieces end; files are generated a little beyond every power of two from
# 4 KiB to 256 KiB, and the one thing that tells encodings apart, text that is not ASCII, stands in a comment at the head, in the middle, at
# the tail (provenance appended by a tool), in a block of comments at the tail, or throughout — so that for every block size there are
# files whose first block is pure ASCII and files whose first block is not. Read with the default encoding, with the encoding named, and
# with 'detect'; or with one undecodable byte near the end (default / named utf-8). A case is a small description; the text is rebuilt from it.
LARGE_POW = [12, 13, 14, 15, 16, 17, 18]
LARGE_PLACES = ["head", "middle", "tail", "tail-block", "throughout"]
_LARGE_CACHE = {}


def large_doc(case):
    """(text, rows, comments) of a large-file case, a function of the case alone"""
    import random

    key = (case["gen"], case["target"], case["place"], case["notes"])
    if key in _LARGE_CACHE:
        return _LARGE_CACHE[key]
    rng = random.Random(case["gen"])
    pool = {"latin": NOTES_LATIN, "wide": NOTES_WIDE, "mixed": NOTES_LATIN + NOTES_WIDE}[case["notes"]]
    eol = rng.choice(["\n", "\n", "\r\n"])
    body, rows, size, i = [], [], 0, rng.choice([0, 1, 1, 5])
    first = i
    while size < case["target"]:
        p = -1 if i == first else rng.randint(max(first, i - 40), i - 1)
        fl = [spell_float(rng) for _ in range(4)]
        ty = rng.randint(0, 7)
        line = ws(rng, False) + ws(rng).join([str(i), str(ty)] + [f[0] for f in fl] + [str(p)]) + ws(rng, False) + eol
        entry = [("row", line)]
        if rng.random() < 0.02:
            entry.append(("comment", rng.choice(NOTES_ASCII)) if rng.random() < 0.5 else ("blank", eol))
        for kind, v in entry:
            body.append((kind, v)); size += len(v) + (2 if kind == "comment" else 0)
        rows.append({"id": i, "type": ty, "x": fl[0][1], "y": fl[1][1], "z": fl[2][1], "r": fl[3][1], "pid": p, "extra": []})
        i += 1
    place = case["place"]
    at = {"head": [0], "middle": [len(body) // 2], "tail": [len(body)], "tail-block": [len(body)] * rng.randint(2, 5),
          "throughout": sorted(rng.randrange(len(body) + 1) for _ in range(rng.randint(3, 8)))}[place]
    for a in reversed(at):
        body.insert(a, ("comment", rng.choice(pool)))
    comments = [v for kind, v in body if kind == "comment"]
    text = "".join("#" + v + eol if kind == "comment" else v for kind, v in body)
    if case.get("no_final_eol"):
        text = text[: -len(eol)]
    _LARGE_CACHE.clear()
    _LARGE_CACHE[key] = (text, rows, comments)
    return _LARGE_CACHE[key]


class LargeFiles(Suite):
    """files a little beyond every power of two from 4 KiB to 256 KiB, non-ASCII text at every place, every way of giving the encoding"""
    name = "c02.large"
    repeat = 6

    def cases(self, rng, tier, widen):
        big = tier == "thorough" or widen
        out, j = [], 0
        entries = ENTRIES[:]
        for rep in range(3 if big else 1):
            rng.shuffle(entries)
            for k in (LARGE_POW if big else LARGE_POW[:-1]):      # (the quick tier stops at 128 KiB)
                for place in LARGE_PLACES:
                    opts = ["detect", ["default", "named"][(j + rep) % 2]] + (["detect", "named"] if big else [])
                    for opt in opts:
                        notes = rng.choice(["latin", "wide", "mixed"])
                        store = "utf-8"
                        if opt == "named":
                            store = rng.choice(["utf-8", "utf-16"] + (["latin-1", "cp1252"] if notes == "latin" else []))
                        elif opt == "detect" and rng.random() < 0.25:
                            store = rng.choice(["utf-16", "utf-8-sig"])
                        entry = entries[j % len(entries)]; j += 1
                        out.append({"class": f"large/2^{k}/{place}/{opt}", "mode": "large", "pow": k, "target": 2 ** k + rng.randint(1, 2 ** (k - 2)),
                                    "gen": rng.getrandbits(48), "place": place, "notes": notes, "opt": opt, "store": store, "entry": entry, "bad": None,
                                    "no_final_eol": rng.random() < 0.2, "source": rng.choice(["bytes", "path"]) if entry in ("read_swc", "tree") else "path"})
                # bytes that are not text, on a line of their own somewhere in the last tenth of the file
                entry = entries[j % len(entries)]; j += 1
                kind = rng.choice(BAD_BYTES)
                opt = rng.choice(["default", "named"])
                out.append({"class": f"large/2^{k}/bad-bytes-near-end/{opt}", "mode": "large", "pow": k, "target": 2 ** k + rng.randint(1, 2 ** (k - 2)),
                            "gen": rng.getrandbits(48), "place": rng.choice(LARGE_PLACES), "notes": "mixed", "opt": opt, "store": "utf-8", "entry": entry,
                            "bad": "bytes", "bad_kind": kind, "bad_hex": bad_bytes(rng, kind).hex(), "bad_frac": rng.uniform(0.9, 1.0), "no_final_eol": False,
                            "source": rng.choice(["bytes", "path"]) if entry in ("read_swc", "tree") else "path"})
        return out

    def data_of(self, case):
        text, rows, comments = large_doc(case)
        data = text.encode(case["store"])
        off = None
        if case["bad"]:
            off = data.rfind(b"\n", 0, max(1, int(len(data) * case["bad_frac"]))) + 1
            data = data[:off] + bytes.fromhex(case["bad_hex"]) + b"\n" + data[off:]
        return text, rows, comments, data, off

    def run(self, case):
        text, rows, comments, data, _ = self.data_of(case)
        kw = {"reset_index": True}
        if case["opt"] != "default":
            kw["encoding"] = "detect" if case["opt"] == "detect" else case["store"]
        tmp = tempfile.mkdtemp(prefix="c02_")
        try:
            res = Read().read_via(case["entry"], tmp, data, kw, case["source"] == "bytes", other_encoding="ascii" if case["opt"] == "default" else case["store"])
        finally:
            shutil.rmtree(tmp, ignore_errors=True)
        res["bytes"] = len(data)
        return res

    def oracle(self, case, res):
        try:
            return [(k_, m[:900]) for k_, m in self._oracle(case, res)]
        except Exception as e:  # noqa: BLE001
            return [("malformed-output", f"the result of the read cannot be compared with the file ({type(e).__name__}: {e}); result {str(res)[:200]}")]

    def _oracle(self, case, res):
        text, rows, comments, data, off = self.data_of(case)
        opt = {"default": "no encoding option", "named": f"encoding={case['store']!r}", "detect": f"encoding='detect' (file stored as {case['store']})"}[case["opt"]]
        what = f"file of {len(data)} bytes ({len(rows)} rows), non-ASCII comment text at {case['place']}, {opt}, via {case['entry']}"
        if not isinstance(res, dict) or "exc" in res:
            r = res if isinstance(res, dict) else {}
            return [("entry-harness-error", f"{what}: the read did not finish: {r.get('exc')}: {r.get('msg')}")]
        if case["bad"]:
            if "raised" in res:
                return []
            return [("malformed-accepted/decode", f"{what}: bytes that are not utf-8 ({case['bad_kind']}: {case['bad_hex']} on a line of their own at offset {off}): "
                                                  f"reading returned a table with {len((res.get('df') or {}).get('id') or [])} rows instead of raising")]
        if "raised" in res:
            if case["opt"] == "detect":
                return []        # the codec a detector chose could not decode the bytes: a loud failure, nothing was returned
            return [("valid-text-rejected", f"{what}: well-formed text rejected with {res['raised']}: {res.get('msg')}")]
        got = res.get("comments")
        if not isinstance(got, list) or got != comments:
            d = next((i for i, (a, b) in enumerate(zip(got or [], comments)) if a != b), min(len(got or []), len(comments)))
            return [("comments", f"{what}: {len(got or [])} comments read, the file has {len(comments)}; comment #{d} read "
                                 f"{(got[d] if got and d < len(got) else None)!r}, the file says {(comments[d] if d < len(comments) else None)!r}")]
        sub = {"mode": "entry", "entry": case["entry"], "rows": rows, "comments": comments, "n_extra": 0, "reset_index": True, "bad": None, "text": text[:200]}
        return [(key, f"{what}: {msg}") for key, msg in Read().oracle(sub, res)]

    def nontrivial(self, case, res):
        return True

    def klass(self, case, res):
        return case["class"] + ("/raised" if isinstance(res, dict) and ("exc" in res or "raised" in res) else "")


class OptionForms(Suite):
    """extra_cols in every form of Iterable[str], through the entry points"""
    name = "c02.optforms"

    def cases(self, rng, tier, widen):
        big = tier == "thorough" or widen
        out, k = [], 0
        once = [(f, e) for f in XCOL_FORMS_ONCE for e in ["read_swc", "tree"]]
        multi = [(f, e) for f in XCOL_FORMS_MULTI for e in ["read_swc", "tree", "population", "lazy-list"]]
        for rep in range(4 if big else 1):
            for form, entry in once + multi:
                pids = gen.parents_sorted(rng, rng.choice([1, 2, 4, 7, 12]), gen.pick_shape(rng, k)); k += 1
                how = rng.choice(["reset", "raw", "sorted"]) if entry in ("read_swc", "tree") else "reset"
                if how == "sorted":
                    ids, pp, _ = gen.table_form(rng, pids)
                else:
                    base = rng.choice([0, 1, 1, 5])
                    ids, pp = [i + base for i in range(len(pids))], [-1 if p < 0 else p + base for p in pids]
                nx = rng.choice([1, 1, 2, 3]) if rng.random() < 0.85 else 0
                tail = rng.random() < 0.3          # fields beyond the requested ones: only a warning
                text, rows, comments = make_text(rng, ids, pp, n_extra=nx, with_tail=tail)
                out.append({"class": f"extra-cols-as/{form}/{entry}", "mode": "xcols", "form": form, "entry": entry, "n_extra": nx, "how": how,
                            "name_pat": rng.choice(XCOL_NAMES), "rows": rows, "comments": comments, "text": text,
                            "source": rng.choice(["text", "bytes", "path"]) if entry in ("read_swc", "tree") else "path"})
        return out

    def run(self, case):
        from swcgeom.core import Population, Tree
        from swcgeom.core.population import LazyLoadingTrees
        from swcgeom.core.swc_utils import read_swc

        names = xcol_names(case)
        kw = {"extra_cols": xcol_object(case["form"], names)}
        if case["how"] == "sorted":
            kw["sort_nodes"] = True
        else:
            kw["reset_index"] = case["how"] == "reset"
        text, entry = case["text"], case["entry"]
        tmp = tempfile.mkdtemp(prefix="c02_")
        try:
            path = os.path.join(tmp, "b.swc")
            with open(path, "wb") as f:
                f.write(text.encode("utf-8"))
            with open(os.path.join(tmp, "a.swc"), "w") as f:     # another member of the collection, with the same columns
                f.write("1 1 0 0 0 1 -1" + " 0.5" * len(names) + "\n2 3 1 0 0 1 1" + " 1.5" * len(names) + "\n")
            src = path if case["source"] == "path" else (io.BytesIO(text.encode("utf-8")) if case["source"] == "bytes"
                                                         else (io.StringIO(text, newline=None) if "\r" in text else io.StringIO(text)))
            with warnings.catch_warnings(record=True) as w:
                warnings.simplefilter("always")
                try:
                    if entry == "read_swc":
                        df, comments = read_swc(src, **kw)
                        return {"df": {str(c): df[c].tolist() for c in df.columns}, "comments": list(comments), "via": entry,
                                "warnings": [str(x.message)[:60] for x in w]}
                    if entry == "tree":
                        t = Tree.from_swc(src, **kw)
                    elif entry == "population":
                        pop = Population.from_swc(tmp, **kw)
                        order = [os.path.basename(x) for x in pop.trees.swcs]
                        _ = pop[order.index("a.swc")]            # the other member first: every member is read with the options given
                        t = pop[order.index("b.swc")]
                    else:
                        pop = Population(LazyLoadingTrees([os.path.join(tmp, "a.swc"), path], **kw))
                        _ = pop[0]
                        t = pop[1]
                except Exception as e:  # noqa: BLE001 - the oracle decides
                    return {"raised": type(e).__name__, "msg": str(e)[:200], "via": entry}
            keys = [str(k_) for k_ in t.keys()]
            cols = ["id", "type", "x", "y", "z", "r", "pid"] + [n for n in names if n in keys]
            return {"df": {c: np.asarray(t.get_ndata(c)).tolist() for c in cols if c in keys}, "comments": list(t.comments), "via": entry,
                    "warnings": [str(x.message)[:60] for x in w]}
        finally:
            shutil.rmtree(tmp, ignore_errors=True)

    def oracle(self, case, res):
        try:
            return self._oracle(case, res)
        except Exception as e:  # noqa: BLE001
            return [("malformed-output", f"the result of the read cannot be compared with the file ({type(e).__name__}: {e}); result {str(res)[:200]}")]

    def _oracle(self, case, res):
        names = xcol_names(case)
        what = f"extra_cols given as {case['form']} of {names} via {case['entry']}"
        if not isinstance(res, dict) or "exc" in res or "raised" in res:
            r = res if isinstance(res, dict) else {}
            return [("valid-text-rejected", f"{what}: well-formed text rejected with {r.get('exc') or r.get('raised')}: {r.get('msg')}; text={case['text'][:200]!r}")]
        df = res.get("df")
        if not isinstance(df, dict):
            return [("malformed-output", f"{what}: no table in the result {str(res)[:200]}")]
        missing = [n for n in names if n not in df]
        if missing:
            return [("extra-col-dropped", f"{what}: the requested columns {missing} are not in the result (columns {sorted(df)}); "
                                          f"warnings {res.get('warnings')}; text={case['text'][:120]!r}")]
        exact = res.get("via") == "read_swc"
        f32 = (lambda v: v) if exact else (lambda v: float(np.float32(v)))
        with np.errstate(over="ignore"):
            rows = [dict(r, x=f32(r["x"]), y=f32(r["y"]), z=f32(r["z"]), r=f32(r["r"]), extra=[f32(v) for v in r["extra"]]) for r in case["rows"]]
        sub = {"mode": "sorted-read" if case["how"] == "sorted" else "plain", "rows": rows, "comments": case["comments"], "n_extra": case["n_extra"],
               "reset_index": case["how"] == "reset", "text": case["text"]}
        sdf = {c: v for c, v in df.items() if c not in names}
        with np.errstate(over="ignore"):
            for j, n in enumerate(names):       # (a tree may keep a column in single or in double precision: compared in single)
                sdf[f"e{j}"] = [f32(v) for v in df[n]]
        sres = dict(res, df=sdf, via="read_swc")          # (expected values already are what the entry stores)
        out = [(key, f"{what}: {msg}") for key, msg in Read().oracle(sub, sres)]
        if not out and res.get("comments") != case["comments"]:
            out.append(("comments", f"{what}: comments read {res.get('comments')!r}, file has {case['comments']!r}"))
        return out

    def nontrivial(self, case, res):
        return case["n_extra"] >= 1 and len(case["rows"]) >= 2

    def klass(self, case, res):
        return case["class"] + ("/raised" if isinstance(res, dict) and ("exc" in res or "raised" in res) else "")


SUITES = [Read(), Recogniser(), GenLoop(), ReadFront(), TreeFront(), OptionForms(), LargeFiles()]
TECHNIQUE = "Lean 4 theorems about a line recogniser + fold model of parse_swc (ok ⇔ no invalid line; one row per data line in order; never partial) pinned to the regexes extracted from the source + differential correspondence against CPython re / read_swc + grammar-directed and malformed-stream oracle"
LEVEL_TEXT = ("Kernel-checked for every list of lines: the model of parse_swc returns ok exactly when no line is invalid, and then exactly one row per data "
              "line in file order with the tokens' values and the comments in order; an invalid line at any position makes the whole read an error. "
              "The recogniser is tied to the code's regexes (extracted on every run, pinned by a theorem) and compared with CPython's re on generated lines.")
LEVEL_NOTE = "Trusted: Lean kernel; equality of the hand-written recogniser with CPython's regex engine is tested, not proved; int()/float()/decoding/pandas."

