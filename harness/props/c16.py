"""C16 — resampling and smoothing keep the neuron's shape."""
import math
import random
import sys
import warnings
from fractions import Fraction

import numpy as np

from harness import gen
from harness.framework import Suite
from harness.swctext import Expect

PID = "C16"
TRANSLATE_ALGO = ["AlgoNode", "AlgoAssemble", "AlgoResample", "AlgoResampleTree"]   # regenerated on every run from transforms/branch_tree.py (BranchTreeAssembler.__call__), node.py (detach), tree.py (Node.children)
DRIVER_FILES = ["SwcVerif/Model/AlgoRunAssemble.lean", "SwcVerif/Model/AlgoRunResample.lean", "SwcVerif/Model/AlgoRunResampleTree.lean"]
LEAN_MODS = ["SwcVerif.Props.C16", "SwcVerif.Props.C16Length", "SwcVerif.Props.C16Pair", "SwcVerif.Props.C16PairLoc", "SwcVerif.Props.C16Asm", "SwcVerif.Props.C16AsmGen", "SwcVerif.Props.C16Gen", "SwcVerif.Props.C16Tree", "SwcVerif.Props.C16Tree2"]
THEOREMS = [
    "C16Asm.machine_eq_sub", "C16Asm.assemble_eq", "C16Asm.assemble_sorted", "C16Asm.assemble_wf", "C16Asm.assemble_length", "C16Asm.branch_is_chain",
    # the assembler as TRANSLATED from transforms/branch_tree.py on every run (Gen/AlgoAssemble.lean) refines the model
    "RefineAsm.assemble_refines", "C16Asm.generated_assemble_eq_model", "C16Asm.generated_assemble_wf", "C16Asm.generated_branch_is_chain",
    "C16.cumdist_spec", "C16.linspace_spec", "C16.iso_step_le", "C16.isoPositions_adjust", "C16.isoPositions_zero", "C16.isoPositions_noadjust",
    "C16.interp_endpoints", "C16.interp_on_segment", "C16.convex_between", "C16.isoResample_columns", "C16.linearResample_columns",
    "C16.smooth_endpoints_count", "C16.assemble_keeps_interior",
    "Polyline.plen_samples_le", "C16.resample_length_le", "C16.linearResample_length_le", "C16.isoResample_length_le",
    # the branch resamplers and the smoother as TRANSLATED from transforms/branch.py on every run (Gen/AlgoResample.lean) equal the models
    "RefineResample.linResample_refines", "RefineResample.isoResample_refines", "RefineResample.convSmooth_refines",
    "RefineResample.interp_eq", "RefineResample.linspace0_eq", "RefineResample.arange0_eq", "RefineResample.cumsumK_cumdist", "RefineResample.convolveSame_ones",
    "C16.generated_lin_eq_model", "C16.generated_iso_eq_model", "C16.generated_smooth_eq_model", "C16.generated_iso_step_le", "C16.generated_smooth_endpoints_count", "C16.generated_lin_last",
    # the tree-level driver `Resampler.__call__` as TRANSLATED from transforms/tree.py on every run (Gen/AlgoResampleTree.lean) is the composition of the generated pieces
    "RefineResamTree.for2_loop", "RefineResamTree.for3_loop", "RefineResamTree.resam_tree_eq", "C16Tree.generated_resample_tree_eq_compose", "C16Tree.generated_resample_tree_wf_partial",
    # `TreeSmoother.__call__` as TRANSLATED (Gen/AlgoResampleTree.lean `smooth_tree`): the loop is a fold over the branches; on every well-formed tree every branch ends up smoothed from its ORIGINAL rows, end points / root / furcations / tips keep their coordinates
    "RefineSmoothTree.for1_step", "RefineSmoothTree.for1_loop", "RefineSmoothTree.smooth_tree_eq", "C16Tree2.stepCol_frame", "C16Tree2.foldl_gather", "C16Tree2.pairwise_tree", "C16Tree2.good_tree", "C16Tree2.generated_smooth_tree", "C16Tree2.generated_smooth_tree_endpoints", "C16Tree2.foldl_perm", "C16Tree2.generated_smooth_tree_order",
    # `Rep` derived: every ranked table represents a rose tree; the branch tree of a well-formed tree is ranked (preorder position); the driver theorem without `Rep`
    "RefineAsm.rep_exists", "C16Tree.rep_of_ranked", "C16Tree2.branch_pre_lt", "C16Tree.branchTree_ranked", "C16Tree.generated_resample_tree_wf_rootfuel_partial",
    "RefineAsm.rep_exists_sized", "RefineAsm.Desc.disjoint", "C16Tree.rep_of_ranked_sized", "C16Tree.branches_length_le", "C16Tree.generated_resample_tree_wf",
    "C16.pairArgmin_spec", "C16.pair_step_inv", "C16.pair_exact", "C16.pair_step_loc", "C16.pair_same_place",
]
TRUSTED = ["hand-written rational models Model/Resample.lean of np.interp / linspace / arange, the two branch resamplers, the moving-average smoother and the "
           "branch re-assembly rule (tied by the c16.branch correspondence; values compared with tolerance 1e-5 because the code computes in float32/64)",
           "imperative translator with the numpy / scipy semantics Model/PyResample.lean (cumsum, insert, concatenate, linspace, arange, interp, ceil, stack / .T / column stores, "
           "signal.convolve(mode='same'), slice stores) for BranchLinearResampler.resample / BranchIsometricResampler.resample / BranchConvSmoother.__call__, cross-checked by the "
           "`glin` / `giso` / `gsmooth` lines of c16.branch; its glue (harness/algo_specs/16_resample.py): the segment lengths (np.linalg.norm(..) / np.sqrt((diffs**2).sum(axis=1))) = the parameter "
           "seglen, self.n_nodes / self.distance / self.adjust_last_gap / self.kernel = parameters, the detached branch = the dictionary of its columns (x.get_ndata(k) = ndata[k], x.number_of_nodes() = n)",
           "imperative translator (harness/translate_algo.py + Model/Py.lean, Model/PyObj.lean) for BranchTreeAssembler.__call__ / Node.detach, cross-checked by the `gasm` lines of c16.assemble; "
           "its glue (harness/algo_specs/30_assembler.py): x.soma() = row 0 (the soma type check is outside), x.branches = the dictionary parameter, the two float tests "
           "`np.linalg.norm(..) < self.EPS` = the parameters dupFirst / dupLast, the final `Tree(...)` = the two columns [n.id ..], [n.pid ..]; detach(): the one-row table = its id / pid columns"]
ASSUMPTIONS = ["segment lengths enter the model as exact numbers (generated polylines are axis-aligned lattice paths); square roots and float rounding are outside",
               "scipy.signal.convolve(mode='same') window alignment as modelled; the assembler's greedy pairing is modelled on squared distances (Model/Mst.lean pairGreedy, tied by c16.pair) and proved to be "
               "the true matching when every branch ends at exactly one child, and — when sister branches end at the same point — a perfect matching that pairs every branch with a child lying exactly at its end point (pair_same_place)"]


def polyline(rng, npts, zero_ok=True):
    """axis-aligned lattice polyline with integer segment lengths (possibly zero-length segments)"""
    p = [rng.randint(-5, 5) for _ in range(3)]
    pts, lens = [list(p)], []
    for _ in range(npts - 1):
        L = rng.choice([0, 1, 1, 2, 3, 5]) if zero_ok else rng.choice([1, 1, 2, 3, 5])
        ax = rng.randrange(3)
        p = list(p); p[ax] += rng.choice([-1, 1]) * L
        pts.append(list(p)); lens.append(L)
    r = [rng.randint(1, 16) / 4 for _ in range(npts)]
    return pts, lens, r


def along(pts, lens, r, s):
    """position and radius at arc length s on the polyline (independent of np.interp)"""
    acc = 0.0
    for k, L in enumerate(lens):
        if L > 0 and s <= acc + L + 1e-12:
            t = (s - acc) / L
            return [pts[k][i] + t * (pts[k + 1][i] - pts[k][i]) for i in range(3)], r[k] + t * (r[k + 1] - r[k])
        acc += L
    return [float(c) for c in pts[-1]], float(r[-1])


def radius_range(pts, lens, r, s, delta):
    """the radii the piecewise linear interpolant takes on arc lengths [s - delta, s + delta]: where the branch has a zero-length segment
    whose two ends carry different radii the interpolant jumps, and (arc lengths being rounded sums) every value of the jump is linear
    interpolation along the branch"""
    vals = [along(pts, lens, r, max(0.0, s - delta))[1], along(pts, lens, r, s)[1], along(pts, lens, r, min(sum(lens), s + delta))[1]]
    acc = 0.0
    for k in range(len(r)):
        if abs(acc - s) <= delta:
            vals.append(float(r[k]))
        if k < len(lens):
            acc += lens[k]
    return min(vals), max(vals)


EPS32 = 2.0 ** -23      # float32 machine epsilon: coordinates are stored in float32, a stored value is off by at most EPS32/2 * |value|

# INPUT FAMILY "coordinates at offsets 10^k": the same lattice shapes far away from the origin (whole-brain / nanometre coordinate systems)
# on a lattice of unit 2^-j.  Only (unit, k) pairs for which every lattice point near 9·10^k is a float32 number, so the inputs stay exact.
OFFSET_GRID = [(1.0, 2), (1.0, 3), (1.0, 4), (1.0, 5), (1.0, 6), (0.25, 3), (0.25, 4), (0.25, 5), (0.0625, 2), (0.0625, 4), (0.0625, 5)]


def draw_offset(rng):
    """(unit, k, offset vector): every axis far out (±m·10^k), or — one time in four — only some of the axes"""
    unit, k = rng.choice(OFFSET_GRID)
    off = [rng.choice([-1, 1]) * rng.randint(1, 9) * 10.0 ** k for _ in range(3)]
    if rng.random() < 0.25:
        off[rng.randrange(3)] = 0.0
    return unit, k, off


SMALL_WINDOWS = 8


def draw_window(rng, q, npts):
    """INPUT FAMILY "all smoothing windows": the q-th member — the windows 1 … SMALL_WINDOWS one after the other (1 = the identity; an even
    window has no centre, so it is one-sided), afterwards any window from 1 to beyond the number of nodes of the branch"""
    return q % SMALL_WINDOWS + 1 if q < SMALL_WINDOWS else rng.randint(1, npts + 6)


def window_class(k, npts=None):
    cls = f"window-{k}" if k <= 4 else ("window-even" if k % 2 == 0 else "window-odd")
    return cls + ("/longer-than-branch" if npts is not None and k > npts else "")


SWC_TYPES = [0, 1, 2, 3, 4, 5, 6, 7]          # undefined, soma, axon, basal, apical, custom …
TYPE_MODES = ["three-point-soma", "per-branch", "per-subtree", "uniform", "per-node"]


def type_column(rng, t, mode, soma_root=True):
    """INPUT FAMILY "type column": the tree `t` with its `types` drawn from all SWC types instead of "soma root, dendrite elsewhere".
    The property does not mention types, so they must not matter.  `per-node`: every node its own type; `per-branch`: one type per
    branch (key node to key node), the soma type among them — multi-point somata are soma-typed nodes below the root; `per-subtree`: one
    type per child of the root and everything below it (a soma contour, the axon, each dendrite); `uniform`: every node the root's type;
    `three-point-soma`: the root gets two more children, both soma-typed tips (the standard three-point soma), the rest per-subtree.
    Returns (tree, True when some branch consists of soma-typed nodes only)."""
    t = {k: (list(v) if isinstance(v, list) else v) for k, v in t.items()}
    pids = t["pids"]
    n = len(pids)
    soma = 1
    root = soma if soma_root else rng.choice(SWC_TYPES)
    draw = lambda: rng.choice(SWC_TYPES + [soma, soma, soma])
    if mode == "three-point-soma":
        used = {tuple(p) for p in t["xyz"]}
        for _sat in range(2):
            for _try in range(100):
                ax = rng.randrange(3)
                q = list(t["xyz"][0]); q[ax] += rng.choice([-1, 1]) * rng.randint(1, 6)
                if tuple(q) not in used:
                    break
            used.add(tuple(q))
            pids.append(0); t["xyz"].append(q); t["r"].append(t["r"][0])
        t["n"] = len(pids)
    kids, cr = crit(pids)
    crs = set(cr)
    m = len(pids)
    types = [root] * m
    if mode == "per-node":
        types = [root] + [draw() for _ in range(m - 1)]
    elif mode == "per-branch":
        of_end = {e: draw() for e in cr}
        for i in range(1, m):
            e = i
            while e not in crs:
                e = kids[e][0]
            types[i] = of_end[e]
    elif mode in ("per-subtree", "three-point-soma"):
        top = {c: (soma if mode == "three-point-soma" and c >= n else rng.choice([2, 3, 4, 0, 5]) if mode == "three-point-soma" else draw()) for c in kids.get(0, [])}
        for i in range(1, m):
            j = i
            while pids[j] != 0:
                j = pids[j]
            types[i] = top[j]
    t["types"] = types
    soma_branch = False
    for e in cr:
        if e == 0:
            continue
        chain = [e, pids[e]]
        while chain[-1] not in crs:
            chain.append(pids[chain[-1]])
        soma_branch = soma_branch or all(types[x] == soma for x in chain)
    return t, soma_branch


def short(xs, n=24):
    xs = list(xs)
    return str(xs) if len(xs) <= n else f"{str(xs[:n])[:-1]}, … ({len(xs)} entries)]"


def guarded(fn):
    """an oracle never raises: an output it cannot read (None, wrong sizes, wrong types) is a finding, not a crash of the check"""
    def oracle(self, case, res):
        try:
            if not isinstance(res, dict):
                return [("malformed-output", f"the implementation's result is {type(res).__name__}")]
            return fn(self, case, res)
        except Exception as e:  # noqa: BLE001
            return [("malformed-output", f"the output cannot be judged ({type(e).__name__}: {str(e)[:200]})")]
    oracle.__doc__ = fn.__doc__
    return oracle


def rats(xs):
    return ",".join(str(Fraction(x)) for x in xs) if len(xs) else "_"


def parse_cols(got):
    return [[float(Fraction(v)) for v in col.split(",")] if col.strip() not in ("", "_") else [] for col in got.split(" / ")]


class BranchSuite(Suite):
    name = "c16.branch"

    def cases(self, rng, tier, widen):
        out = []
        big = tier == "thorough" or widen
        for _ in range(150 if big else 40):
            npts = rng.choice([2, 2, 3, 4, 6, 10])
            kind = rng.choice(["iso", "iso", "iso-noadj", "lin", "smooth"])
            pts, lens, r = polyline(rng, npts, zero_ok=rng.random() < 0.3)
            c = {"class": kind, "kind": kind, "pts": pts, "lens": lens, "r": r}
            if kind.startswith("iso"):
                c["d"] = rng.choice([0.25, 0.5, 0.75, 1.0, 1.5, 2.0, 3.0, 10.0])
            elif kind == "lin":
                c["n"] = rng.choice([1, 2, 3, 5, 8])
            else:
                c["k"] = rng.choice([3, 5, 5, 7, 4])
            if sum(lens) == 0:
                c["class"] += "/zero-length"
            if rng.random() < 0.3:
                # transform objects are built once and mapped over many branches: the SAME object has been applied to other
                # branches (same / other point count) before
                c["prior"] = []
                for _q in range(rng.randint(1, 2)):
                    pp, _, pr = polyline(rng, rng.choice([npts, npts, 2, 3, 7]), zero_ok=False)
                    c["prior"].append({"pts": pp, "r": pr})
                c["class"] += "/reused"
            out.append(c)
        for kind, extra in (("iso", {"d": 0.4}), ("iso-noadj", {"d": 0.4}), ("iso", {"d": 1.0}), ("iso-noadj", {"d": 1.0})):
            out.append({"class": kind + "/named", "kind": kind, "pts": [[0, 0, 0], [2, 0, 0]], "lens": [2], "r": [1.0, 2.0], **extra})
            out.append({"class": kind + "/zero-length", "kind": kind, "pts": [[1, 1, 1], [1, 1, 1]], "lens": [0], "r": [1.0, 1.0], **extra})
        # the same branches far away from the origin, on lattices of unit 1, 1/4, 1/16 (guaranteed share: every kind, several magnitudes)
        kinds = ["iso", "iso", "iso-noadj", "lin", "smooth"]
        for q in range(60 if big else 20):
            kind = kinds[q % len(kinds)]
            unit, k10, off = draw_offset(rng)
            pts, lens, r = polyline(rng, rng.choice([2, 3, 4, 6, 10]), zero_ok=rng.random() < 0.3)
            c = {"class": f"{kind}/offset-1e{k10}", "kind": kind, "pts": [[off[i] + unit * p[i] for i in range(3)] for p in pts],
                 "lens": [unit * L for L in lens], "r": r, "unit": unit}
            if kind.startswith("iso"):
                c["d"] = unit * rng.choice([0.25, 0.5, 0.75, 1.0, 1.5, 2.0, 3.0])
            elif kind == "lin":
                c["n"] = rng.choice([2, 3, 5, 8])
            else:
                c["k"] = rng.choice([3, 5, 7, 4])
            if sum(lens) == 0:
                c["class"] += "/zero-length"
            out.append(c)
        # INPUT FAMILY "all smoothing windows" (guaranteed share): every small window in turn, then windows drawn up to beyond the node count
        for q in range(48 if big else 16):
            npts = rng.choice([2, 3, 4, 6, 10])
            k = draw_window(rng, q, npts)
            pts, lens, r = polyline(rng, npts, zero_ok=rng.random() < 0.3)
            c = {"class": "smooth/" + window_class(k, npts), "kind": "smooth", "pts": pts, "lens": lens, "r": r, "k": k}
            if sum(lens) == 0:
                c["class"] += "/zero-length"
            out.append(c)
        # INPUT FAMILY "branch length next to a whole number of steps" (guaranteed share): a lattice polyline whose last segment is a dyadic
        # hair 2^-e (e = 7 … 14) longer or shorter — coordinates, segment lengths and their float32 sums stay exact, and the length is
        # k·d ± 2^-e for every spacing d that divides the lattice length: k steps just below, k + 1 just above
        for q in range(36 if big else 12):
            kind = ["iso", "iso", "iso-noadj"][q % 3]
            pts, lens, r = polyline(rng, rng.choice([2, 3, 4, 6]), zero_ok=False)
            e = 7 + (q // 3 + rng.randrange(2) * 4) % 8
            sign = rng.choice([-1, 1, 1])
            ax = [i for i in range(3) if pts[-1][i] != pts[-2][i]][0]
            hair = sign * 2.0 ** -e
            pts[-1][ax] += hair if pts[-1][ax] > pts[-2][ax] else -hair
            lens[-1] += hair
            d = rng.choice([x for x in (0.25, 0.5, 1.0, 2.0, 3.0, 5.0) if (sum(lens) - hair) % x == 0 and x <= sum(lens)])
            out.append({"class": f"{kind}/near-multiple/" + ("above" if sign > 0 else "below") + ("-2^-7…10" if e <= 10 else "-2^-11…14"), "kind": kind, "pts": pts, "lens": lens, "r": r, "d": d})
        return out

    def run(self, case):
        from swcgeom.core import Branch
        from swcgeom.transforms import BranchConvSmoother, BranchLinearResampler
        from swcgeom.transforms.branch import BranchIsometricResampler

        xyzr = np.array([p + [rr] for p, rr in zip(case["pts"], case["r"])], dtype=np.float32)
        br = Branch.from_xyzr(xyzr.copy())
        k = case["kind"]
        if k == "iso":
            tr = BranchIsometricResampler(case["d"])
        elif k == "iso-noadj":
            tr = BranchIsometricResampler(case["d"], adjust_last_gap=False)
        elif k == "lin":
            tr = BranchLinearResampler(case["n"])
        else:
            tr = BranchConvSmoother(case["k"])
        for q in case.get("prior") or []:
            tr(Branch.from_xyzr(np.array([p + [rr] for p, rr in zip(q["pts"], q["r"])], dtype=np.float32)))
        y = tr(br)
        return {"xyzr": y.xyzr().astype(float).tolist(), "input_unchanged": bool(np.array_equal(br.xyzr(), xyzr))}

    def lines(self, case, res):
        if "exc" in res:
            return []
        cols = list(zip(*[p + [rr] for p, rr in zip(case["pts"], case["r"])]))
        k = case["kind"]
        got = np.array(res["xyzr"])

        def close(cols_expected):
            def f(out):
                m = parse_cols(out)
                if len(m) != len(cols_expected):
                    return False
                for a, b in zip(m, cols_expected):
                    if len(a) != len(b) or any(abs(x - y) > 1e-5 * max(1.0, abs(y)) for x, y in zip(a, b)):
                        return False
                return True
            return f

        # every case is also run through the GENERATED definitions (Gen/AlgoResample.lean, translated from transforms/branch.py on this run): ops g*
        xyzr_txt = f"x={rats(cols[0])} y={rats(cols[1])} z={rats(cols[2])} r={rats(cols[3])}"
        want = [got[:, i].tolist() for i in range(4)] if len(got) else [[], [], [], []]
        if k == "smooth":
            return [(f"smooth v={rats(cols[i])} k={case['k']}", Expect(close([got[:, i].tolist()]), f"impl col {i}: {got[:, i].tolist()}")) for i in range(3)] + [
                (f"gsmooth {xyzr_txt} k={case['k']}", Expect(close(want), f"impl: {want}"))]
        base = f"lens={rats(case['lens'])} {xyzr_txt}"
        if k == "lin":
            return [(f"{g}lin {base} n={case['n']}", Expect(close(want), f"impl: {want}")) for g in ("", "g")]
        return [(f"{g}iso {base} d={Fraction(case['d'])} adj={int(k == 'iso')}", Expect(close(want), f"impl: {want}")) for g in ("", "g")]

    @guarded
    def oracle(self, case, res):
        k = case["kind"]
        pts, lens, r = case["pts"], case["lens"], case["r"]
        L = float(sum(lens))
        if "exc" in res:
            key = f"{k}-raises" + ("/zero-length" if L == 0 else "")
            return [(key, f"{k} on a polyline with segment lengths {lens} raised {res['exc']}: {res.get('msg')}")]
        out = []
        got = res["xyzr"]
        if any(len(g) != 4 for g in got):
            return [("malformed-output", f"rows of the resulting branch are not (x, y, z, r): {short(got, 3)}")]
        # a position is right when it is the stated point up to what float32 (the storage type of coordinates) can represent there
        close = lambda a, b: len(a) == len(b) and all(abs(x - y) <= 2e-5 + 4 * EPS32 * abs(y) for x, y in zip(a, b))
        if k == "smooth":
            if len(got) != len(pts):
                return [("smooth-count", f"{len(got)} nodes after smoothing {len(pts)}")]
            if not close(got[0][:3], pts[0]) or not close(got[-1][:3], pts[-1]):
                out.append(("smooth-endpoints", "smoothing moved an end point"))
            if [g[3] for g in got] != [float(x) for x in r]:
                out.append(("smooth-radii", "smoothing changed radii"))
            return out
        if k == "lin":
            n = case["n"]
        else:
            n = int(math.ceil(L / case["d"])) + 1
        if len(got) != n:
            return [(f"{k}-count", f"{len(got)} nodes, expected {n} (L={L})")]
        if not close(got[0][:3], pts[0]) or (n > 1 and not close(got[-1][:3], pts[-1])):
            out.append((f"{k}-endpoints", f"end points {got[0][:3]} … {got[-1][:3]} ≠ {pts[0]} … {pts[-1]}"))
        # positions: equal arc-length steps along the original polyline; radii linear in arc length
        if k in ("iso", "lin"):
            ss = [i * L / (n - 1) for i in range(n)] if n > 1 else [0.0]
        else:
            ss = [i * case["d"] for i in range(n - 1)] + [L]
        if k != "lin" and n > 1 and max(b - a for a, b in zip(ss, ss[1:])) > case["d"] * (1 + 1e-9):
            out.append((f"{k}-step", "a step is longer than the spacing"))
        for i, s in enumerate(ss):
            p, rr = along(pts, lens, r, s)
            if not close(got[i][:3], p):
                out.append((f"{k}-off-polyline", f"node {i} at {got[i][:3]}, the polyline at arc length {s} is {p}")); break
            # where original points coincide (zero-length segments) any of their radii is "the" radius at that arc length
            acc, same = 0.0, []
            for q, Lq in enumerate([0] + list(lens)):
                acc += Lq
                if abs(acc - s) < 1e-9:
                    same.append(r[q])
            if same and min(same) - 1e-6 <= got[i][3] <= max(same) + 1e-6:
                continue
            if abs(got[i][3] - rr) > 2e-5 * max(1.0, rr):
                out.append((f"{k}-radius", f"node {i} radius {got[i][3]}, linear interpolation gives {rr}")); break
        if not res["input_unchanged"]:
            out.append((f"{k}-mutates-input", "the branch handed in was modified"))
        return out[:3]

    def nontrivial(self, case, res):
        return len(case["pts"]) >= 3


def crit(t_pids):
    kids = {}
    for i, p in enumerate(t_pids):
        kids.setdefault(p, []).append(i)
    return kids, [i for i in range(len(t_pids)) if i == 0 or len(kids.get(i, [])) != 1]


def lattice_tree(rng, pids):
    """tree case over the parent table `pids` with axis-aligned integer edges and pairwise distinct positions (None when the walk got stuck)"""
    nn = len(pids)
    kids = {}
    for i, p in enumerate(pids):
        kids.setdefault(p, []).append(i)
    xyz, used, st = {0: (0, 0, 0)}, {(0, 0, 0)}, [0]
    while st:
        v = st.pop()
        for c in kids.get(v, []):
            for _try in range(50):
                ax = rng.randrange(3); L = rng.randint(1, 4) * rng.choice([-1, 1])
                q = list(xyz[v]); q[ax] += L; q = tuple(q)
                if q not in used:
                    break
            else:
                return None
            used.add(q); xyz[c] = q; st.append(c)
    return {"n": nn, "pids": list(pids), "types": [1] + [3] * (nn - 1), "xyz": [[float(c) for c in xyz[i]] for i in range(nn)],
            "r": [rng.randint(2, 8) / 4 for _ in range(nn)]}


def deep_tree(desc):
    """INPUT FAMILY "nesting beyond the recursion limit": the lattice tree described by `desc` = {kind, levels, seed, numbering}, built
    deterministically (the case stores the description only).  `comb`: a trunk that gives off a collateral (one or two segments, ending
    in a tip) at each of `levels` consecutive branch points, so the furcations are nested `levels` deep; `chain`: an unbranched path
    of at least `levels` nodes.  Integer edge lengths, pairwise distinct positions."""
    rng = random.Random(f"deep/{desc['kind']}/{desc['levels']}/{desc['seed']}")
    pids, xyz = [-1], [(0, 0, 0)]
    trunk, x = 0, 0
    for _ in range(rng.randint(0, 2)):              # any root type: the first branch point is the root itself or lies on a stem
        x += rng.randint(1, 4)
        pids.append(trunk); xyz.append((x, 0, 0)); trunk = len(pids) - 1
    for _lvl in range(desc["levels"]):
        if desc["kind"] == "comb":
            ax = rng.choice([1, 2])
            q = [x, 0, 0]; q[ax] = rng.choice([-1, 1]) * rng.randint(1, 3)
            pids.append(trunk); xyz.append(tuple(q))
            if rng.random() < 0.4:
                q2 = list(q); q2[3 - ax] = rng.choice([-1, 1]) * rng.randint(1, 3)
                pids.append(len(pids) - 1); xyz.append(tuple(q2))
        for _ in range(rng.randint(1, 2)):
            x += rng.randint(1, 4)
            pids.append(trunk); xyz.append((x, 0, 0)); trunk = len(pids) - 1
    n = len(pids)
    r = [rng.randint(2, 8) / 4 for _ in range(n)]
    if desc.get("numbering") == "root0":             # numbering must not matter: parents may follow their children
        perm = list(range(1, n)); rng.shuffle(perm); perm = [0] + perm
        np_, nx, nr = [0] * n, [None] * n, [None] * n
        for old, pp in enumerate(pids):
            np_[perm[old]] = -1 if pp == -1 else perm[pp]; nx[perm[old]] = xyz[old]; nr[perm[old]] = r[old]
        pids, xyz, r = np_, nx, nr
    return {"n": n, "pids": pids, "types": [1] + [3] * (n - 1), "xyz": [[float(c) for c in q] for q in xyz], "r": r}


def deep_descs(rng, big, n_beyond, n_below):
    """descriptions of deep trees: `n_beyond` nested / chained deeper than the interpreter's recursion limit (whatever it is in this
    process), `n_below` well below it"""
    lim = sys.getrecursionlimit()
    out = []
    for q in range(n_beyond + n_below):
        beyond = q < n_beyond
        levels = lim + rng.randint(lim // 20, lim // 2 if not big else 2 * lim) if beyond else rng.randint(lim // 10, lim // 2)
        kind = "comb" if q % 3 != 2 else "chain"
        out.append({"kind": kind, "levels": levels, "seed": rng.randrange(10 ** 6), "numbering": rng.choice(["sorted", "root0"]),
                    "class": f"deep-{kind}/" + ("beyond-recursion-limit" if beyond else "below-recursion-limit")})
    return out


def well_formed(ids, pids):
    """gen.well_formed (ids = positions, node 0 the only root, parents exist, every node reaches the root) in linear time, for deep tables"""
    n = len(ids)
    if list(ids) != list(range(n)):
        return "ids are not 0..n-1"
    if n == 0:
        return "empty"
    if len(pids) != n:
        return f"{len(pids)} parents for {n} ids"
    if pids[0] != -1:
        return "node 0 is not a root"
    for i in range(1, n):
        if not (isinstance(pids[i], int) and 0 <= pids[i] < n):
            return f"parent of {i} is {pids[i]}"
    state = [0] * n          # 0 unseen, 1 reaches the root, 2 on the path being followed
    state[0] = 1
    for i in range(n):
        path, j = [], i
        while state[j] == 0:
            state[j] = 2; path.append(j); j = pids[j]
        if state[j] != 1:
            return f"node {i} does not reach the root"
        for v in path:
            state[v] = 1
    return None


def case_tree(case):
    """the tree description of a case: stored, or expanded from the description of a deep tree"""
    return case["tree"] if case.get("tree") is not None else deep_tree(case["deep"])


def far_tree(t, unit, off):
    """the lattice tree `t` on a lattice of unit `unit` at offset `off`"""
    t2 = dict(t)
    t2["xyz"] = [[off[i] + unit * p[i] for i in range(3)] for p in t["xyz"]]
    return t2


REUSE_SHAPES = ["chain", "stem", "star", "caterpillar", "binary", "random", "highdeg"]   # gen.parents_sorted gives exactly n nodes for these


def reuse_sessions(rng, big):
    """Populations handed to ONE transform object, call after call (transforms are built once and mapped over many neurons):
    what a transform returns for a tree depends on that tree only, whatever the same object was applied to before.  Every tree of
    a session is checked.  Sessions: trees of the SAME node count with different branching (and the same `source` label — built in
    memory, or cut / edited from one file), one tree under two numberings, one tree before and after an edit that re-attaches a
    sub-tree, populations of different sizes, and a tree met again after others."""
    out = []

    def mk(n, shape, numbering):
        for _try in range(20):
            pids = gen.parents_sorted(rng, n, shape)
            if numbering == "root0":
                pids = gen.renumber_root0(rng, pids)
            t = lattice_tree(rng, pids)
            if t is not None:
                return t
        return None

    def reattach(t):
        """the same nodes at the same places, one sub-tree cut off and attached to another node (an edited neuron)"""
        n = t["n"]
        for _try in range(30):
            v = rng.randrange(1, n)
            below, st = {v}, [v]
            while st:
                w = st.pop()
                for c in range(n):
                    if t["pids"][c] == w and c not in below:
                        below.add(c); st.append(c)
            cand = [u for u in range(n) if u not in below and u != t["pids"][v]]
            if cand:
                t2 = dict(t); t2["pids"] = list(t["pids"]); t2["pids"][v] = rng.choice(cand)
                return t2
        return None

    kinds = ["same-size", "same-size", "same-size", "edited", "renumbered", "other-size", "met-again"]
    reps = 2 if not big else 6
    for op in ("smooth", "iso"):
        for kind in kinds:
            for _rep in range(reps):
                n = rng.choice([5, 6, 8, 11] + ([25, 60] if big else []))
                numbering = rng.choice(["sorted", "root0"])
                trees = []
                if kind == "same-size":
                    for shape in rng.sample(REUSE_SHAPES, rng.choice([2, 2, 3])):
                        trees.append(mk(n, shape, numbering))
                elif kind == "edited":
                    a = mk(n, rng.choice(REUSE_SHAPES[1:]), numbering)
                    trees = [a, reattach(a) if a else None]
                    if rng.random() < 0.5:
                        trees.reverse()
                elif kind == "renumbered":
                    a = mk(n, rng.choice(REUSE_SHAPES[1:]), "sorted")
                    if a:
                        perm = list(range(1, n)); rng.shuffle(perm); perm = [0] + perm
                        b = {"n": n, "pids": [0] * n, "types": a["types"], "xyz": [None] * n, "r": [None] * n}
                        for old in range(n):
                            b["pids"][perm[old]] = -1 if a["pids"][old] == -1 else perm[a["pids"][old]]
                            b["xyz"][perm[old]] = a["xyz"][old]; b["r"][perm[old]] = a["r"][old]
                        trees = [a, b]
                    else:
                        trees = [None]
                elif kind == "other-size":
                    trees = [mk(m, rng.choice(REUSE_SHAPES), numbering) for m in (n, n + rng.randint(1, 4), max(3, n - rng.randint(1, 3)))]
                    rng.shuffle(trees)
                else:
                    a, b = mk(n, rng.choice(REUSE_SHAPES[1:]), numbering), mk(n, rng.choice(REUSE_SHAPES), numbering)
                    trees = [a, b, a]
                if any(t is None for t in trees):
                    continue
                # the label of where a tree came from: built in memory (''), all from one file, or one file each
                src = rng.choice(["memory", "memory", "one-file", "file-each"])
                sources = {"memory": [""] * len(trees), "one-file": ["population/neuron.swc"] * len(trees),
                           "file-each": [f"population/n{q}.swc" for q in range(len(trees))]}[src]
                arg = rng.choice([0.4, 0.5, 1.0, 1.5, 2.5]) if op == "iso" else rng.choice([3, 5, 4])
                out.append({"class": f"{op}/reused/{kind}", "tree": trees[-1], "prior": trees[:-1], "sources": sources, "op": op, "arg": arg, "warm": None})
    return out


PIPE_BETWEEN = ["smooth", "scale", "edit", "reread", "none", "smooth+scale"]


def pipeline_cases(rng, big):
    """INPUT FAMILY "the result of one transform is the input of the next" (clean-up pipelines: resample -> something that moves nodes but
    keeps their number -> resample again): the trees a transform meets in practice are often RESULTS of transforms, with whatever those
    left on the object (comments, source, caches, float32 columns off the lattice).  EVERY call of the chain is held to the property
    against ITS OWN input.  Between the two resampling calls: TreeSmoother, a geometric Scale, an in-place edit of the coordinates of a
    copy, a to_swc / read_swc round trip, nothing, or two of them; the last call uses the same spacing (through the same object or an
    equal new one) or another spacing."""
    out = []
    q, q0 = 0, rng.randrange(len(PIPE_BETWEEN))
    while q < (48 if big else 18):
        between = PIPE_BETWEEN[(q0 + q) % len(PIPE_BETWEEN)]
        if q % 3 == 2:
            # wiggly off-lattice branches: a stem and two daughters
            pids, xyz = [-1], [[0.0, 0.0, 0.0]]
            for start, m in ((0, rng.randint(4, 9)), (None, rng.randint(4, 9)), (None, rng.randint(4, 9))):
                prev = start if start is not None else f
                for _ in range(m):
                    pids.append(prev); xyz.append([round(xyz[prev][i] + rng.randint(-1500, 1500) / 1000, 3) for i in range(3)]); prev = len(pids) - 1
                if start is not None:
                    f = prev
            if len({tuple(p) for p in xyz}) < len(xyz):
                continue
            t = {"n": len(pids), "pids": pids, "types": [1] + [3] * (len(pids) - 1), "xyz": xyz, "r": [rng.randint(2, 8) / 4 for _ in pids]}
            shape = "float-Y"
        else:
            shape = rng.choice(["chain", "stem", "caterpillar", "binary", "random"])
            t = lattice_tree(rng, gen.renumber_root0(rng, gen.parents_sorted(rng, rng.choice([6, 9, 14] + ([30] if big else [])), shape)))
            if t is None:
                continue
        q += 1
        d = rng.choice([0.4, 0.5, 0.75, 1.0, 1.5])
        steps = [["iso", d]]
        for b in between.split("+"):
            if b == "smooth":
                steps.append(["smooth", rng.choice([3, 5, 5, 7])])
            elif b == "scale":
                steps.append(["scale", rng.choice([0.5, 2.0, 4.0, 3.0])])
            elif b == "edit":
                steps.append(["edit", rng.randrange(10 ** 6)])
            elif b == "reread":
                steps.append(["reread", 0])
        last = rng.choice(["same-object", "same-object", "equal-object", "other-spacing"])
        steps.append(["iso", d if last != "other-spacing" else rng.choice([x for x in (0.4, 0.5, 1.0, 2.5) if x != d])])
        out.append({"class": f"pipeline/iso-{between}-iso/{last}", "tree": t, "op": "pipeline", "steps": steps, "last": last,
                    "comments": rng.choice([None, ["a header line"], ["ORIGINAL_SOURCE x", "SCALE 1.0 1.0 1.0"]]), "arg": d, "warm": None,
                    "irrational": shape == "float-Y"})
    return out


def run_pipeline(case):
    """the chain of `case["steps"]` on the real library; every step's output is recorded (it is the next step's input)"""
    import os
    import tempfile

    from swcgeom.core import Tree
    from swcgeom.transforms import IsometricResampler, Scale, TreeSmoother

    def record(y, x):
        return {"pid": y.pid().tolist(), "id": y.id().tolist(), "xyz": y.xyz().astype(float).tolist(), "r": [float(v) for v in y.r()],
                "length": float(y.length()), "length_in": float(x.length())}

    x = gen.make_tree(case["tree"], comments=case.get("comments"))
    stages, resamplers = [], {}
    with warnings.catch_warnings():
        warnings.simplefilter("ignore")
        for j, (op, arg) in enumerate(case["steps"]):
            before = {k: v.copy() for k, v in x.ndata.items()}
            if op == "iso":
                fresh = case.get("last") == "equal-object" or arg not in resamplers
                tr = IsometricResampler(arg) if fresh else resamplers[arg]
                resamplers.setdefault(arg, tr)
                y = tr(x)
            elif op == "smooth":
                y = TreeSmoother(arg)(x)
            elif op == "scale":
                y = Scale(arg, arg, arg)(x)
            elif op == "edit":
                # an in-place edit of a copy: the nodes with exactly one child are moved by up to a quarter of a unit
                y = x.copy()
                prng = random.Random(f"edit/{arg}")
                pid = y.pid()
                nk = np.bincount(pid[pid >= 0], minlength=len(pid))
                for i in np.flatnonzero(nk == 1):
                    if pid[i] >= 0:
                        for col in (y.names.x, y.names.y, y.names.z):
                            y.ndata[col][i] += prng.randint(-250, 250) / 1000
            else:
                fd, path = tempfile.mkstemp(suffix=".swc")
                os.close(fd)
                try:
                    x.to_swc(path)
                    y = Tree.from_swc(path)
                finally:
                    os.unlink(path)
            st = record(y, x)
            st["input_unchanged"] = bool(all(np.array_equal(before[k], x.ndata[k]) for k in before))
            stages.append(st)
            x = y
    return {"stages": stages}


FLOAT_SCALES = [1, 3, 10, 30]


def scaled_float_trees(rng, count):
    """INPUT FAMILY "registered coordinates": neurons whose coordinates are short decimals that are NOT on a lattice, at length scales
    1 / 3 / 10 / 30 (segments of up to 1.5·scale per axis, 8–12 segments per branch: branches tens to hundreds of units long), with the
    root anywhere within ±10·scale per axis — so branches run towards, along and across the coordinate planes and a branch can be much
    longer than its end point is away from a plane.  Every scale in turn; radii vary along the branches."""
    out, q = [], 0
    while len(out) < count and q < 20 * count:
        s = FLOAT_SCALES[q % len(FLOAT_SCALES)]
        q += 1
        pids, xyz = [-1], [[round(rng.uniform(-10, 10) * s, 2) for _ in range(3)]]

        def grow(start, m):
            prev = start
            for _ in range(m):
                pids.append(prev); xyz.append([round(xyz[prev][i] + s * rng.randint(-1500, 1500) / 1000, 2) for i in range(3)]); prev = len(pids) - 1
            return prev
        f = grow(0, rng.randint(8, 12))
        for _ in range(rng.choice([2, 2, 3])):
            grow(f, rng.randint(8, 12))
        if len({tuple(p) for p in xyz}) < len(xyz) or max(abs(c) for p in xyz for c in p) >= 1000:   # beyond 1000 a 2-decimal number is no longer a float32 number to 4 decimals
            continue
        t = {"n": len(pids), "pids": pids, "types": [1] + [3] * (len(pids) - 1), "xyz": xyz, "r": [rng.randint(1, 16) / 4 for _ in pids]}
        out.append({"class": f"iso/float-scale-{s}", "tree": t, "op": "iso", "arg": s * rng.choice([2.0, 1.5, 0.75, 4.0]), "irrational": True, "warm": None})
    return out


def near_multiple_trees(rng, count):
    """INPUT FAMILY "branch length next to a whole number of steps": a stem and two or three daughters, every branch k·d ± rem long for
    the spacing d, k = 1 … 12 and a remainder rem = m·10^-e (e = 2, 3, 4) — the boundary of "how many steps of at most d": k steps just
    below, k + 1 just above.  Branches consist of axis-aligned and 3-4-5 oblique segments in units of d/2; the remainder sits in the last
    segment.  Coordinates are 4-decimal numbers of magnitude < 100, so float32 storage moves a length by < 1e-5."""
    out = []
    for q in range(20 * count):
        if len(out) >= count:
            break
        d = rng.choice([0.5, 1.0, 2.0, 2.5, 5.0])
        u = d / 2
        pids, xyz, rems = [-1], [[float(rng.randint(-3, 3)) for _ in range(3)]], []

        def step(p, L, oblique):
            ax = rng.sample(range(3), 3)
            v = [0.0, 0.0, 0.0]
            if oblique:
                v[ax[0]], v[ax[1]] = rng.choice([-1, 1]) * 0.6 * L, rng.choice([-1, 1]) * 0.8 * L
            else:
                v[ax[0]] = rng.choice([-1, 1]) * L
            return [round(p[i] + v[i], 4) for i in range(3)]

        def grow(start):
            k = rng.randint(1, 12)
            e = rng.choice([2, 3, 4])
            rem = rng.choice([-1, 1, 1]) * rng.choice([2, 3, 5, 8]) * 10.0 ** -e
            if rem < 0 and -rem >= u:
                rem = -rem
            halves, parts = 2 * k, []
            while halves > 0:
                h = rng.randint(1, halves) if len(parts) < 2 else halves
                parts.append(h); halves -= h
            prev = start
            for j, h in enumerate(parts):
                L = h * u + (rem if j == len(parts) - 1 else 0.0)
                obl = h % 5 == 0 and j < len(parts) - 1         # 5 half-units = a (3, 4, 5)·u/… segment with 4-decimal coordinates
                pids.append(prev); xyz.append(step(xyz[prev], L, obl)); prev = len(pids) - 1
            rems.append(("above" if rem > 0 else "below") + f"-1e-{e}")
            return prev
        f = grow(0)
        for _ in range(rng.choice([2, 2, 3])):
            grow(f)
        if len({tuple(p) for p in xyz}) < len(xyz):
            continue
        t = {"n": len(pids), "pids": pids, "types": [1] + [3] * (len(pids) - 1), "xyz": xyz, "r": [rng.randint(1, 16) / 4 for _ in pids]}
        sides = {x.split("-")[0] for x in rems}
        out.append({"class": "iso/near-multiple/" + (sides.pop() if len(sides) == 1 else "above+below"), "tree": t, "op": "iso", "arg": d, "irrational": True, "warm": None})
    return out


class TreeSuite(Suite):
    name = "c16.tree"
    case_timeout = 60

    def cases(self, rng, tier, widen):
        out = []
        big = tier == "thorough" or widen
        # guaranteed quota: a furcation whose two sister branches end at the same point, one in a tip, one in a node with a subtree
        for m in ([1, 2, 3] if not big else [1, 2, 3, 4, 5]):
            pids = [-1, 0]                     # 0 root, 1 furcation
            xyz = [[0.0, 0.0, 0.0], [2.0, 0.0, 0.0]]
            # branch A: 1 -> … -> tip at P = (2, 4, 0) going through (2+m, *, 0); branch B: 1 -> … -> P through (2-m, *, 0)
            P = [2.0, 4.0, 0.0]
            prev = 1
            for q in ([2.0 + m, 0.0, 0.0], [2.0 + m, 4.0, 0.0], P):
                pids.append(prev); xyz.append(list(q)); prev = len(pids) - 1
            tipA = prev
            prev = 1
            for q in ([2.0 - m, 0.0, 0.0], [2.0 - m, 4.0, 0.0], P):
                pids.append(prev); xyz.append(list(q)); prev = len(pids) - 1
            endB = prev
            for q in ([2.0, 6.0, 0.0], [2.0, 4.0, 3.0]):   # subtree below B's end: two tips
                pids.append(endB); xyz.append(list(q))
            if rng.random() < 0.5:                         # numbering must not matter
                perm = list(range(1, len(pids))); rng.shuffle(perm); perm = [0] + perm
                np_, nx = [0] * len(pids), [None] * len(pids)
                for old, pp in enumerate(pids):
                    np_[perm[old]] = -1 if pp == -1 else perm[pp]; nx[perm[old]] = xyz[old]
                pids, xyz = np_, nx
            t = {"n": len(pids), "pids": pids, "types": [1] + [3] * (len(pids) - 1), "xyz": xyz, "r": [1.0] * len(pids)}
            out.append({"class": "iso-coincident-ends/named", "tree": t, "op": "iso", "arg": rng.choice([0.5, 1.0, 1.5]), "warm": [None, 3.0, 2.5][m % 3]})
        # branches that pass through the position of one of their own end points (a tip overshot and traced back, a hairpin that returns
        # to the furcation before going on): the sample that falls there is an ordinary interior node
        for d in (1.0, 0.5):
            t = {"n": 4, "pids": [-1, 0, 1, 2], "types": [1, 3, 3, 3], "xyz": [[0.0, 0.0, 0.0], [2.0, 0.0, 0.0], [4.0, 0.0, 0.0], [2.0, 0.0, 0.0]], "r": [1.0] * 4}
            out.append({"class": "iso/revisit-tip", "tree": t, "op": "iso", "arg": d, "warm": None})
            t = {"n": 7, "pids": [-1, 0, 1, 2, 3, 1, 5], "types": [1] + [3] * 6,
                 "xyz": [[0.0, 0.0, 0.0], [2.0, 0.0, 0.0], [2.0, 2.0, 0.0], [2.0, 0.0, 0.0], [2.0, -2.0, 0.0], [3.0, 0.0, 1.0], [3.0, 0.0, 3.0]], "r": [1.0] * 7}
            out.append({"class": "iso/revisit-furcation", "tree": t, "op": "iso", "arg": d, "warm": None})
        # long branches with coordinates that are not on a lattice (segment lengths are irrational, float32 sums round): a stem and
        # two daughters of 8–12 segments each
        for rep in range(12 if not big else 40):
            pids, xyz = [-1], [[0.0, 0.0, 0.0]]
            def grow(start, m):
                prev = start
                for _ in range(m):
                    q = [round(xyz[prev][i] + rng.randint(-1500, 1500) / 1000, 3) for i in range(3)]
                    pids.append(prev); xyz.append(q); prev = len(pids) - 1
                return prev
            f = grow(0, rng.randint(8, 12)); grow(f, rng.randint(8, 12)); grow(f, rng.randint(8, 12))
            if len({tuple(q) for q in xyz}) < len(xyz):
                continue
            t = {"n": len(pids), "pids": pids, "types": [1] + [3] * (len(pids) - 1), "xyz": xyz, "r": [1.0] * len(pids)}
            out.append({"class": "iso/float-Y", "tree": t, "op": "iso", "arg": rng.choice([2.0, 1.5, 0.75]), "warm": None})
        out += scaled_float_trees(rng, 16 if not big else 48)
        out += near_multiple_trees(rng, 10 if not big else 30)
        k = 0
        for n in [2, 3, 4, 6, 9, 14] + ([30, 80] if big else []):
            for _ in range(2 if not big else 5):
                shape = gen.pick_shape(rng, k); k += 1
                pids = gen.renumber_root0(rng, gen.parents_sorted(rng, n, shape))
                nn = len(pids)
                # axis-aligned integer edges, pairwise distinct positions (so the assembler's pairing is unambiguous)
                t = lattice_tree(rng, pids)
                if t is None:
                    continue
                if nn >= 4 and rng.random() < 0.5:
                    # two sister branches that END AT THE SAME POINT, one at a tip and one at a node that carries a subtree:
                    # re-assembly has to give each branch its own end node
                    tips = [i for i in range(1, nn) if i not in pids and pids[i] != 0]
                    cand = [(a, b) for a in tips for b in range(1, nn) if b != a and pids[b] == pids[a] and b in pids]
                    if cand:
                        a, b = rng.choice(cand)
                        t2 = dict(t); t2["xyz"] = [list(p) for p in t["xyz"]]; t2["xyz"][a] = list(t["xyz"][b])
                        out.append({"class": f"iso-coincident-ends/{shape}", "tree": t2, "op": "iso", "arg": rng.choice([0.5, 1.0])})
                for op in (("iso", rng.choice([0.4, 0.5, 1.0, 1.5, 2.5])), ("smooth", rng.choice([3, 5]))):
                    # half of the trees have been resampled (coarsely) and smoothed before: a transform of a tree depends on the tree only
                    warm = rng.choice([None, 3.0, 2.0]) if nn >= 3 else None
                    out.append({"class": f"{op[0]}/{shape}" + ("/again" if warm else ""), "tree": t, "op": op[0], "arg": op[1], "warm": warm})
        out += reuse_sessions(rng, big)
        # neurons far away from the origin (offsets ±m·10^k, lattice units 1, 1/4, 1/16): guaranteed share, every shape family in turn
        q = 0
        while q < (36 if big else 14):
            shape = REUSE_SHAPES[q % len(REUSE_SHAPES)]
            t = lattice_tree(rng, gen.renumber_root0(rng, gen.parents_sorted(rng, rng.choice([4, 6, 9, 14] + ([30] if big else [])), shape)))
            unit, k10, off = draw_offset(rng)
            if t is None:
                continue
            q += 1
            op = ("smooth", rng.choice([3, 5])) if q % 5 == 0 else ("iso", unit * rng.choice([0.4, 0.5, 1.0, 1.5, 2.5]))
            out.append({"class": f"{op[0]}/offset-1e{k10}/{shape}", "tree": far_tree(t, unit, off), "unit": unit, "op": op[0], "arg": op[1], "warm": None})
        # the type column drawn from all SWC types (three-point somata, soma contours, soma-typed branches, one type everywhere, a type per
        # node): guaranteed share, every mode in turn; resampling needs a soma-typed root (it starts from `x.soma()`), smoothing does not
        q = 0
        while q < (60 if big else 20):
            shape = REUSE_SHAPES[(q // len(TYPE_MODES)) % len(REUSE_SHAPES)]
            t = lattice_tree(rng, gen.renumber_root0(rng, gen.parents_sorted(rng, rng.choice([3, 4, 6, 9, 14] + ([30] if big else [])), shape)))
            if t is None:
                continue
            mode = TYPE_MODES[q % len(TYPE_MODES)]
            q += 1
            op = ("smooth", rng.choice([3, 5, 4])) if q % 4 == 0 else ("iso", rng.choice([0.4, 0.5, 1.0, 1.5, 2.5]))
            t, soma_branch = type_column(rng, t, mode, soma_root=op[0] == "iso" or rng.random() < 0.5)
            out.append({"class": f"{op[0]}/types-{mode}/" + ("soma-branch" if soma_branch else "no-soma-branch"), "tree": t, "op": op[0], "arg": op[1], "warm": None})
        # all smoothing windows on trees: every small window in turn, then windows up to beyond the number of nodes
        q, q0 = 0, rng.randrange(len(REUSE_SHAPES))
        while q < (36 if big else 12):
            shape = REUSE_SHAPES[(q0 + q) % len(REUSE_SHAPES)]
            t = lattice_tree(rng, gen.renumber_root0(rng, gen.parents_sorted(rng, rng.choice([4, 6, 9, 14] + ([30] if big else [])), shape)))
            if t is None:
                continue
            k = draw_window(rng, q, t["n"])
            q += 1
            out.append({"class": f"smooth/{window_class(k)}/{shape}", "tree": t, "op": "smooth", "arg": k, "warm": None})
        # furcations nested (or a path running) deeper than the interpreter's recursion limit; the tree is built from its description
        for j, dsc in enumerate(deep_descs(rng, big, 3 if not big else 6, 1 if not big else 3)):
            cls = dsc.pop("class")
            op = ("smooth", rng.choice([3, 5])) if j % 3 == 1 else ("iso", rng.choice([0.5, 1.0, 2.5, 40.0]))
            out.append({"class": f"{op[0]}/{cls}", "deep": dsc, "op": op[0], "arg": op[1], "warm": None, "big": True})
        out += pipeline_cases(rng, big)
        return out

    def run(self, case):
        from swcgeom.transforms import IsometricResampler, TreeSmoother

        if case["op"] == "pipeline":
            return run_pipeline(case)
        session = list(case.get("prior") or []) + [case_tree(case)]
        sources = case.get("sources") or [""] * len(session)
        trees = [gen.make_tree(td, source=src) for td, src in zip(session, sources)]
        before = [{k: v.copy() for k, v in t.ndata.items()} for t in trees]
        results = []
        with warnings.catch_warnings():
            warnings.simplefilter("ignore")
            t = trees[-1]
            if case.get("warm"):
                IsometricResampler(case["warm"])(t); TreeSmoother(3)(t); t.get_branches(); t.length()
            # ONE transform object for the whole session
            tr = IsometricResampler(case["arg"]) if case["op"] == "iso" else TreeSmoother(case["arg"])
            for t in trees:
                y = tr(t)
                results.append({"pid": y.pid().tolist(), "id": y.id().tolist(), "xyz": y.xyz().astype(float).tolist(), "r": [float(v) for v in y.r()],
                                "length": float(y.length()), "length_in": float(t.length())})
        for t, b, r in zip(trees, before, results):
            r["input_unchanged"] = bool(all(np.array_equal(b[k], t.ndata[k]) for k in b))
        res = results[-1]
        if len(results) > 1:
            res["prior"] = results[:-1]
        return res

    @guarded
    def oracle(self, case, res):
        t = case_tree(case)
        if "exc" in res:
            return [(f"tree-{case['op']}-raises", f"{case.get('steps') or case['op']}({case['arg']}) on pids={short(t['pids'])} raised {res['exc']}: {res.get('msg')}")]
        if case["op"] == "pipeline":
            return self.pipeline_verdict(case, t, res)
        # every call of a session is held to the property: the trees the transform object met before, then the tree itself
        session = list(zip(case.get("prior") or [], res.get("prior") or [])) + [(t, res)]
        out = []
        for q, (tq, rq) in enumerate(session):
            for key, msg in self.verdict(case, tq, rq):
                if len(session) > 1:
                    msg = f"call {q + 1} of {len(session)} of one {case['op']} transform object (pids={short(tq['pids'])}): {msg}"
                out.append((key, msg))
        return out[:3]

    def pipeline_verdict(self, case, t, res):
        """every resampling / smoothing call of the chain against ITS OWN input: the input of call j+1 is what call j returned"""
        stages = res["stages"]
        if len(stages) != len(case["steps"]):
            return [("malformed-output", f"{len(stages)} results for {len(case['steps'])} calls")]
        out = []
        for j, ((op, arg), rq) in enumerate(zip(case["steps"], stages)):
            if op in ("iso", "smooth"):
                sub = dict(case, op=op, arg=arg, irrational=case.get("irrational") or j > 0)
                for key, msg in self.verdict(sub, t, rq):
                    out.append((key, f"call {j + 1} of the chain {case['steps']} (each call judged against its own input, pids={short(t['pids'])}): {msg}"))
            if out:
                break
            # the next call's input: the tree this call returned; its root / furcations / tips are the (lattice) positions the property keeps
            n = len(rq["id"])
            if not (len(rq["pid"]) == len(rq["xyz"]) == len(rq["r"]) == n) or well_formed(rq["id"], rq["pid"]) is not None:
                return [("malformed-output", f"call {j + 1} of the chain {case['steps']} returned a table that is not a tree")]
            _, cr = crit(rq["pid"])
            cr = set(cr)
            t = {"n": n, "pids": rq["pid"], "r": rq["r"], "xyz": [[round(c, 4) for c in p] if i in cr else list(p) for i, p in enumerate(rq["xyz"])]}
        return out[:3]

    def verdict(self, case, t, res):
        out = []
        n_out = len(res["id"])
        if not (len(res["pid"]) == len(res["xyz"]) == len(res["r"]) == n_out) or any(len(p) != 3 for p in res["xyz"]):
            return [("malformed-output", f"columns of the result have {n_out} / {len(res['pid'])} / {len(res['xyz'])} / {len(res['r'])} entries")]
        wf = well_formed(res["id"], res["pid"])
        if wf is not None:
            return [("resample-not-wellformed", wf)]
        # float32 is the storage type of coordinates: a stored coordinate is the stated one up to EPS32/2 * |coordinate|; `ftol` bounds
        # what that does to the distance of two stored points
        mag = max([abs(c) for p in t["xyz"] for c in p] + [1.0])
        ftol = 4 * EPS32 * mag
        unit = case.get("unit", 1.0)
        close = lambda a, b, tol=1e-4 + EPS32 * mag: all(abs(x - y) <= tol for x, y in zip(a, b))
        if case["op"] == "smooth":
            if res["pid"] != t["pids"]:
                out.append(("smooth-connectivity", "TreeSmoother changed the parent relation / node count"))
            elif res["r"] != [float(x) for x in t["r"]]:
                out.append(("smooth-radii", "TreeSmoother changed radii"))
            else:
                _, cr = crit(t["pids"])
                for i in cr:
                    if not close(res["xyz"][i], t["xyz"][i]):
                        out.append(("smooth-endpoints", f"root/furcation/tip {i} moved from {t['xyz'][i]} to {res['xyz'][i]}")); break
            return out
        # iso: critical nodes keep position and connectivity
        kids_in, cr_in = crit(t["pids"])
        kids_out, cr_out = crit(res["pid"])
        set_in, set_out = set(cr_in), set(cr_out)
        rnd = lambda p: tuple(round(c, 4) for c in p)
        pos_in = sorted(tuple(t["xyz"][i]) for i in cr_in)
        pos_out = sorted(rnd(res["xyz"][i]) for i in cr_out)
        if pos_in != [rnd(p) for p in pos_in] or pos_out != pos_in:
            out.append(("resample-critical-nodes", f"root/furcations/tips at {short(pos_in, 12)} became {short(pos_out, 12)} (pids={short(t['pids'])}, d={case['arg']})"))
        else:
            def up(pids, crset, i):
                j = pids[i]
                while j not in crset:
                    j = pids[j]
                return j
            ein = sorted((tuple(t["xyz"][i]), tuple(t["xyz"][up(t["pids"], set_in, i)])) for i in cr_in if i != 0)
            eout = sorted((rnd(res["xyz"][i]), rnd(res["xyz"][up(res["pid"], set_out, i)])) for i in cr_out if i != 0)
            if ein != eout:
                out.append(("resample-connectivity", "the branch tree of the result differs from the input's"))
            # the original branches, by the position of the key node they end at (sister branches may end at one point)
            ends_at = {}
            for x in cr_in:
                if x != 0:
                    ends_at.setdefault(tuple(t["xyz"][x]), []).append(x)
            d = case["arg"]
            found = False
            for i in cr_out:
                if i == 0 or found:
                    continue
                chain = [i]
                j = res["pid"][i]
                while True:
                    chain.append(j)
                    if j in set_out:
                        break
                    j = res["pid"][j]
                chain.reverse()                       # from the key node the branch leaves to the key node it ends at
                gaps = [math.dist(res["xyz"][a], res["xyz"][b]) for a, b in zip(chain, chain[1:])]
                why = None
                for ia in ends_at.get(rnd(res["xyz"][i]), []):
                    # the original branch ending at this key node: its polyline, radii and arc length
                    orig = [ia]
                    while True:
                        orig.append(t["pids"][orig[-1]])
                        if orig[-1] in set_in:
                            break
                    orig.reverse()
                    # the branch as the library receives it: coordinates are stored in float32
                    pts = [[float(np.float32(c)) for c in t["xyz"][x]] for x in orig]
                    if rnd(pts[0]) != rnd(res["xyz"][chain[0]]):
                        why = why or ("resample-connectivity", "a branch of the result leaves another key node than the original branch ending there")
                        continue
                    lens = [math.dist(a, b) for a, b in zip(pts, pts[1:])]
                    Lb = sum(lens)
                    n_expected = int(math.ceil(Lb / d)) + 1
                    irrational = case.get("irrational") or case["class"].startswith("iso/float") or abs(Lb / unit - round(Lb / unit)) > 1e-9   # lattice branches have lengths that are multiples of the unit
                    # what float32 arithmetic (differences, square roots, the running sum of the segment lengths) can move an arc length by
                    noise = EPS32 * Lb * (len(lens) + 4)
                    if irrational and abs(Lb - round(Lb / d) * d) <= noise + 1e-9 * d:
                        why = None; break      # an irrational branch length that is a multiple of the spacing up to float32 rounding: either count is right
                    # steps along each branch: equal and no longer than the spacing — n-1 steps of L/(n-1)
                    if len(chain) != n_expected:
                        why = why or ("resample-branch-count", f"a branch of length {Lb} resampled at {d} has {len(chain)} nodes, expected ceil(L/d)+1 = {n_expected}")
                        continue
                    if max(gaps) > Lb / (n_expected - 1) + 1e-4 + ftol + noise:
                        why = why or ("resample-step", f"a branch of length {Lb} resampled at {d}: gaps {['%.3f' % g for g in gaps[:12]]} exceed the equal step {Lb / (n_expected - 1):.4f}")
                        continue
                    # every other node lies on the original polyline at its equal arc-length step, with the linearly interpolated radius
                    bad = None
                    rr_in = [t["r"][x] for x in orig]
                    for q in range(1, len(chain) - 1):
                        sq = q * Lb / (n_expected - 1)
                        pq, rq = along(pts, lens, rr_in, sq)
                        if not close(res["xyz"][chain[q]], pq, 1e-4 + EPS32 * mag + noise):
                            bad = ("resample-off-polyline", f"node {q} of a resampled branch of length {Lb} (d={d}) is at {res['xyz'][chain[q]]}, the original polyline at arc length {sq:.4f} is {pq}"); break
                        rlo, rhi = radius_range(pts, lens, rr_in, sq, 1e-4 + ftol + noise)
                        if not rlo - 1e-4 * max(1.0, abs(rlo)) <= res["r"][chain[q]] <= rhi + 1e-4 * max(1.0, abs(rhi)):
                            bad = ("resample-radius", f"node {q} of a resampled branch of length {Lb} (d={d}) has radius {res['r'][chain[q]]}, linear interpolation along the branch gives {rq}"); break
                    if bad is None:
                        why = None; break
                    why = why or bad
                if why:
                    out.append(why); found = True
        # total length never grows (each of the stored nodes may be off by float32 rounding of its coordinates)
        if res["length"] > res["length_in"] * (1 + 1e-5) + 1e-5 + n_out * ftol:
            out.append(("resample-length-grows", f"total length grew from {res['length_in']} to {res['length']}"))
        if not res["input_unchanged"]:
            out.append(("resample-mutates-input", "the tree handed in was modified"))
        return out[:3]

    def nontrivial(self, case, res):
        return "deep" in case or case["tree"]["n"] >= 3


class PairSuite(Suite):
    """`BranchTreeAssembler.pair`: the greedy matching of resampled branches with the children they end at"""
    name = "c16.pair"

    def cases(self, rng, tier, widen):
        out = []
        big = tier == "thorough" or widen
        for m in [1, 2, 3, 4, 6] + ([9, 14] if big else []):
            for rep in range(4 if not big else 10):
                pts = set()
                while len(pts) < 2 * m:
                    pts.add(tuple(rng.randint(-9, 9) for _ in range(3)))
                pts = list(pts); rng.shuffle(pts)
                kids = pts[:m]
                if rep == 3 and m >= 2:   # several children at ONE place: sister branches ending at the same point
                    places = pts[:rng.randint(1, max(1, m - 1))]
                    kids = [rng.choice(places) for _ in range(m)]
                    sigma = list(range(m)); rng.shuffle(sigma)
                    ends = [kids[sigma[b]] for b in range(m)]
                    out.append({"class": f"sameplace/m{m}", "ends": [list(p) for p in ends], "kids": [list(p) for p in kids], "sigma": None, "same": True})
                    continue
                if rep % 2 == 0:      # every branch ends exactly at its own child, in scrambled order
                    sigma = list(range(m)); rng.shuffle(sigma)
                    ends = [kids[sigma[b]] for b in range(m)]
                    cls = "exact"
                else:                 # arbitrary end points (whatever the resampler produced): the greedy rule as such
                    ends = pts[m:]; sigma = None
                    cls = "general"
                out.append({"class": f"{cls}/m{m}", "ends": [list(p) for p in ends], "kids": [list(p) for p in kids], "sigma": sigma})
        return out

    def run(self, case):
        from swcgeom.core import Branch, Tree
        from swcgeom.transforms.branch_tree import BranchTreeAssembler

        m = len(case["ends"])
        xyz = np.array([[0.5, 0.25, 0.125]] + case["ends"] + case["kids"], dtype=np.float32)
        n = 2 * m + 1
        t = Tree(n, id=np.arange(n, dtype=np.int32), pid=np.array([-1] + [0] * (2 * m), dtype=np.int32), type=np.array([1] + [3] * (2 * m), dtype=np.int32),
                 x=xyz[:, 0].copy(), y=xyz[:, 1].copy(), z=xyz[:, 2].copy(), r=np.ones(n, dtype=np.float32))
        branches = [Branch(t, np.array([0, 1 + b], dtype=np.int32)) for b in range(m)]
        endpoints = [t.node(1 + m + e) for e in range(m)]
        pairs = BranchTreeAssembler().pair(branches, endpoints)
        return {"pairs": [[int(br.get_ndata("id")[-1]) - 1, int(nd.id) - 1 - m] for br, nd in pairs]}

    def lines(self, case, res):
        if "exc" in res:
            return []
        d2 = [[sum((a - b) ** 2 for a, b in zip(e, k)) for k in case["kids"]] for e in case["ends"]]
        flat = sorted(v for row in d2 for v in row)
        return [("pair d=" + ";".join(",".join(str(v) for v in row) for row in d2), ",".join(f"{b}:{e}" for b, e in res["pairs"]))]

    @guarded
    def oracle(self, case, res):
        if "exc" in res:
            return [("pair-raises", f"{res['exc']}: {res.get('msg')}")]
        m = len(case["ends"])
        out = []
        if sorted(b for b, _ in res["pairs"]) != list(range(m)) or sorted(e for _, e in res["pairs"]) != list(range(m)):
            out.append(("pair-not-a-matching", f"pairs {res['pairs']} do not use every branch and every child exactly once"))
        elif case.get("same"):
            bad = [(b, e) for b, e in res["pairs"] if case["ends"][b] != case["kids"][e]]
            if bad:
                out.append(("pair-wrong-place", f"branch {bad[0][0]} ends at {case['ends'][bad[0][0]]} but was paired with child {bad[0][1]} at {case['kids'][bad[0][1]]} although a child lies at its end point"))
        elif case["sigma"] is not None:
            bad = [(b, e) for b, e in res["pairs"] if case["sigma"][b] != e]
            if bad:
                out.append(("pair-wrong-child", f"branch {bad[0][0]} ends exactly at child {case['sigma'][bad[0][0]]} but was paired with child {bad[0][1]}"))
        return out

    def nontrivial(self, case, res):
        return len(case["ends"]) >= 2


class AssembleSuite(Suite):
    """`BranchTreeAssembler` on resampled branch trees: the parent column it builds against the model `Asm.assemble` (explicit stack, id
    allocation by the length of the node list).  The model's input is the branch tree with, per key node, its children in the order in
    which `pair` returns them and the number of interior samples kept on each branch (resampled length minus the trimmed end points)."""
    name = "c16.assemble"
    case_timeout = 30

    def cases(self, rng, tier, widen):
        out = []
        big = tier == "thorough" or widen
        k = 0
        for _ in range(90 if big else 24):
            n = rng.choice([2, 3, 5, 8, 13, 21] + ([40, 80] if big else []))
            t = None
            while t is None:
                pids = gen.parents_sorted(rng, n, gen.pick_shape(rng, k)); k += 1
                if rng.random() < 0.5:
                    pids = gen.renumber_root0(rng, pids)
                t = lattice_tree(rng, pids)
            out.append({"class": f"n{min(n, 40)}", "tree": t, "d": rng.choice([0.25, 0.5, 1.0, 1.5, 2.5, 7.0]), "gap": rng.random() < 0.5})
        # branch trees nested deeper than the interpreter's recursion limit (and, for comparison, well below it); the model side is
        # compared on the cases above, these are judged by the oracle only
        for dsc in deep_descs(rng, big, 2 if not big else 5, 1 if not big else 2):
            cls = dsc.pop("class")
            out.append({"class": cls, "deep": dsc, "d": rng.choice([1.0, 2.5, 7.0, 40.0]), "gap": rng.random() < 0.5, "big": True})
        return out

    def run(self, case):
        from swcgeom.core import BranchTree
        from swcgeom.transforms.branch import BranchIsometricResampler
        from swcgeom.transforms.branch_tree import BranchTreeAssembler

        x = gen.make_tree(case_tree(case))
        bt = BranchTree.from_tree(x)
        rs = BranchIsometricResampler(case["d"], adjust_last_gap=case["gap"])
        bt.branches = {k: [rs(br) for br in brs] for k, brs in bt.branches.items()}
        asm = BranchTreeAssembler()
        # the model's input, read off the objects the assembler is handed (before it runs)
        order, parent, m = [0], {0: -1}, {0: 0}            # key nodes of the branch tree in BFS order, children in pairing order
        num = {int(bt.soma().id): 0}
        queue = [bt.soma()]
        eps = asm.EPS
        # the input of the GENERATED assembler (driver op `gasm`): the columns of the branch tree, every branch of `x.branches` (numbered in
        # dictionary order) with its key and its number of samples, the pairing `pair` returns and the two duplicate tests, as tables
        allbr = [(int(key), br) for key, brs in bt.branches.items() for br in brs]
        gnum = {id(br): g for g, (_, br) in enumerate(allbr)}
        pb, pc, fs, fe = [], [], [0] * len(allbr), [0] * len(allbr)
        while queue:
            nd = queue.pop(0)
            pairs = list(asm.pair(bt.branches.get(nd.id, []), nd.children()))
            for br, c in pairs:
                s = 1 if np.linalg.norm(br[0].xyz() - nd.xyz()) < eps else 0
                e = 1 if np.linalg.norm(br[-1].xyz() - c.xyz()) < eps else 0
                j = len(order)
                num[int(c.id)] = j; order.append(j); parent[j] = num[int(nd.id)]; m[j] = len(br) - s - e
                pb.append(gnum[id(br)]); pc.append(int(c.idx)); fs[gnum[id(br)]] = s; fe[gnum[id(br)]] = e
                queue.append(c)
        g = {"ids": [int(v) for v in bt.id()], "pids": [int(v) for v in bt.pid()], "bkey": [k for k, _ in allbr],
             "blen": [len(br) for _, br in allbr], "pb": pb, "pc": pc, "s": fs, "e": fe}
        y = asm(bt)
        return {"bt_pids": [parent[j] for j in order], "m": [m[j] for j in order], "pid": [int(v) for v in y.pid()], "id": [int(v) for v in y.id()], "g": g}

    def lines(self, case, res):
        if "exc" in res or case.get("big"):
            return []
        g = res["g"]
        return [(f"asm pids={gen.ints(res['bt_pids'])} m={gen.ints(res['m'])}", gen.ints(res["pid"])),
                # the GENERATED `BranchTreeAssembler.__call__` on what the real one was handed: same (id, pid) table, one `pair` call per key node
                ("gasm " + " ".join(f"{k}={gen.ints(g[k])}" for k in ("ids", "pids", "bkey", "blen", "pb", "pc", "s", "e")),
                 f"{gen.ints(res['id'])} / {gen.ints(res['pid'])} / {len(g['ids'])}")]

    @guarded
    def oracle(self, case, res):
        if "exc" in res:
            return [("assemble-raises", f"{res['exc']}: {res.get('msg')} on pids={short(case_tree(case)['pids'])} d={case['d']}")]
        pid = res["pid"]
        out = []
        if res["id"] != list(range(len(pid))) or pid[0] != -1 or any(not (0 <= p < k) for k, p in enumerate(pid) if k > 0):
            out.append(("assemble-not-wellformed", f"assembled table ids {res['id'][:8]} pids {pid[:12]}: not a tree with parents before children"))
        if len(pid) != 1 + sum(v + 1 for v in res["m"][1:]):
            out.append(("assemble-count", f"{len(pid)} rows for {len(res['m'])} key nodes with {res['m'][1:]} interior samples"))
        return out


class ResamTreeSuite(Suite):
    """The TREE-level drivers `Resampler.__call__` (as `IsometricResampler`) and `TreeSmoother.__call__` against their GENERATED translations
    (Gen/AlgoResampleTree.lean, driver op `gresamtree`): the generated driver is run on the ORIGINAL tree's columns; for the resampler the
    callbacks answer what the library's branch resampler / `pair` / duplicate tests answered (sample counts in call order, pairing, flags),
    the (id, pid) table must be the real one exactly; for the smoother the generated code runs at exact rationals on the float32 columns and
    the x, y, z columns must agree within 1e-5."""
    name = "c16.resamtree"
    case_timeout = 30

    def cases(self, rng, tier, widen):
        out = []
        big = tier == "thorough" or widen
        k = 0
        for j in range(60 if big else 16):
            n = rng.choice([2, 3, 5, 8, 13, 21] + ([40] if big else []))
            t = None
            while t is None:
                pids = gen.parents_sorted(rng, n, gen.pick_shape(rng, k)); k += 1
                if rng.random() < 0.5:
                    pids = gen.renumber_root0(rng, pids)
                t = lattice_tree(rng, pids)
            if j % 2 == 0:
                out.append({"class": f"resample-n{min(n, 40)}", "kind": "resample", "tree": t, "d": rng.choice([0.25, 0.5, 1.0, 1.5, 2.5, 7.0]),
                            "gap": rng.random() < 0.5})
            else:
                out.append({"class": f"smooth-n{min(n, 40)}", "kind": "smooth", "tree": t, "k": rng.choice([1, 2, 3, 4, 5, 7])})
        return out

    def run(self, case):
        x = gen.make_tree(case_tree(case))
        base = {"ids": [int(v) for v in x.id()], "pids": [int(v) for v in x.pid()]}
        if case["kind"] == "smooth":
            from swcgeom.transforms import TreeSmoother
            cols = {c: [float(v) for v in x.get_ndata(c)] for c in "xyz"}
            y = TreeSmoother(case["k"])(x)
            return {**base, "in": cols, "out": {c: [float(v) for v in y.get_ndata(c)] for c in "xyz"},
                    "same_topology": [int(v) for v in y.id()] == base["ids"] and [int(v) for v in y.pid()] == base["pids"],
                    "r_same": bool(np.array_equal(y.r(), x.r()))}
        from swcgeom.transforms import IsometricResampler
        rsm = IsometricResampler(case["d"], adjust_last_gap=case["gap"])
        made, pb, pc = [], [], []
        inner, pair0, eps = rsm.resampler, rsm.assembler.pair, rsm.assembler.EPS

        def resampler(br):
            y = inner(br); made.append(y); return y

        def pair(branches, endpoints):
            pairs = list(pair0(branches, endpoints))
            for br, c in pairs:
                pb.append([id(m) for m in made].index(id(br))); pc.append(int(c.idx))
            nd = endpoints[0].parent() if endpoints else None
            for br, c in pairs:
                g = pb[len(flags)]
                flags.append((g, int(np.linalg.norm(br[0].xyz() - nd.xyz()) < eps), int(np.linalg.norm(br[-1].xyz() - c.xyz()) < eps)))
            return pairs

        flags = []
        rsm.resampler, rsm.assembler.pair = resampler, pair
        y = rsm(x)
        fs, fe = [0] * len(made), [0] * len(made)
        for g, a, b in flags:
            fs[g], fe[g] = a, b
        return {**base, "blen": [len(br) for br in made], "pb": pb, "pc": pc, "s": fs, "e": fe, "npair": len({c for c in pc}),
                "id": [int(v) for v in y.id()], "pid": [int(v) for v in y.pid()]}

    def lines(self, case, res):
        if "exc" in res:
            return []
        head = f"gresamtree op={case['kind']} ids={gen.ints(res['ids'])} pids={gen.ints(res['pids'])}"
        if case["kind"] == "smooth":
            want = [res["out"][c] for c in "xyz"]

            def close(out):
                m = parse_cols(out)
                return len(m) == 3 and all(len(a) == len(b) and all(abs(u - v) <= 1e-5 * max(1.0, abs(v)) for u, v in zip(a, b)) for a, b in zip(m, want))
            return [(head + " " + " ".join(f"{c}={rats(res['in'][c])}" for c in "xyz") + f" k={case['k']}", Expect(close, f"impl: {want}"))]
        return [(head + " " + " ".join(f"{k}={gen.ints(res[k])}" for k in ("blen", "pb", "pc", "s", "e")),
                 Expect(lambda out: out.split(" / ")[:2] == [gen.ints(res["id"]), gen.ints(res["pid"])] and out.split(" / ")[3:] == [str(len(res["blen"]))],
                        f"impl: {gen.ints(res['id'])} / {gen.ints(res['pid'])} / * / {len(res['blen'])}"))]

    @guarded
    def oracle(self, case, res):
        if "exc" in res:
            return [("resamtree-raises", f"{res['exc']}: {res.get('msg')} on pids={short(case_tree(case)['pids'])}")]
        out = []
        if case["kind"] == "smooth":
            if not res["same_topology"] or not res["r_same"] or any(len(res["out"][c]) != len(res["in"][c]) for c in "xyz"):
                out.append(("smooth-tree-topology", "TreeSmoother changed ids / pids / radii / the node count"))
            pids = res["pids"]
            deg = [0] * len(pids)
            for p in pids:
                if p >= 0:
                    deg[p] += 1
            for i, p in enumerate(pids):
                if p < 0 or deg[i] != 1:          # root, furcations, tips
                    if any(abs(res["out"][c][i] - res["in"][c][i]) > 1e-6 for c in "xyz"):
                        out.append(("smooth-tree-endpoint", f"node {i} (root / furcation / tip) moved")); break
            # C16Tree2.generated_smooth_tree: the rows of EVERY branch are the windowed means of the ORIGINAL rows of that branch (whatever the
            # order in which the branches were processed); branches and windows recomputed here from the parent column alone
            kids = {}
            for i, p in enumerate(pids):
                kids.setdefault(p, []).append(i)
            k = case["k"]
            hi_off = (k - 1) // 2
            for top in range(len(pids)):
                if pids[top] >= 0 and deg[top] == 1:
                    continue
                for c0 in kids.get(top, []):
                    br = [top, c0]
                    while deg[br[-1]] == 1:
                        br.append(kids[br[-1]][0])
                    for c in "xyz":
                        v = [res["in"][c][i] for i in br]
                        for j in range(1, len(br) - 1):
                            win = [v[a] for a in range(max(0, j + hi_off - k + 1), min(len(br) - 1, j + hi_off) + 1)]
                            want = sum(win) / len(win)
                            if abs(res["out"][c][br[j]] - want) > 1e-4 * max(1.0, abs(want)):
                                out.append(("smooth-tree-branch", f"node {br[j]} of branch {br[:6]}: {c} = {res['out'][c][br[j]]}, windowed mean of the original branch = {want}"))
                                return out
            return out
        pid = res["pid"]
        if res["id"] != list(range(len(pid))) or pid[0] != -1 or any(not (0 <= p < k) for k, p in enumerate(pid) if k > 0):
            out.append(("resample-tree-not-wellformed", f"resampled table ids {res['id'][:8]} pids {pid[:12]}"))
        return out

    def nontrivial(self, case, res):
        return "exc" not in res and len(res["ids"]) >= 3


SUITES = [BranchSuite(), TreeSuite(), PairSuite(), AssembleSuite(), ResamTreeSuite()]
TECHNIQUE = ("Lean 4 theorems over ℚ about the models of np.interp / linspace (end points, equal steps no longer than the spacing, every sample a convex combination "
             "of two consecutive originals, radii by the same interpolation; over ℝ with the Euclidean norm: the polyline through the samples of both resamplers is no longer than the original, for any sorted abscissae), of the smoother (end points, count) and of the re-assembly rule (no interior sample "
             "lost; the greedy branch/child pairing returns a perfect matching at distance 0, also when sister branches end at one point; the table the assembler builds (explicit stack, id allocation) equals a structural recursion over the branch tree and is, for every branch tree, sample counts and pairing order, a parent-before-child tree table in which each branch is a chain of its samples between the copies of its key nodes) "
             "+ differential correspondence with tolerance (assembled parent column: exactly) + an oracle that walks the original polyline by arc length")
LEVEL_TEXT = ("Kernel-checked over the rationals: the resampling positions start at 0, end at the branch length, are equally spaced with step ≤ the requested spacing, "
              "their number is ⌈L/d⌉+1; interpolation returns the first/last original at the ends and otherwise a convex combination of two consecutive originals "
              "(for coordinates and radii alike); in Euclidean 3-space (real square roots) a resampled branch is never longer than the original branch, for every spacing, both gap modes and every point count; smoothing keeps end points and node count; the re-assembly keeps every interior sample exactly once; the assembler's greedy pairing returns every branch once and every child once, each branch with a child lying exactly at its end point (whatever the order, also when several children lie at one place).")
LEVEL_NOTE = "Trusted: Lean kernel; rational models - proved equal to the per-branch routines, the assembler loop and the tree-level Resampler / TreeSmoother drivers as translated from the source - and compared with the float results with tolerance; float rounding, square roots, scipy convolve (the assembler's greedy pairing is modelled and tied by c16.pair)."
