"""C09 — node, path, branch and segment views are faithful windows onto their tree."""
import math
import warnings

import numpy as np

from harness import gen
from harness.framework import CaseTimeout, Suite

PID = "C09"
LEAN_MODS = ["SwcVerif.Props.C09", "SwcVerif.Props.C09Gen", "SwcVerif.Props.C09Helpers"]
# Gen/AlgoViews.lean is regenerated on every run from node.py / path.py / tree.py / branch.py / compartment.py / swc.py (harness/algo_specs/70_views.py)
TRANSLATE_ALGO = ["AlgoViews", "AlgoHelpers"]
DRIVER_FILES = ["SwcVerif/Model/AlgoRunViews.lean", "SwcVerif/Model/PyViews.lean", "SwcVerif/Gen/AlgoViews.lean", "SwcVerif/Model/AlgoRunHelpers.lean", "SwcVerif/Gen/AlgoHelpers.lean"]
THEOREMS = [
    "C09.mkTree_wf", "C09.step_wf", "C09.run_wf", "C09.at_spec", "C09.view_reads_owner", "C09.reads_pure", "C09.node_write_through",
    "C09.write_then_view_read", "C09.copy_fresh", "C09.detach_fresh", "C09.write_frame", "C09.tree_segments", "C09.branch_segments",
    # about the definitions GENERATED from the current sources (Gen/AlgoViews.lean; proofs in Refine/Views.lean)
    "C09.generated_view_read_eq_model", "C09.generated_path_column", "C09.generated_path_getitem_int", "C09.generated_tree_getitem_int",
    "C09.generated_path_getitem_slice", "C09.generated_tree_getitem_slice", "C09.generated_node_write_through",
    "C09.generated_write_then_view_read", "C09.generated_path_node_write_lost", "C09.generated_detach", "C09.generated_copy",
    "C09.generated_branch_segments", "C09.generated_tree_segments",
    # the remaining object helpers (Gen/AlgoHelpers.lean; proofs in Refine/Helpers.lean, T41)
    "C09.generated_get_node", "C09.generated_path_iter", "C09.generated_iter_live", "C09.generated_branch_detach",
    "C09.generated_branch_detach_agrees", "C09.generated_compartment_detach", "C09.generated_tree_iter", "C09.generated_tree_iter_live",
]
TRUSTED = ["imperative translator harness/translate_algo.py + the hooks and glue listed at the top of harness/algo_specs/70_views.py + Model/Py.lean / PyViews.lean "
           "(slice.indices, range, fancy indexing), cross-checked by running every generated definition on the c09.history histories (gviews / gslice); "
           "records hold their owner by VALUE: Python's reference to the owner is the caller's store (Model/AlgoRunViews.lean)",
           "the glue listed at the top of harness/algo_specs/72_helpers.py (Path/Tree.__iter__: a generator is the list of its values; Branch/Compartment.detach: "
           "the DictSWC(**{...}) statement; method resolution of Branch(...) / Compartment(...)), cross-checked by the ghelpers lines (Model/AlgoRunHelpers.lean)",
           "hand-written heap model Model/Views.lean (owners, arrays, views; where numpy aliases and where it copies), tied by the c09.history correspondence: "
           "every read of every operation history compared exactly, plus np.shares_memory observations in the oracle"]
ASSUMPTIONS = ["numpy: integer indexing and basic slices are views, fancy indexing and np.array(...) copy; copy.deepcopy copies arrays",
               "slice.indices (CPython); writes through a node of a PATH/BRANCH are lost by design of the library (the property speaks of node handles of a tree)"]

COLS = ["id", "type", "x", "y", "z", "r", "pid"]

# ----------------------------------------------------------------------------- trees with their own column names / extra columns
# `names=` (an SWCNames table) is a documented option of Tree / DictSWC / from_data_frame, and a tree may carry further per-node columns
# (the eswc ones, or anything a user adds).  A view, a copy and a detached copy have to work for such a tree exactly as for a default one.
ALT_NAMES = {"id": ["n", "ID", "node_id", "sample"], "type": ["T", "kind", "structure", "label"], "x": ["X", "px", "pos_x", "x_um"],
             "y": ["Y", "py", "pos_y", "y_um"], "z": ["Z", "pz", "pos_z", "z_um"], "r": ["radius", "R", "rad", "r_um"],
             "pid": ["parent", "PID", "parent_id", "father"]}
EXTRA_COLS = ["level", "mode", "timestamp", "feature_value", "score"]


def gen_names(rng, mode=None):
    """a column-name table: {standard column -> name used by this tree}, only the renamed ones listed"""
    mode = mode or rng.choice(["all", "some", "topology", "geometry", "one"])
    if mode == "all":
        cols = list(COLS)
    elif mode == "topology":
        cols = ["id", "pid"]
    elif mode == "geometry":
        cols = ["x", "y", "z", "r"]
    elif mode == "one":
        cols = [rng.choice(COLS)]
    else:
        cols = [c for c in COLS if rng.random() < 0.5] or [rng.choice(COLS)]
    return {c: rng.choice(ALT_NAMES[c]) for c in cols}


def gen_extra(rng, n):
    return {k: [rng.randint(-9, 99) for _ in range(n)] for k in rng.sample(EXTRA_COLS, rng.randint(1, 2))}


def decorate(rng, t, k):
    """a guaranteed share of the trees of every suite: every third one has its own column names, every fourth one extra columns"""
    t["names"] = gen_names(rng, ["all", "some", "topology", "geometry", "one"][(k // 3) % 5]) if k % 3 == 1 else None
    t["extra"] = gen_extra(rng, t["n"]) if k % 4 == 2 or (k % 3 == 1 and rng.random() < 0.5) else None
    return t


def actual(tc, c):
    """the name under which the tree of this case was given its standard column c"""
    return (tc.get("names") or {}).get(c, c)


def build_tree(tc, strided=False):
    """the real Tree of a tree case, honouring its column names and extra columns"""
    from swcgeom.core import Tree
    from swcgeom.core.swc_utils import SWCNames

    n = tc["n"]
    if strided:
        # the same neuron, its float columns being strided views of one (n, 4) matrix (as Branch.from_xyzr and many loaders do)
        m = np.array([p + [rr] for p, rr in zip(tc["xyz"], tc["r"])], dtype=np.float32)
        fl = {"x": m[:, 0], "y": m[:, 1], "z": m[:, 2], "r": m[:, 3]}
    else:
        xyz = np.array(tc["xyz"], dtype=np.float32).reshape(n, 3)
        fl = {"x": xyz[:, 0].copy(), "y": xyz[:, 1].copy(), "z": xyz[:, 2].copy(), "r": np.array(tc["r"], dtype=np.float32)}
    cols = {"id": np.arange(n, dtype=np.int32), "pid": np.array(tc["pids"], dtype=np.int32), "type": np.array(tc["types"], dtype=np.int32), **fl}
    kw = {actual(tc, c): v for c, v in cols.items()}
    for k, v in (tc.get("extra") or {}).items():
        kw[k] = np.array(v, dtype=np.int32)
    if tc.get("names"):
        kw["names"] = SWCNames(**tc["names"])
    return Tree(n, **kw)


def column(o, c, via="key"):
    """standard column c of a tree / standalone table / view, asked the way a user does: through the accessor method, or by the
    name the object's own `names` table gives the column (for a view: the original ids of its nodes, not its 0..k-1 positions)"""
    if via == "method":
        if c in ("id", "pid") and hasattr(o, "origin_id"):
            return o.origin_id() if c == "id" else o.origin_pid()
        return getattr(o, c)()
    return o.get_ndata(getattr(o.names, c))


def helper_ops(vw, j, objs, salt):
    """T41: the object helpers `Path.__iter__`, `Path.get_node`, `Branch.detach`, `Compartment.detach` on the view `vw` (number j) of a history:
    (token of the `ghelpers` op, expected output) pairs.  Nothing here changes the state of the history (the store of `itw` is undone)."""
    import warnings
    from swcgeom.core import Branch, Tree

    def attempt(f):
        try:
            return "[" + ",".join(str(int(v)) for v in f()) + "]"
        except IndexError:
            return "E"
    nm = vw.names
    out = []
    for c in ("id", "type"):
        out.append((f"it:{j}:{c}", attempt(lambda: [nd[getattr(nm, c)] for nd in vw])))
    own = vw.attach
    oi = next((i for i, x in enumerate(objs) if x is own), None)
    n = len(vw.idx)
    if isinstance(own, Tree) and oi is not None and n:
        # handles made BEFORE a store through the tree are read AFTER it: they must be live windows
        row = int(vw.idx[salt % n])

        def live():
            hs = list(iter(vw))
            old = int(own[row][nm.type])
            own[row][nm.type] = 88
            try:
                return [h[nm.type] for h in hs]
            finally:
                own[row][nm.type] = old
        out.append((f"itw:{j}:{row}:type:88", attempt(live)))
    for k in (salt % (n + 1), -1 - (salt % (n + 1)), n + 1):
        def gn(k=k):
            with warnings.catch_warnings():
                warnings.simplefilter("ignore")
                return [vw.get_node(k)[nm.type]]
        out.append((f"gn:{j}:{k}:type", attempt(gn)))
    for c in ("id", "pid", "type", "x"):
        out.append((f"bdt:{j}:{c}", attempt(lambda: Branch(vw.attach, vw.idx).detach().attach.get_ndata(getattr(nm, c)))))
    if isinstance(own, Tree) and oi is not None:
        out.append((f"tit:{oi}:type", attempt(lambda: [nd[nm.type] for nd in own])))
        ti = salt % (own.number_of_nodes() + 1) - (salt % 2) * own.number_of_nodes()       # in range, negative, or one past the end

        def tlive():
            hs = list(iter(own))
            old = int(own[ti][nm.x])
            own[ti][nm.x] = 55
            try:
                return [h[nm.x] for h in hs]
            finally:
                own[ti][nm.x] = old
        out.append((f"titw:{oi}:{ti}:x:55", attempt(tlive)))
        jj = salt % max(1, own.number_of_nodes())
        for c in ("id", "pid", "z"):
            out.append((f"cdt:{oi}:{jj}:{c}", attempt(lambda: own.get_compartments()[jj].detach().attach.get_ndata(getattr(nm, c)))))
    return out


def tree_columns(t):
    """reference content of a tree case: standard and extra columns as integer lists"""
    d = {"id": list(range(t["n"])), "pid": list(t["pids"]), "type": list(t["types"]), "x": [int(p[0]) for p in t["xyz"]],
         "y": [int(p[1]) for p in t["xyz"]], "z": [int(p[2]) for p in t["xyz"]], "r": [int(v) for v in t["r"]]}
    for k, v in (t.get("extra") or {}).items():
        d[k] = list(v)
    return d


def observe_detached(d, extra):
    """what a detached path / branch / compartment reports about itself (its positions 0..k-1 as ids, documented for paths)"""
    try:
        o = {"len": len(d), "cols": {c: [int(v) for v in getattr(d, c)()] for c in COLS},
             "xyzr": np.asarray(d.xyzr()).astype(int).tolist(), "extra": {k: [int(v) for v in d.get_ndata(k)] for k in extra}}
        if len(d):
            o["nodes"] = {str(j): [int(getattr(d[j], c)) for c in COLS] for j in (0, -1)}
        return o
    except CaseTimeout:
        raise
    except Exception as e:  # noqa: BLE001 - the oracle reports it with the view it came from
        return {"raises": f"{type(e).__name__}: {str(e)[:120]}"}


def expect_detached(cols, idx):
    """the reference for observe_detached: the owner's current rows idx, renumbered 0..k-1"""
    d = {c: [v[i] for i in idx] for c, v in cols.items()}
    k = len(idx)
    d["id"] = list(range(k)); d["pid"] = list(range(-1, k - 1))
    o = {"len": k, "cols": {c: d[c] for c in COLS}, "xyzr": [[d["x"][j], d["y"][j], d["z"][j], d["r"][j]] for j in range(k)],
         "extra": {c: d[c] for c in d if c not in COLS}}
    if k:
        o["nodes"] = {str(j): [d[c][j] for c in COLS] for j in (0, -1)}
    return d, o


def diff_detached(got, want):
    if "raises" in got:
        return f"cannot report its content: {got['raises']}"
    for f in ("len", "cols", "xyzr", "extra", "nodes"):
        if got.get(f) != want.get(f):
            return f"{f}: {got.get(f)}, the nodes it was taken from have {want.get(f)}"
    return None


def observe_node_copy(h, d):
    """every attribute a node handle `h` and its detached copy `d` report: their key sets and, key by key, the value (a tree may carry
    per-node columns beyond the seven SWC ones: the eswc columns, or anything given to Tree(...))"""
    def read(o, k):
        try:
            return float(np.asarray(o[k]).reshape(-1)[0])
        except CaseTimeout:
            raise
        except Exception as e:  # noqa: BLE001 - judged by the oracle
            return f"{type(e).__name__}: {str(e)[:60]}"

    def keys(o):
        try:
            return sorted(str(k) for k in o.keys())
        except CaseTimeout:
            raise
        except Exception as e:  # noqa: BLE001
            return f"{type(e).__name__}: {str(e)[:60]}"
    hk, dk = keys(h), keys(d)
    return {"hkeys": hk, "dkeys": dk, "hvals": {k: read(h, k) for k in hk} if isinstance(hk, list) else None,
            "dvals": {k: read(d, k) for k in hk} if isinstance(hk, list) else None}


def judge_node_copy(t, i, o):
    """a handle reports exactly the attributes of its row (all columns of the tree); its detached copy has equal content (all of them; a
    detached node is a one-node table of its own, so its id / pid are not compared)"""
    cols = tree_columns(t)
    allk = sorted([actual(t, c) for c in COLS] + list(t.get("extra") or {}))
    hk, dk, hv, dv = (o.get(f) for f in ("hkeys", "dkeys", "hvals", "dvals"))
    if hk != allk:
        return ("node-read", f"its keys() are {hk}, the tree has the columns {allk}")
    if not isinstance(hv, dict) or not isinstance(dv, dict):
        return ("node-read", f"its attributes cannot be read: {hv} / {dv}")
    for k in (t.get("extra") or {}):
        if hv.get(k) != float(cols[k][i]):
            return ("node-read", f"its column {k!r} reads {hv.get(k)}, row {i} holds {cols[k][i]}")
    if dk != hk:
        return ("copy-content", f"its detached copy has the columns {dk}, the handle has {hk}")
    skip = {actual(t, "id"), actual(t, "pid")}
    for k in hk:
        if k not in skip and (isinstance(dv.get(k), str) or dv.get(k) != hv.get(k)):
            return ("copy-content", f"column {k!r} of its detached copy reads {dv.get(k)}, the handle reads {hv.get(k)}")
    return None


def gen_history(rng, n, branches):
    """ops over object 0 (the tree); object / view ids are assigned in creation order"""
    ops = []
    nobj, views = 1, []          # views: (owner, idx)
    objlen = {0: n}
    for _ in range(rng.randint(4, 14)):
        k = rng.choice(["r", "nr", "nr", "nw", "nw", "ow", "mv", "vr", "vr", "vn", "cp", "dt", "sg", "vs", "sl"])
        o = rng.randrange(nobj)
        m = objlen[o]
        c = rng.choice(["x", "y", "z", "r", "type"])
        if k == "r":
            ops.append(("r", o, rng.choice(COLS)))
        elif k == "nr":
            ops.append(("nr", o, rng.randint(-m - 1, m), rng.choice(COLS)))
        elif k == "nw":
            i = rng.randint(-m, m - 1)
            ops.append(("nw", o, i, c, rng.randint(-50, 50)))
            if rng.random() < 0.7:              # … and look at it again, through the handle and through the owner
                ops.append(rng.choice([("nr", o, i, c), ("r", o, c)]))
        elif k == "ow":
            ops.append(("ow", o, rng.randrange(m), c, rng.randint(-50, 50)))
        elif k == "mv":
            if o == 0 and branches and rng.random() < 0.7:
                idx = rng.choice(branches)
            else:
                idx = [rng.randrange(m) for _ in range(rng.randint(1, 4))]
            ops.append(("mv", o, list(idx))); views.append((o, list(idx)))
            if o == 0 and rng.random() < 0.6:
                # the SAME view object read, then one of its nodes written through the owner's handle, then read again
                v = len(views) - 1
                cc = rng.choice(["x", "y", "z", "r", "type"])
                ops.append(("vr", v, cc))
                ops.append(("nw", 0, rng.choice(idx), cc, rng.randint(-50, 50)))
                ops.append(rng.choice([("vr", v, cc), ("vn", v, rng.randrange(len(idx)), cc), ("vn", v, -1, cc)]))
                if rng.random() < 0.4:
                    ops.append(("dt", v)); objlen[nobj] = len(idx); nobj += 1
                    ops.append(("r", nobj - 1, cc))
        elif k in ("vr", "vn", "dt", "vs") and views:
            v = rng.randrange(len(views))
            if k == "vr":
                ops.append(("vr", v, rng.choice(COLS)))
            elif k == "vn":
                ops.append(("vn", v, rng.randint(-len(views[v][1]) - 1, len(views[v][1])), rng.choice(COLS)))
            elif k == "dt":
                ops.append(("dt", v)); objlen[nobj] = len(views[v][1]); nobj += 1
            else:
                ops.append(("vs", v))
        elif k == "cp":
            ops.append(("cp", o)); objlen[nobj] = m; nobj += 1
        elif k == "sg" and o == 0:
            ops.append(("sg", o))
        elif k == "sl":
            ops.append(("sl", o, rng.choice([None, rng.randint(-m - 1, m + 1)]), rng.choice([None, rng.randint(-m - 1, m + 1)]), rng.choice([None, 1, 2, -1])))
    return ops


class History(Suite):
    name = "c09.history"

    def cases(self, rng, tier, widen):
        out = []
        big = tier == "thorough" or widen
        k = 0
        for n in [1, 2, 3, 5, 8, 13] + ([30] if big else []):
            for _ in range(8 if not big else 20):
                shape = gen.pick_shape(rng, k); k += 1
                pids = gen.renumber_root0(rng, gen.parents_sorted(rng, n, shape))   # non-monotone numbering
                nn = len(pids)
                t = {"n": nn, "pids": pids, "types": [1] + [rng.choice([2, 3, 4]) for _ in range(nn - 1)],
                     "xyz": [[float(rng.randint(-30, 30)) for _ in range(3)] for _ in range(nn)], "r": [float(rng.randint(1, 9)) for _ in range(nn)]}
                decorate(rng, t, k)
                # branches of the tree as index lists (root/furcation → furcation/tip)
                kids = {}
                for i, p in enumerate(pids):
                    kids.setdefault(p, []).append(i)
                brs = []
                for v in range(nn):
                    if v == 0 or len(kids.get(v, [])) > 1:
                        for c in kids.get(v, []):
                            b = [v, c]
                            while len(kids.get(b[-1], [])) == 1:
                                b.append(kids[b[-1]][0])
                            brs.append(b)
                # root-to-tip paths of consecutively numbered chains as well (a path over consecutive indices could be served by a slice)
                if shape in ("chain", "stem", "two") or rng.random() < 0.3:
                    brs.append(list(range(0, rng.randint(1, nn))))
                ops = gen_history(rng, nn, brs)
                if (t["names"] or t["extra"]) and not any(o[0] == "dt" for o in ops):
                    # a tree with its own columns is always seen through a view AND through a detached copy of that view
                    idx = rng.choice(brs) if brs and rng.random() < 0.7 else [rng.randrange(nn) for _ in range(rng.randint(1, 4))]
                    nv = sum(1 for o in ops if o[0] == "mv")
                    nobj = 1 + sum(1 for o in ops if o[0] in ("cp", "dt"))
                    cc = rng.choice(["x", "y", "z", "r", "type"])
                    ops += [("mv", 0, list(idx)), ("dt", nv), ("r", nobj, cc), ("nw", 0, rng.choice(idx), cc, rng.randint(-50, 50)), ("r", nobj, cc), ("vr", nv, cc)]
                cls = shape + ("/names" if t["names"] else "") + ("/extra" if t["extra"] else "")
                out.append({"class": cls, "tree": t, "ops": ops, "strided": rng.random() < 0.5,
                            "viewkind": rng.choice(["branch", "path", "path"]), "via": rng.choice(["key", "method"])})
        return out

    def run(self, case):
        from swcgeom.core import Branch, Path, Tree

        t = build_tree(case["tree"], strided=bool(case.get("strided")))
        via = case.get("via", "key")
        extra = sorted(case["tree"].get("extra") or {})
        View = Path if case.get("viewkind") == "path" else Branch
        objs, views = [t], []
        outs = []
        alias = []
        dcontent = []
        hmv = []       # T41: [index of an `mv` op, helper ops observed on the new view]

        def nodeget(node, c):
            return getattr(node, c) if via == "method" else node[getattr(node.names, c)]
        for op in case["ops"]:
            k = op[0]
            try:
                if k == "r":
                    o = objs[op[1]]
                    outs.append([int(v) for v in (o[getattr(o.names, op[2])] if isinstance(o, Tree) and via == "key" else column(o, op[2], via))])
                elif k == "nr":
                    o = objs[op[1]]
                    node = o[op[2]] if isinstance(o, Tree) else None
                    if node is None:      # DictSWC (detached path) has no __getitem__: read its column directly
                        arr = column(o, op[3], via); n = len(arr)
                        if not (-n <= op[2] < n):
                            raise IndexError
                        outs.append([int(arr[op[2]])])
                    else:
                        outs.append([int(nodeget(node, op[3]))])
                elif k == "nw":
                    o = objs[op[1]]
                    if isinstance(o, Tree):
                        if via == "method":
                            setattr(o[op[2]], op[3], op[4])
                        else:
                            o[op[2]][getattr(o.names, op[3])] = op[4]
                    else:
                        arr = column(o, op[3], via); n = len(arr)
                        if not (-n <= op[2] < n):
                            raise IndexError
                        arr[op[2]] = op[4]
                    outs.append("ok")
                elif k == "ow":
                    column(objs[op[1]], op[3], via)[op[2]] = op[4]; outs.append("ok")
                elif k == "mv":
                    views.append(View(objs[op[1]], np.array(op[2], dtype=np.int32))); outs.append(f"view{len(views) - 1}")
                    try:
                        hmv.append([len(outs) - 1, helper_ops(views[-1], len(views) - 1, objs, len(outs))])
                    except Exception as e:      # anything unexpected is reported by the base protocol, not here
                        hmv.append([len(outs) - 1, [("bad", type(e).__name__)]])
                elif k == "vr":
                    outs.append([int(v) for v in column(views[op[1]], op[2], via)])
                elif k == "vn":
                    outs.append([int(nodeget(views[op[1]][op[2]], op[3]))])
                elif k == "cp":
                    c = objs[op[1]].copy()
                    alias.append(any(np.shares_memory(a, b) for a in c.values() for b in objs[op[1]].values()))
                    objs.append(c); outs.append(f"obj{len(objs) - 1}")
                elif k == "dt":
                    d = views[op[1]].detach()
                    own = views[op[1]].attach
                    alias.append(any(np.shares_memory(a, b) for a in d.attach.values() for b in own.values()))
                    dcontent.append(observe_detached(d, extra))
                    objs.append(d.attach); outs.append(f"obj{len(objs) - 1}")
                elif k == "sg":
                    outs.append([[int(v) for v in column(s, "id", via)] for s in objs[op[1]].get_segments()])
                elif k == "vs":
                    vw = views[op[1]]
                    if not hasattr(vw, "get_segments"):      # a plain Path has no segments API: same answer from its node pairs
                        ids_ = [int(v) for v in column(vw, "id", via)]
                        outs.append([[a, b] for a, b in zip(ids_, ids_[1:])])
                    else:
                        outs.append([[int(v) for v in column(s, "id", via)] for s in vw.get_segments()])
                elif k == "sl":
                    o = objs[op[1]]
                    if isinstance(o, Tree):
                        got = {"slice": [int(nd.id) for nd in o[slice(op[2], op[3], op[4])]],
                               "want": [int(o.id()[i]) for i in range(*slice(op[2], op[3], op[4]).indices(len(o)))]}
                        if views:
                            # the same slice of a VIEW (Path.__getitem__), and a store through one of the view's node handles: it goes to the
                            # temporary array `Path.get_ndata` makes (lost by design, see ASSUMPTIONS), the owner's column is read back
                            j = (op[1] + len(outs)) % len(views)
                            vw = views[j]
                            got["view"] = j
                            got["vslice"] = [int(nd[nd.names.id]) for nd in vw[slice(op[2], op[3], op[4])]]
                            got["vwant"] = [int(vw.origin_id()[i]) for i in range(*slice(op[2], op[3], op[4]).indices(len(vw)))]
                            kk = op[2] if op[2] is not None else -1
                            try:
                                vw[kk][vw.names.type] = 77
                                got["pw"] = (kk, "ok")
                            except IndexError:
                                got["pw"] = (kk, "E")
                            got["pw_owner"] = objs.index(vw.attach) if any(vw.attach is x for x in objs) else None
                            if got["pw_owner"] is not None:
                                got["pw_col"] = [int(v) for v in column(vw.attach, "type", via)]
                            try:
                                got["helpers"] = helper_ops(vw, j, objs, len(outs))
                            except IndexError:
                                raise
                            except Exception as e:      # anything else is reported by the base protocol, not here
                                got["helpers"] = [("bad", type(e).__name__)]
                        outs.append(got)
                    else:
                        outs.append("skip")
            except IndexError:
                outs.append("E")
        return {"outs": outs, "alias": alias, "dcontent": dcontent, "hmv": hmv}

    def lines(self, case, res):
        if "exc" in res:
            return []
        t = case["tree"]
        toks, exp = [], []
        for op, o in zip(case["ops"], res["outs"]):
            if op[0] == "sl":
                continue
            if op[0] == "mv":
                toks.append(f"mv:{op[1]}:{'.'.join(str(i) for i in op[2])}")
            else:
                toks.append(":".join(str(x) for x in op))
            if o == "E":
                exp.append("E")
            elif isinstance(o, str):
                exp.append(o)
            elif op[0] in ("sg", "vs"):
                exp.append("{" + ";".join(f"{a}:{b}" for a, b in o) + "}")
            else:
                exp.append("[" + ",".join(str(v) for v in o) + "]")
        cols = {"id": list(range(t["n"])), "pid": t["pids"], "type": t["types"], "x": [int(p[0]) for p in t["xyz"]], "y": [int(p[1]) for p in t["xyz"]],
                "z": [int(p[2]) for p in t["xyz"]], "r": [int(v) for v in t["r"]]}
        a = " ".join(f"{k}={gen.ints(v)}" for k, v in cols.items())
        out = [("views " + a + " ops=" + ";".join(toks), " ".join(exp))] if toks else []
        # the definitions GENERATED from the current sources (Gen/AlgoViews.lean), run on the same history; in addition the slices of the tree
        # and of a view, and a store through a node handle of a view (ops the hand-written model does not have)
        N = lambda x: "N" if x is None else str(x)
        for op, o in zip(case["ops"], res["outs"]):
            if op[0] == "sl" and isinstance(o, dict):
                # Python's own slice.indices / range against Py.sliceIndices / Py.range3, further steps included
                for c in (op[4], -3, 3, 0, -2):
                    for n in sorted({t["n"], 0, 4}):
                        try:
                            tr = slice(op[2], op[3], c).indices(n)
                            want = f"{tr[0]},{tr[1]},{tr[2]} / " + ",".join(str(i) for i in range(*tr))
                        except ValueError:
                            want = "E"
                        out.append((f"gslice n={n} a={N(op[2])} b={N(op[3])} c={N(c)}", want))
        # (the base ops, in order, interleaved with the extra ones above)
        gtoks, gexp, bi, htoks = [], [], 0, []
        hmv = {i: h for i, h in res.get("hmv") or []}
        for oi, (op, o) in enumerate(zip(case["ops"], res["outs"])):
            if op[0] == "sl":
                if isinstance(o, dict):
                    sl = ":".join(N(x) for x in op[2:5])
                    gtoks.append(f"sl:{op[1]}:{sl}"); gexp.append("[" + ",".join(str(v) for v in o["slice"]) + "]")
                    if "view" in o:
                        gtoks.append(f"vsl:{o['view']}:{sl}"); gexp.append("[" + ",".join(str(v) for v in o["vslice"]) + "]")
                        gtoks.append(f"pw:{o['view']}:{o['pw'][0]}:type:77"); gexp.append(o["pw"][1])
                        if o.get("pw_owner") is not None:
                            gtoks.append(f"r:{o['pw_owner']}:type"); gexp.append("[" + ",".join(str(v) for v in o["pw_col"]) + "]")
                        for tk, ex in o.get("helpers") or []:
                            htoks.append((len(gtoks), tk, ex))
                continue
            gtoks.append(toks[bi]); gexp.append(exp[bi]); bi += 1
            for tk, ex in hmv.get(oi) or []:
                htoks.append((len(gtoks), tk, ex))
        if gtoks:
            out.append(("gviews " + a + " ops=" + ";".join(gtoks), " ".join(gexp)))
        if htoks:
            # the same history with the helper ops of Gen/AlgoHelpers.lean (T41) placed where they were observed
            ht, he, at = [], [], 0
            for pos, tk, ex in htoks:
                ht += gtoks[at:pos]; he += gexp[at:pos]; at = pos
                ht.append(tk); he.append(ex)
            ht += gtoks[at:]; he += gexp[at:]
            out.append(("ghelpers " + a + " ops=" + ";".join(ht), " ".join(he)))
        return out

    def oracle(self, case, res):
        """the property read on the history: reference semantics with an independent tiny interpreter (dicts of lists)"""
        if "exc" in res:
            key = "view-raises"
            if "vs" in [o[0] for o in case["ops"]] and res["exc"] in ("IndexError",):
                key = "branch-segments-raise"
            return [(key, f"{res['exc']}: {res.get('msg')} (ops={case['ops']})")]
        t = case["tree"]
        n = t["n"]
        objs = [tree_columns(t)]
        views = []
        out = []
        ndt = 0
        if any(res["alias"]):
            out.append(("copy-shares-storage", "a copy / detached object shares memory with the original"))
        for op, got in zip(case["ops"], res["outs"]):
            k = op[0]
            want = None
            try:
                if k == "r":
                    want = list(objs[op[1]][op[2]])
                elif k == "nr":
                    m = len(objs[op[1]]["id"])
                    if not (-m <= op[2] < m):
                        raise IndexError
                    want = [objs[op[1]][op[3]][op[2]]]
                elif k == "nw":
                    m = len(objs[op[1]]["id"])
                    if not (-m <= op[2] < m):
                        raise IndexError
                    objs[op[1]][op[3]][op[2]] = op[4]; want = "ok"
                elif k == "ow":
                    objs[op[1]][op[3]][op[2]] = op[4]; want = "ok"
                elif k == "mv":
                    views.append((op[1], list(op[2]))); want = f"view{len(views) - 1}"
                elif k == "vr":
                    o, idx = views[op[1]]; want = [objs[o][op[2]][i] for i in idx]
                elif k == "vn":
                    o, idx = views[op[1]]
                    if not (-len(idx) <= op[2] < len(idx)):
                        raise IndexError
                    want = [objs[o][op[3]][idx[op[2]]]]
                elif k == "cp":
                    objs.append({c: list(v) for c, v in objs[op[1]].items()}); want = f"obj{len(objs) - 1}"
                elif k == "dt":
                    o, idx = views[op[1]]
                    d, wantc = expect_detached(objs[o], idx)
                    objs.append(d); want = f"obj{len(objs) - 1}"
                    if ndt < len(res.get("dcontent", [])):
                        bad = diff_detached(res["dcontent"][ndt], wantc)
                        if bad:
                            out.append(("detach", f"the detached copy of a {case.get('viewkind')} over nodes {idx} of a tree with column names "
                                                  f"{t.get('names') or 'default'} and extra columns {sorted(t.get('extra') or {})}: {bad}"))
                    ndt += 1
                elif k == "sg":
                    o = objs[op[1]]; want = [[o["pid"][i], o["id"][i]] for i in range(1, len(o["id"]))]
                elif k == "vs":
                    o, idx = views[op[1]]; ids = [objs[o]["id"][i] for i in idx]; want = [[a, b] for a, b in zip(ids, ids[1:])]
                elif k == "sl":
                    if got not in ("skip", "E") and got["slice"] != got["want"]:
                        out.append(("slice-nodes", f"tree[{op[2]}:{op[3]}:{op[4]}] gave nodes {got['slice']}, expected {got['want']}"))
                    if got not in ("skip", "E") and got.get("vslice") != got.get("vwant"):
                        out.append(("slice-nodes", f"view[{op[2]}:{op[3]}:{op[4]}] gave nodes {got['vslice']}, expected {got['vwant']}"))
                    continue
            except IndexError:
                want = "E"
            if got != want:
                key = {"vs": "branch-segments", "sg": "tree-segments", "nw": "node-write", "nr": "node-read", "vr": "view-read", "vn": "view-node-read",
                       "r": "stale-or-leaked-write", "dt": "detach", "cp": "copy"}.get(k, "view")
                out.append((key, f"op {op}: got {got}, the tree says {want} (history {case['ops'][:10]})"))
                break
        return out[:3]

    def nontrivial(self, case, res):
        return case["tree"]["n"] >= 3 and len(case["ops"]) >= 5


class Collections(Suite):
    """collections of compartments (`Compartments`): of a tree, of one branch, gathered over several branches, and of
    detached copies — the collection-level accessors report, row by row, the two nodes of each member"""
    name = "c09.compartments"

    def cases(self, rng, tier, widen):
        out = []
        big = tier == "thorough" or widen
        k = 0
        for n in [2, 3, 5, 8, 13] + ([30, 80] if big else []):
            for _ in range(3 if not big else 8):
                shape = gen.pick_shape(rng, k); k += 1
                pids = gen.renumber_root0(rng, gen.parents_sorted(rng, n, shape))
                nn = len(pids)
                pts = set()
                while len(pts) < nn:
                    pts.add(tuple(float(rng.randint(-30, 30)) for _ in range(3)))
                pts = list(pts); rng.shuffle(pts)
                t = {"n": nn, "pids": pids, "types": [1] + [rng.choice([2, 3, 4]) for _ in range(nn - 1)],
                     "xyz": [list(q) for q in pts], "r": [float(rng.randint(1, 9)) for _ in range(nn)]}
                decorate(rng, t, k)
                for how in ("tree", "branch", "gathered", "extended", "detached", "detached-branch"):
                    out.append({"class": how + ("/names" if t["names"] else ""), "tree": t, "how": how, "pick": rng.random()})
        return out

    def run(self, case):
        from swcgeom.core.compartment import Segments

        t = build_tree(case["tree"])
        brs = t.get_branches()
        how = case["how"]
        if how == "tree":
            segs = t.get_segments()
        elif how == "branch":
            if not brs:
                return {"skip": True}
            segs = brs[int(case["pick"] * len(brs))].get_segments()
        elif how == "gathered":
            segs = Segments(s for b in brs for s in b.get_segments())
        elif how == "extended":
            if not brs:
                return {"skip": True}
            segs = brs[0].get_segments()
            for b in brs[1:]:
                segs.extend(b.get_segments())
        elif how == "detached-branch":       # detached copies of the segments of the branches
            segs = Segments(s.detach() for b in brs for s in b.get_segments())
        else:
            segs = Segments(s.detach() for s in t.get_segments())
        members = [[int(v) for v in column(s, "id")] for s in segs]
        res = {"members": members, "n": len(segs)}
        # node handles navigate the tree they belong to: parent() / children()
        res["parents"] = [(-1 if t.node(i).parent() is None else int(t.node(i).parent().id)) for i in range(len(t))]
        res["children"] = [sorted(int(c.id) for c in t.node(i).children()) for i in range(len(t))]
        if len(segs):
            res["id"] = np.asarray(segs.id()).astype(int).tolist()
            res["pid"] = np.asarray(segs.pid()).astype(int).tolist()
            res["type"] = np.asarray(segs.type()).astype(int).tolist()
            res["r"] = np.asarray(segs.r()).astype(float).tolist()
            res["xyz"] = np.asarray(segs.xyz()).astype(float).tolist()
            res["xyzr"] = np.asarray(segs.xyzr()).astype(float).tolist()
            res["each_xyz"] = [np.asarray(s.xyz()).astype(float).tolist() for s in segs]
        return res

    def oracle(self, case, res):
        t = case["tree"]
        if "exc" in res:
            return [("compartments-raise", f"{case['how']}: {res['exc']}: {res.get('msg')}")]
        if res.get("skip"):
            return []
        out = []
        pids = t["pids"]
        if "parents" in res:
            if res["parents"] != pids:
                out.append(("node-parent", f"node handles report parents {res['parents']}, the tree's parent column is {pids}"))
            want = [sorted(j for j in range(t["n"]) if pids[j] == i) for i in range(t["n"])]
            if res["children"] != want:
                k = next(i for i in range(t["n"]) if res["children"][i] != want[i])
                out.append(("node-children", f"node {k}.children() are {res['children'][k]}, the rows whose parent is {k} are {want[k]} (pids={pids})"))
        if res["n"] == 0:
            return out
        detached = case["how"] in ("detached", "detached-branch")
        if detached:
            # a detached copy numbers its two nodes 0, 1 (documented for paths): identify the member by its positions
            at = {tuple(q): i for i, q in enumerate(t["xyz"])}
            try:
                res = dict(res); res["members"] = [[at[tuple(e[0])], at[tuple(e[1])]] for e in res["each_xyz"]]
            except KeyError:
                return [("member-xyz", "detached: a detached segment is not at the positions of two nodes of the tree")]
        for a, b in res["members"]:
            if pids[b] != a:
                return [("segment-not-an-edge", f"{case['how']}: member ({a}, {b}) is not a (parent, child) pair of pids={pids}")]
        if case["how"] in ("tree", "detached", "detached-branch", "gathered", "extended"):
            want = sorted((pids[i], i) for i in range(t["n"]) if pids[i] >= 0)
            if sorted(map(tuple, res["members"])) != want:
                out.append(("segments-not-all-edges", f"{case['how']}: members {res['members'][:6]}… are not exactly the edges of pids={pids}"))
        # the collection's columns, row by row = the two nodes of each member
        exp = {"id": [[a, b] for a, b in res["members"]], "pid": [[pids[a], pids[b]] for a, b in res["members"]],
               "type": [[t["types"][a], t["types"][b]] for a, b in res["members"]], "r": [[t["r"][a], t["r"][b]] for a, b in res["members"]],
               "xyz": [[t["xyz"][a], t["xyz"][b]] for a, b in res["members"]],
               "xyzr": [[t["xyz"][a] + [t["r"][a]], t["xyz"][b] + [t["r"][b]]] for a, b in res["members"]]}
        for c, w in exp.items():
            if detached and c in ("id", "pid"):
                continue
            if res[c] != w:
                k = next(i for i in range(len(w)) if i >= len(res[c]) or res[c][i] != w[i])
                out.append((f"collection-{c}", f"{case['how']}: row {k} of Compartments.{c}() is {res[c][k] if k < len(res[c]) else None}, its member is "
                                               f"{tuple(res['members'][k])} with {c} {w[k]} (pids={pids})"))
                break
        if res["each_xyz"] != exp["xyz"]:
            out.append(("member-xyz", f"{case['how']}: a member's own xyz() differs from its nodes' positions"))
        return out[:3]

    def nontrivial(self, case, res):
        return not res.get("skip") and res.get("n", 0) >= 2


class Accessors(Suite):
    """the remaining windows: iteration over a path / branch, the deprecated `get_node`, original ids, node handles' own accessors
    (`xyz`, `xyzr`, `keys`, `detach`, `distance`), and branches built from coordinate arrays (`Branch.from_xyzr`, `from_xyzr_batch`)"""
    name = "c09.accessors"

    def cases(self, rng, tier, widen):
        out = []
        k = 0
        for n in [1, 2, 3, 5, 8, 13] + ([40] if tier == "thorough" or widen else []):
            for _ in range(3):
                pids = gen.renumber_root0(rng, gen.parents_sorted(rng, n, gen.pick_shape(rng, k)))
                nn = len(pids)
                t = {"n": nn, "pids": pids, "types": [1] + [rng.choice([2, 3, 4]) for _ in range(nn - 1)],
                     "xyz": [[float(rng.randint(-30, 30)) for _ in range(3)] for _ in range(nn)], "r": [float(rng.randint(1, 9)) for _ in range(nn)]}
                decorate(rng, t, k); k += 1
                idx = [rng.randrange(nn) for _ in range(rng.randint(1, 5))]
                out.append({"class": "views" + ("/names" if t["names"] else "") + ("/extra" if t["extra"] else ""), "tree": t, "idx": idx,
                            "cols": rng.choice([3, 4]), "batch": rng.randint(1, 3), "seg": rng.random(), "wval": rng.randint(40, 90)})
        return out

    def run(self, case):
        from swcgeom.core import Branch, Path

        tc = case["tree"]
        t = build_tree(tc)
        extra = sorted(tc.get("extra") or {})
        idx = np.array(case["idx"], dtype=np.int32)
        res = {}
        with warnings.catch_warnings():
            warnings.simplefilter("ignore")
            for name, V in (("path", Path), ("branch", Branch)):
                v = V(t, idx)
                res[name] = {"iter_ids": [int(nd.id) for nd in v], "iter_x": [float(nd.x) for nd in v], "len": len(v),
                             "get_node": [int(v.get_node(j).id) for j in range(len(v))], "origin_id": [int(q) for q in v.origin_id()],
                             "origin_pid": [int(q) for q in v.origin_pid()], "keys": sorted(str(q) for q in v.keys()),
                             "ends": [[int(v.node(j).id), float(v.node(j).x)] for j in (0, -1)]}
            nd = t.node(int(idx[0]))
            d = nd.detach()
            res["node"] = {"xyz": [float(q) for q in nd.xyz()], "xyzr": [float(q) for q in nd.xyzr()], "keys": sorted(str(q) for q in nd.keys()),
                           "detached": {c: float(np.asarray(getattr(d, c)).reshape(-1)[0]) for c in ("x", "y", "z", "r", "type")},
                           "dist0": float(nd.distance(t.node(0)))}
            # detached copies of node handles obtained through the tree and through a window (first / last position of the path / branch)
            hs = [("tree.node", int(idx[0]), nd), ("tree[i-n]", int(idx[-1]), t[int(idx[-1]) - len(t)])]
            for name, V in (("path", Path), ("branch", Branch)):
                for j in (0, -1):
                    hs.append((f"{name}[{j}]", int(idx[j]), V(t, idx)[j]))
            res["node_copies"] = [{"how": how, "row": row, **observe_node_copy(h, h.detach())} for how, row, h in hs]
            # detached copies of every kind of window: a path, a branch, a segment of the tree, a segment of a branch (if the tree has an edge)
            kinds = [("path", Path(t, idx), [int(i) for i in idx]), ("branch", Branch(t, idx), [int(i) for i in idx])]
            tsegs = t.get_segments()
            if len(tsegs):
                sg = tsegs[int(case.get("seg", 0) * len(tsegs))]
                kinds.append(("tree segment", sg, [int(i) for i in sg.idx]))
            brs = t.get_branches()
            if brs:
                b = brs[int(case.get("seg", 0) * len(brs))]
                bs = b.get_segments()
                if len(bs):
                    sg = bs[int(case.get("seg", 0) * len(bs))]
                    kinds.append(("branch segment", sg, [int(i) for i in np.asarray(b.idx)[np.asarray(sg.idx)]]))
            det = []
            for kind, v, rows in kinds:
                d = v.detach()
                before = observe_detached(d, extra)
                # … and it is independent: a write through a node handle of the tree reaches the window, not the detached copy
                old = float(t[rows[-1]].x)
                t[rows[-1]].x = case.get("wval", 77)
                seen = float(column(v, "x")[-1])
                after = observe_detached(d, extra)
                t[rows[-1]].x = old
                det.append({"kind": kind, "rows": rows, "type": type(d).__name__, "before": before, "after": after, "seen": seen,
                            "shares": any(np.shares_memory(a, c) for a in d.attach.values() for c in t.values())})
            res["detached"] = det
            m = len(case["idx"]) + 2      # (from_xyzr_batch insists on at least three points per branch)
            arr = np.array([[float(i + 1), float(2 * i), float(-i), 0.5 + i][: case["cols"]] for i in range(m)], dtype=np.float32)
            b = Branch.from_xyzr(arr)
            bb = Branch.from_xyzr_batch(np.stack([arr + j for j in range(case["batch"])]))
            res["from_xyzr"] = {"xyzr": np.asarray(b.xyzr()).astype(float).tolist(), "pid": [int(q) for q in b.get_ndata("pid")], "id": [int(q) for q in b.get_ndata("id")],
                                "batch": [np.asarray(x.xyzr()).astype(float).tolist() for x in bb], "batch_pid": [[int(q) for q in x.get_ndata("pid")] for x in bb],
                                "independent": not any(np.shares_memory(x.get_ndata("x"), y.get_ndata("x")) for i, x in enumerate(bb) for y in bb[i + 1:])}
        return res

    def oracle(self, case, res):
        t = case["tree"]
        if "exc" in res:
            return [("accessor-raises", f"{res['exc']}: {res.get('msg')}")]
        out = []
        idx = case["idx"]
        for name in ("path", "branch"):
            v = res[name]
            want_pid = [t["pids"][i] for i in idx]
            if v["iter_ids"] != idx or v["get_node"] != idx or v["origin_id"] != idx or v["len"] != len(idx) or v["origin_pid"] != want_pid \
                    or v["iter_x"] != [float(t["xyz"][i][0]) for i in idx]:
                out.append(("view-iteration", f"a {name} over nodes {idx}: iteration gives {v['iter_ids']}, get_node {v['get_node']}, origin ids {v['origin_id']} / parents {v['origin_pid']} (expected {want_pid})"))
            if v["keys"] != sorted([actual(t, c) for c in COLS] + list(t.get("extra") or {})):
                out.append(("view-keys", f"keys of a {name}: {v['keys']}"))
            if "ends" in v and v["ends"] != [[idx[j], float(t["xyz"][idx[j]][0])] for j in (0, -1)]:
                out.append(("view-node-read", f"a {name} over nodes {idx}: node(0) / node(-1) report (id, x) = {v['ends']}"))
        i0 = idx[0]
        nd = res["node"]
        if nd["xyz"] != [float(c) for c in t["xyz"][i0]] or nd["xyzr"] != [float(c) for c in t["xyz"][i0]] + [float(t["r"][i0])]:
            out.append(("node-read", f"node {i0}.xyz()/xyzr() = {nd['xyz']} / {nd['xyzr']}"))
        want_d = {"x": t["xyz"][i0][0], "y": t["xyz"][i0][1], "z": t["xyz"][i0][2], "r": t["r"][i0], "type": t["types"][i0]}
        if any(float(nd["detached"][c]) != float(want_d[c]) for c in want_d):
            out.append(("copy-content", f"detached copy of node {i0} holds {nd['detached']}, the node has {want_d}"))
        if abs(nd["dist0"] - math.dist(t["xyz"][i0], t["xyz"][0])) > 1e-4:
            out.append(("node-read", f"distance of node {i0} to node 0: {nd['dist0']}"))
        cols0 = tree_columns(t)
        for nc in res.get("node_copies") or []:
            bad = judge_node_copy(t, nc["row"], nc)
            if bad:
                out.append((bad[0], f"the handle of row {nc['row']} obtained as {nc['how']} (window over {idx}) of a tree with column names "
                                    f"{t.get('names') or 'default'} and extra columns {sorted(t.get('extra') or {})}: {bad[1]}")); break
        for dd in res.get("detached", []):
            _, want = expect_detached(cols0, dd["rows"])
            bad = diff_detached(dd["before"], want)
            what = f"the detached copy of a {dd['kind']} over nodes {dd['rows']} of a tree with column names {t.get('names') or 'default'} and extra columns {sorted(t.get('extra') or {})}"
            if bad:
                out.append(("detach", f"{what}: {bad}")); break
            if dd["shares"]:
                out.append(("copy-shares-storage", f"{what} shares memory with the tree")); break
            if dd["seen"] != float(case.get("wval", 77)):
                out.append(("node-write", f"x of node {dd['rows'][-1]} written through the tree's handle; the {dd['kind']} over {dd['rows']} still reports {dd['seen']}")); break
            if dd["after"] != dd["before"]:
                out.append(("stale-or-leaked-write", f"{what} changed when the tree was written: {diff_detached(dd['after'], want)}")); break
        fx = res["from_xyzr"]
        m = len(idx) + 2
        rows = [[float(i + 1), float(2 * i), float(-i), (0.5 + i) if case["cols"] == 4 else 1.0] for i in range(m)]
        if fx["xyzr"] != rows or fx["pid"] != list(range(-1, m - 1)) or fx["id"] != list(range(m)):
            out.append(("from-xyzr", f"Branch.from_xyzr of {case['cols']}-column rows: {fx['xyzr'][:3]}…, parents {fx['pid']}"))
        for j, bx in enumerate(fx["batch"]):
            want = [[r_[0] + j, r_[1] + j, r_[2] + j, (r_[3] + j) if case["cols"] == 4 else 1.0] for r_ in rows]
            if bx != want or fx["batch_pid"][j] != list(range(-1, m - 1)):
                out.append(("from-xyzr", f"Branch.from_xyzr_batch member {j}: {bx[:2]}…, expected {want[:2]}…")); break
        if not fx["independent"]:
            out.append(("copy-shares-storage", "branches of one from_xyzr_batch call share storage"))
        return out[:3]

    def nontrivial(self, case, res):
        return len(case["idx"]) >= 2


ROUTES = ["node(i)", "node(i-n)", "tree[i]", "tree[i-n]", "node(np.int32(i))", "node(np.int64(i-n))", "tree[np.int64(i-n)]", "iteration", "tree[:][i]",
          "tree[::-1][n-1-i]", "parent-of-child", "child-of-parent"]


class Handles(Suite):
    """every public way of getting hold of a node handle — `tree[i]`, `tree.node(i)`, with positions counted from the end (numpy's
    convention, which `Path.straight_line_distance` itself uses with `node(-1)`), numpy integer types, slices, iteration, and the handles
    returned by parent() / children() — gives a window onto the same row: same attributes, same parent, same children, a branch through
    that node; a write through it lands in that row of the owner, and its detached copy has that row's content and is independent"""
    name = "c09.handles"

    def cases(self, rng, tier, widen):
        out = []
        big = tier == "thorough" or widen
        k = 0
        for n in [1, 2, 3, 4, 6, 9, 13] + ([30, 80] if big else []):
            for _ in range(3 if not big else 8):
                shape = gen.pick_shape(rng, k)
                pids = gen.renumber_root0(rng, gen.parents_sorted(rng, n, shape))
                nn = len(pids)
                t = {"n": nn, "pids": pids, "types": [1] + [rng.choice([2, 3, 4]) for _ in range(nn - 1)],
                     "xyz": [[float(rng.randint(-30, 30)) for _ in range(3)] for _ in range(nn)], "r": [float(rng.randint(1, 9)) for _ in range(nn)]}
                decorate(rng, t, k); k += 1
                out.append({"class": shape + ("/names" if t["names"] else "") + ("/extra" if t["extra"] else ""), "tree": t,
                            "wcol": rng.choice(["x", "y", "z", "r", "type"]), "wbase": rng.randint(100, 200)})
        return out

    def run(self, case):
        tc = case["tree"]
        t = build_tree(tc)
        n = len(t)
        pids = tc["pids"]
        kid = {}
        for j, p in enumerate(pids):
            kid.setdefault(p, j)

        def handle(route, i):
            if route == "node(i)":
                return t.node(i)
            if route == "node(i-n)":
                return t.node(i - n)
            if route == "tree[i]":
                return t[i]
            if route == "tree[i-n]":
                return t[i - n]
            if route == "node(np.int32(i))":
                return t.node(np.int32(i))
            if route == "node(np.int64(i-n))":
                return t.node(np.int64(i - n))
            if route == "tree[np.int64(i-n)]":
                return t[np.int64(i - n)]
            if route == "iteration":
                return list(t)[i]
            if route == "tree[:][i]":
                return t[:][i]
            if route == "tree[::-1][n-1-i]":
                return t[::-1][n - 1 - i]
            if route == "parent-of-child":
                return t.node(kid[i]).parent() if i in kid else None
            if route == "child-of-parent":
                if pids[i] < 0:
                    return None
                return next((c for c in t.node(pids[i]).children() if int(c.id) == i), "missing")
            raise ValueError(route)

        res = {"routes": {}}
        for ri, route in enumerate(ROUTES):
            rows = []
            for i in range(n):
                h = handle(route, i)
                if h is None:
                    rows.append(None); continue
                if isinstance(h, str):
                    rows.append({"missing": True}); continue
                par = h.parent()
                o = {"attrs": [int(getattr(h, c)) for c in COLS], "parent": -1 if par is None else int(par.id),
                     "children": sorted(int(c.id) for c in h.children()), "xyzr": [int(v) for v in h.xyzr()]}
                try:
                    o["branch"] = [int(v) for v in h.branch().origin_id()]
                except CaseTimeout:
                    raise
                except Exception as e:  # noqa: BLE001
                    o["branch"] = f"{type(e).__name__}: {str(e)[:80]}"
                # a write through this handle: seen in the owner's column and through a handle made the plain way; then undone
                c = case["wcol"]
                old = int(getattr(h, c)); val = case["wbase"] + ri
                setattr(h, c, val)
                o["write"] = [int(column(t, c)[i]), int(getattr(t[i], c)), [int(v) for j, v in enumerate(column(t, c)) if j != i]]
                # its detached copy: that row's content, untouched by a later write to the tree
                d = h.detach()
                nc = observe_node_copy(h, d)        # (every column, extra ones included, while handle and copy must still agree)
                setattr(h, c, old)
                o["detached"] = [int(getattr(d, cc)) for cc in COLS]
                o["restored"] = int(column(t, c)[i])
                o.update(nc)
                rows.append(o)
            res["routes"][route] = rows
        return res

    def oracle(self, case, res):
        t = case["tree"]
        if "exc" in res:
            return [("node-handle-raises", f"{res['exc']}: {res.get('msg')} (pids={t['pids']}, names={t.get('names')})")]
        cols = tree_columns(t)
        n, pids = t["n"], t["pids"]
        c = case["wcol"]
        out = []
        for ri, route in enumerate(ROUTES):
            for i, o in enumerate(res["routes"][route]):
                if o is None:
                    continue
                who = f"the handle of row {i} obtained as {route} (n={n}, pids={pids})"
                if o.get("missing"):
                    out.append(("node-children", f"{who}: node {pids[i]}.children() does not contain node {i}")); break
                want = [cols[cc][i] for cc in COLS]
                if o["attrs"] != want or o["xyzr"] != [cols[cc][i] for cc in ("x", "y", "z", "r")]:
                    out.append(("node-read", f"{who} reports {dict(zip(COLS, o['attrs']))}, row {i} holds {dict(zip(COLS, want))}")); break
                if o["parent"] != pids[i]:
                    out.append(("node-parent", f"{who}: parent() is node {o['parent']}, the parent column says {pids[i]}")); break
                wk = sorted(j for j in range(n) if pids[j] == i)
                if o["children"] != wk:
                    out.append(("node-children", f"{who}: children() are {o['children']}, the rows whose parent is {i} are {wk}")); break
                b = o["branch"]
                if isinstance(b, str) or i not in b or any(pids[y] != x for x, y in zip(b, b[1:])) or \
                        any(sum(1 for j in range(n) if pids[j] == x) != 1 for x in b[1:-1]):
                    out.append(("node-branch", f"{who}: branch() gives {b}, which is not an unbranched run of (parent, child) pairs through node {i}")); break
                val = case["wbase"] + ri
                others = [v for j, v in enumerate(cols[c]) if j != i]
                if o["write"] != [val, val, others] or o["restored"] != cols[c][i]:
                    out.append(("node-write", f"{who}: {c} = {val} written through it; the owner's column holds {o['write'][0]} there, tree[{i}].{c} is {o['write'][1]}, "
                                              f"the other rows {o['write'][2]} (were {others})")); break
                # (a detached node is a one-node table of its own: its id / pid are not the tree's and are not compared)
                wd = list(want); wd[COLS.index(c)] = val
                keep = [j for j, cc in enumerate(COLS) if cc not in ("id", "pid")]
                if [o["detached"][j] for j in keep] != [wd[j] for j in keep]:
                    out.append(("copy-content", f"{who}: its detached copy, read after the tree was written again, holds {dict(zip(COLS, o['detached']))}, "
                                                f"expected {dict(zip(COLS, wd))}")); break
                bad = judge_node_copy(t, i, o)
                if bad:
                    out.append((bad[0], f"{who} of a tree with column names {t.get('names') or 'default'} and extra columns {sorted(t.get('extra') or {})}: {bad[1]}")); break
            if out:
                break
        return out[:3]

    def nontrivial(self, case, res):
        return case["tree"]["n"] >= 3


ADJ_KINDS = ["tree", "copy", "paths", "branches", "node-branch", "tree-segments", "branch-segments", "subpath", "subbranch"]


def observe_adjacency(o):
    """what `get_adjacency_matrix` of a tree / standalone table / view says: shape and the non-zero cells (row, col, value)"""
    try:
        m = o.get_adjacency_matrix()
        d = np.asarray(m.toarray())
        return {"shape": [int(q) for q in d.shape], "cells": sorted([int(i), int(j), int(d[i, j])] for i, j in zip(*np.nonzero(d)))}
    except CaseTimeout:
        raise
    except Exception as e:  # noqa: BLE001 - the oracle reports it with the object it came from
        return {"raises": f"{type(e).__name__}: {str(e)[:120]}"}


class Adjacency(Suite):
    """`SWCLike.get_adjacency_matrix` asked on every kind of object that inherits it: the tree and its copy (cells = the (parent, child) pairs), and
    every window onto the tree - root-to-tip paths, branches, the branch through a node, segments of the tree and of a branch, paths / branches
    over an arbitrary run of an ancestor chain (NOT starting at the root, NOT over rows 0..k-1) - whose own numbering is its positions 0..k-1
    (documented: `Path.id` / `Path.pid`), so its matrix is (k, k) with the chain of its consecutive node pairs; the detached copy of the same
    window has equal content, hence the same matrix; and a write of a non-topological attribute through a node handle changes none of them"""
    name = "c09.adjacency"

    def cases(self, rng, tier, widen):
        out = []
        big = tier == "thorough" or widen
        k = rng.randrange(len(gen.SHAPES))
        for n in [2, 3, 5, 8, 13] + ([30, 80] if big else []):
            for _ in range(4 if not big else 9):
                shape = gen.pick_shape(rng, k)
                if shape == "single":       # (a single node has no window with an edge; it is covered by n = 2 … of the other shapes)
                    k += 1; shape = gen.pick_shape(rng, k)
                pids = gen.renumber_root0(rng, gen.parents_sorted(rng, n, shape))
                nn = len(pids)
                t = {"n": nn, "pids": pids, "types": [1] + [rng.choice([2, 3, 4]) for _ in range(nn - 1)],
                     "xyz": [[float(rng.randint(-30, 30)) for _ in range(3)] for _ in range(nn)], "r": [float(rng.randint(1, 9)) for _ in range(nn)]}
                decorate(rng, t, k); k += 1
                # runs of ancestor chains: from a node upwards, cut anywhere (a path of the tree that starts where it likes)
                runs = []
                for _ in range(4):
                    a = rng.randrange(nn)
                    ch = [a]
                    while pids[ch[-1]] >= 0:
                        ch.append(pids[ch[-1]])
                    ch.reverse()
                    lo = rng.randrange(len(ch))
                    runs.append(ch[lo: rng.randint(lo + 1, len(ch))])
                for kind in ADJ_KINDS:
                    out.append({"class": "adjacency/" + kind + ("/names" if t["names"] else ""), "tree": t, "kind": kind, "runs": runs,
                                "wcol": rng.choice(["x", "y", "z", "r", "type"]), "wrow": rng.randrange(nn), "wval": rng.randint(40, 90)})
        return out

    def run(self, case):
        from swcgeom.core import Branch, Path

        t = build_tree(case["tree"])
        kind = case["kind"]
        if kind in ("tree", "copy"):
            objs = [t if kind == "tree" else t.copy()]
        elif kind == "paths":
            objs = list(t.get_paths())
        elif kind == "branches":
            objs = list(t.get_branches())
        elif kind == "node-branch":
            objs = [t.node(i).branch() for i in range(len(t))]
        elif kind == "tree-segments":
            objs = list(t.get_segments())
        elif kind == "branch-segments":
            objs = [s for b in t.get_branches() for s in b.get_segments()]
        elif kind == "subpath":
            objs = [Path(t, np.array(r, dtype=np.int32)) for r in case["runs"]]
        else:
            objs = [Branch(t, np.array(r, dtype=np.int32)) for r in case["runs"]]
        obs = []
        for o in objs:
            isview = hasattr(o, "origin_id")
            e = {"len": int(len(o)), "rows": [int(v) for v in (o.origin_id() if isview else o.id())], "view": isview, "first": observe_adjacency(o)}
            if isview:
                e["ids"] = [[int(v) for v in o.id()], [int(v) for v in o.pid()]]
                e["detached"] = observe_adjacency(o.detach())
            obs.append(e)
        # a write of a non-topological attribute through a node handle of the tree, then the same objects asked again
        setattr(t.node(case["wrow"]), case["wcol"], case["wval"])
        for o, e in zip(objs, obs):
            e["again"] = observe_adjacency(o)
        return {"obs": obs}

    def oracle(self, case, res):
        t = case["tree"]
        pids = t["pids"]
        if "exc" in res:
            return [("adjacency-raises", f"{case['kind']}: {res['exc']}: {res.get('msg')} (pids={pids})")]
        out = []
        for e in res.get("obs") or []:
            if not isinstance(e, dict):
                out.append(("adjacency-raises", f"{case['kind']}: malformed observation {e!r}")); break
            k, rows = e.get("len"), e.get("rows")
            who = f"{case['kind']} over nodes {rows} of the tree pids={pids}" + (f" with column names {t['names']}" if t.get("names") else "")
            if e.get("view"):
                if e.get("ids") != [list(range(k)), list(range(-1, k - 1))]:
                    out.append(("view-read", f"{who}: id() / pid() are {e.get('ids')}, documented as its positions 0..{k - 1} / -1..{k - 2}")); break
                want = {"shape": [k, k], "cells": [[j, j + 1, 1] for j in range(k - 1)]}
                what = "the chain of its consecutive node pairs (in its own numbering id() / pid())"
            else:
                want = {"shape": [t["n"], t["n"]], "cells": sorted([p, i, 1] for i, p in enumerate(pids) if p >= 0)}
                what = "the (parent, child) pairs of the tree"
            bad = None
            for when in ("first", "again") + (("detached",) if e.get("view") else ()):
                got = e.get(when)
                label = {"first": "", "again": f" (asked again after {case['wcol']} of node {case['wrow']} was written through its handle)",
                         "detached": " of its DETACHED copy"}[when]
                if not isinstance(got, dict) or "raises" in got:
                    why = got.get("raises") if isinstance(got, dict) else f"malformed observation {got!r}"
                    bad = ("adjacency-raises", f"get_adjacency_matrix{label} of a {who}: {why}")
                elif got.get("shape") != want["shape"]:
                    bad = ("adjacency-shape", f"get_adjacency_matrix{label} of a {who} has shape {got.get('shape')}, it has {k} nodes")
                elif got.get("cells") != want["cells"]:
                    key = "adjacency-detached-differs" if when == "detached" else "adjacency-edges"
                    bad = (key, f"get_adjacency_matrix{label} of a {who} has the cells (row, col, value) {got.get('cells')}, {what} are {want['cells']}")
                if bad:
                    break
            if bad:
                out.append(bad); break
        return out[:3]

    def nontrivial(self, case, res):
        # a window that is not over the rows 0..k-1 of its owner
        return any(e.get("view") and e.get("len", 0) >= 2 and e.get("rows") != list(range(e["len"])) for e in res.get("obs") or [] if isinstance(e, dict))


# ----------------------------------------------------------------------------- the parent column is an attribute like any other
# `pid` is one of the attributes a node handle assigns (Node.pid has a setter like x / y / z / r / type).  After a node was re-attached through its
# handle - the tree staying a tree: one root, no cycle - every navigation of the SAME tree object has to describe the (parent, child) pairs the
# owner's parent column now holds, whatever was asked of that object before; a copy taken at any time keeps the pairs it was copied with.
LOOKS = ["children", "parents", "segments", "adjacency", "branch", "pid"]
PID_ROUTES = ["tree[i].pid", "node(i).pid", "tree[i-n].pid", "tree[i][names.pid]", "node(np.int64(i)).pid", "iteration", "child-of-parent", "tree[:][i]"]


def subtree_of(pids, i):
    kids = {}
    for j, p in enumerate(pids):
        kids.setdefault(p, []).append(j)
    seen, todo = {i}, [i]
    while todo:
        for c in kids.get(todo.pop(), []):
            if c not in seen:
                seen.add(c); todo.append(c)
    return seen


def gen_rewire(rng, pids0, pattern):
    """a history over object 0 (the tree) and its copies: looks (navigation reads), re-attachments through node handles, writes of other
    attributes, copies.  `pattern` fixes the backbone, the rest is drawn: look-move-look (the same object asked before and after),
    move-first (nothing asked before the write), copy-between (a copy taken between the first look and the write, both sides then written)"""
    cur = [list(pids0)]
    ops = []

    def look(o, must=None):
        what = [w for w in LOOKS if rng.random() < 0.5]
        if must and not any(w in what for w in must):
            what.append(rng.choice(must))
        ops.append(["look", o, sorted(set(what), key=LOOKS.index)])

    def move(o):
        p = cur[o]
        n = len(p)
        for _ in range(20):
            i = rng.randrange(1, n)
            ok = [q for q in range(n) if q not in subtree_of(p, i) and q != p[i]]
            if ok:
                q = rng.choice(ok)
                ops.append(["move", o, i, q, rng.choice(PID_ROUTES)]); p[i] = q
                return True
        return False

    def other(o):
        ops.append(["write", o, rng.randrange(len(cur[o])), rng.choice(["x", "y", "z", "r", "type"]), rng.randint(-50, 50)])

    def copy(o):
        ops.append(["copy", o]); cur.append(list(cur[o]))

    nav = ["children", "branch"]
    if pattern == "look-move-look":
        look(0, nav); move(0); look(0, nav)
    elif pattern == "move-first":
        move(0); look(0, nav)
    elif pattern == "copy-between":
        look(0, nav); copy(0); move(rng.choice([0, 1])); look(0, nav); look(1, nav)
    else:                                   # "free": nothing fixed, all drawn
        look(0)
    for _ in range(rng.randint(2, 7)):
        o = rng.randrange(len(cur))
        k = rng.choice(["look", "look", "move", "move", "write", "copy"])
        if k == "look":
            look(o)
        elif k == "move":
            if move(o) and rng.random() < 0.7:
                look(o, nav)
        elif k == "write":
            other(o)
        elif len(cur) < 4:
            copy(o)
    for o in range(len(cur)):               # every object is asked at the end
        look(o, nav)
    return ops


def observe_topology(t, what):
    n = len(t)
    o = {}
    for w in what:
        try:
            if w == "children":
                o[w] = [[int(c.id) for c in t.node(i).children()] for i in range(n)]
            elif w == "parents":
                o[w] = [(-1 if (p := t[i].parent()) is None else int(p.id)) for i in range(n)]
            elif w == "segments":
                o[w] = [[int(v) for v in column(s, "id")] for s in t.get_segments()]
            elif w == "adjacency":
                o[w] = observe_adjacency(t)
            elif w == "branch":
                o[w] = [[int(v) for v in t.node(i).branch().origin_id()] for i in range(n)]
            else:
                o[w] = [int(v) for v in t.pid()]
        except CaseTimeout:
            raise
        except Exception as e:  # noqa: BLE001 - the oracle reports it with the history it came from
            o[w] = {"raises": f"{type(e).__name__}: {str(e)[:120]}"}
    return o


class TopologyWrites(Suite):
    """the parent of a node assigned through a node handle (`tree[i].pid = q`, every route to a handle, the tree staying a tree), interleaved with
    navigation reads of the same object, writes of other attributes and copy(): `Tree.Node.parent` / `children` / `branch`, `Tree.get_segments`,
    `get_adjacency_matrix` and the parent column itself describe, at every moment, the (parent, child) pairs the owner holds at that moment -
    the same object asked before and after the write - and a copy keeps the pairs it was copied with until it is written itself"""
    name = "c09.topology-writes"
    case_timeout = 5.0      # (tiny trees; a navigation that does not end on a re-attached tree is reported, not waited for)

    PATTERNS = ["look-move-look", "move-first", "copy-between", "free"]

    def cases(self, rng, tier, widen):
        out = []
        big = tier == "thorough" or widen
        k = rng.randrange(len(gen.SHAPES))
        for n in [3, 4, 6, 9, 13] + ([30, 80] if big else []):
            for j in range(8 if not big else 16):
                shape = gen.pick_shape(rng, k)
                while shape in ("single", "two"):       # (re-attaching needs three nodes)
                    k += 1; shape = gen.pick_shape(rng, k)
                pids = gen.renumber_root0(rng, gen.parents_sorted(rng, n, shape))
                nn = len(pids)
                t = {"n": nn, "pids": pids, "types": [1] + [rng.choice([2, 3, 4]) for _ in range(nn - 1)],
                     "xyz": [[float(rng.randint(-30, 30)) for _ in range(3)] for _ in range(nn)], "r": [float(rng.randint(1, 9)) for _ in range(nn)]}
                decorate(rng, t, k); k += 1
                pattern = self.PATTERNS[j % len(self.PATTERNS)]
                out.append({"class": "pid-write/" + pattern + ("/names" if t["names"] else ""), "tree": t, "pattern": pattern,
                            "ops": gen_rewire(rng, pids, pattern), "strided": rng.random() < 0.5})
        return out

    def run(self, case):
        objs = [build_tree(case["tree"], strided=bool(case.get("strided")))]
        outs = []
        for op in case["ops"]:
            t = objs[op[1]]
            n = len(t)
            if op[0] == "look":
                outs.append(observe_topology(t, op[2]))
            elif op[0] == "copy":
                objs.append(t.copy()); outs.append("ok")
            elif op[0] == "write":
                setattr(t[op[2]], op[3], op[4]); outs.append("ok")
            else:
                i, q, route = op[2], op[3], op[4]
                try:
                    if route == "tree[i][names.pid]":
                        t[i][t.names.pid] = q
                    else:
                        if route == "node(i).pid":
                            h = t.node(i)
                        elif route == "tree[i-n].pid":
                            h = t[i - n]
                        elif route == "node(np.int64(i)).pid":
                            h = t.node(np.int64(i))
                        elif route == "iteration":
                            h = list(t)[i]
                        elif route == "tree[:][i]":
                            h = t[:][i]
                        elif route == "child-of-parent":
                            # the handle the tree itself hands out for this node: from children() of its present parent (fallback: tree[i])
                            h = next((c for c in t.node(int(t.pid()[i])).children() if int(c.id) == i), None) or t[i]
                        else:
                            h = t[i]
                        h.pid = q
                    outs.append("ok")
                except CaseTimeout:
                    raise
                except Exception as e:  # noqa: BLE001
                    outs.append({"raises": f"{type(e).__name__}: {str(e)[:120]}"})
        return {"outs": outs}

    def oracle(self, case, res):
        t = case["tree"]
        if "exc" in res:
            return [("topology-write-raises", f"{res['exc']}: {res.get('msg')} (pids={t['pids']}, ops={case['ops']})")]
        outs = res.get("outs")
        if not isinstance(outs, list) or len(outs) != len(case["ops"]):
            return [("topology-write-raises", f"malformed result {str(outs)[:200]}")]
        cur = [list(t["pids"])]
        out = []
        hist = []
        for op, got in zip(case["ops"], outs):
            o = op[1]
            if op[0] == "copy":
                cur.append(list(cur[o]))
            elif op[0] == "move":
                if got != "ok":
                    out.append(("node-write", f"object {o}: pid of node {op[2]} := {op[3]} through {op[4]} fails: {got} (pids={cur[o]})")); break
                cur[o][op[2]] = op[3]
            if op[0] != "look":
                hist.append(op); continue
            pids = cur[o]
            n = len(pids)
            who = (f"object {o} ({'the tree' if o == 0 else 'a copy'}), initial pids={t['pids']}, after {hist or 'nothing'}: "
                   f"its parent column must be {pids};")
            if not isinstance(got, dict):
                out.append(("topology-write-raises", f"{who} malformed observation {got!r}")); break
            bad = None
            for w in op[2]:
                g = got.get(w)
                if isinstance(g, dict) and "raises" in g or g is None:
                    bad = ("topology-write-raises", f"{who} {w} cannot be asked: {g}"); break
                if w == "pid" and g != pids:
                    bad = ("node-write", f"{who} pid() is {g}")
                elif w == "parents" and g != pids:
                    bad = ("node-parent", f"{who} node handles report the parents {g}")
                elif w == "children":
                    want = [[j for j in range(n) if pids[j] == i] for i in range(n)]
                    if not isinstance(g, list) or len(g) != n or [sorted(x) for x in g] != want:
                        k = next((i for i in range(n) if i >= len(g) or sorted(g[i]) != want[i]), 0) if isinstance(g, list) else 0
                        bad = ("node-children", f"{who} node {k}.children() are {g[k] if isinstance(g, list) and k < len(g) else g}, "
                                                f"the rows whose parent is {k} are {want[k]}")
                elif w == "segments":
                    want = [[pids[i], i] for i in range(1, n)]
                    if g != want:
                        bad = ("tree-segments", f"{who} get_segments() are {g}, the (parent, child) pairs are {want}")
                elif w == "adjacency":
                    want = {"shape": [n, n], "cells": sorted([p, i, 1] for i, p in enumerate(pids) if p >= 0)}
                    if g != want:
                        g = g if isinstance(g, dict) else {"malformed": g}
                        bad = ("adjacency-edges", f"{who} get_adjacency_matrix() has shape {g.get('shape')} and cells {g.get('cells', g)}, "
                                                  f"the (parent, child) pairs are {want['cells']}")
                elif w == "branch":
                    deg = [sum(1 for j in range(n) if pids[j] == i) for i in range(n)]
                    for i in range(n):
                        b = g[i] if isinstance(g, list) and i < len(g) else None
                        if not isinstance(b, list) or i not in b or any(not (0 <= y < n) or pids[y] != x for x, y in zip(b, b[1:])) \
                                or any(deg[x] != 1 for x in b[1:-1]):
                            bad = ("node-branch", f"{who} node {i}.branch() is {b}, which is not an unbranched run of (parent, child) pairs through node {i}")
                            break
                if bad:
                    break
            if bad:
                out.append(bad); break
            hist.append(["look", o])
        return out[:3]

    def nontrivial(self, case, res):
        # the same object navigated (children / branch) before AND after one of its nodes was re-attached
        seen, moved = set(), set()
        for op in case["ops"]:
            if op[0] == "look" and ("children" in op[2] or "branch" in op[2]):
                if op[1] in moved:
                    return True
                seen.add(op[1])
            elif op[0] == "move" and op[1] in seen:
                moved.add(op[1])
        return False


# ----------------------------------------------------------------------------- node handles KEPT while the tree is written
# "for all interleavings of reads and attribute writes": a handle is obtained once (by any public route out of any window), the tree is written
# through its own node handles afterwards, and only then is the kept handle read; or the tree is written while a window is being walked.
KEPT_WINDOWS = ["tree", "get_paths", "get_branches", "get_segments", "branch.get_segments", "Path(t,idx)", "Branch(t,idx)", "node.branch()"]
KEPT_ROUTES = ["for", "list()", "next(iter())", "[j]", "[j-k]", "node(j)", "[:]", "[::-1]", "reversed()", "unpacking"]
KEPT_MODES = ["keep", "walk", "reread"]
WCOLS = ["type", "x", "y", "z", "r"]


def kept_window(t, case):
    """the window of the case, and the rows of the tree it shows (None: the tree has no such window)"""
    from swcgeom.core import Branch, Path

    kind, f = case["window"], case["pick"]
    pick = lambda xs: xs[int(f * len(xs))] if len(xs) else None
    if kind == "tree":
        return t, list(range(len(t)))
    if kind in ("Path(t,idx)", "Branch(t,idx)"):
        return (Path if kind[0] == "P" else Branch)(t, np.array(case["idx"], dtype=np.int32)), list(case["idx"])
    if kind == "branch.get_segments":
        b = pick(t.get_branches())
        v = pick(b.get_segments()) if b is not None else None
        return (None, None) if v is None else (v, [int(i) for i in np.asarray(b.idx)[np.asarray(v.idx)]])
    if kind == "node.branch()":
        v = t.node(int(f * len(t))).branch()
    else:
        v = pick(getattr(t, kind)())
    return (None, None) if v is None else (v, [int(i) for i in np.asarray(v.idx)])


def kept_handles(route, v, k):
    """the node handles of window v in position order, produced one at a time by the given public route"""
    if route == "for":
        return iter(v)
    if route == "list()":
        return iter(list(v))
    if route == "next(iter())":
        it = iter(v)
        return (next(it) for _ in range(k))
    if route == "[j]":
        return (v[j] for j in range(k))
    if route == "[j-k]":
        return (v[j - k] for j in range(k))
    if route == "node(j)":
        return (v.node(j) for j in range(k))
    if route == "[:]":
        return iter(v[:])
    if route == "[::-1]":
        return iter(v[::-1][::-1])
    if route == "reversed()":
        return iter(list(reversed(v))[::-1])
    if route == "unpacking":
        (*hs,) = v
        return iter(hs)
    raise ValueError(route)


class KeptHandles(Suite):
    """a node handle is a window, not a snapshot: whatever the route it was obtained by and whatever window it was obtained from, it reports
    the tree's CURRENT attributes of its node after the tree was written through tree node handles, at every point of the interleaving"""
    name = "c09.kept_handles"

    def cases(self, rng, tier, widen):
        out = []
        big = tier == "thorough" or widen
        k = 0
        for _rep in range(3 if big else 1):
            for wi, window in enumerate(KEPT_WINDOWS):
                for ri, route in enumerate(KEPT_ROUTES):
                    n = rng.choice([2, 3, 5, 8, 13] + ([40] if big else []))
                    pids = gen.renumber_root0(rng, gen.parents_sorted(rng, n, gen.pick_shape(rng, k)))
                    nn = len(pids)
                    t = {"n": nn, "pids": pids, "types": [1] + [rng.choice([2, 3, 4]) for _ in range(nn - 1)],
                         "xyz": [[float(rng.randint(-30, 30)) for _ in range(3)] for _ in range(nn)], "r": [float(rng.randint(1, 9)) for _ in range(nn)]}
                    decorate(rng, t, k)
                    mode = KEPT_MODES[(wi + ri + _rep) % 3]; k += 1
                    # writes: (position in the window as a fraction / offset from the handle just read, column, value, tree handle spelling)
                    writes = [[rng.random(), rng.choice([0, 1, 1, 2, -1]), rng.choice(WCOLS), rng.randint(100, 900), rng.choice(["t[i]", "t.node(i)", "t[i-n]"])]
                              for _ in range(rng.randint(2, 6))]
                    out.append({"class": f"{mode}/{route}/{window}" + ("/names" if t["names"] else ""), "tree": t, "window": window, "route": route,
                                "mode": mode, "pick": rng.random(), "idx": [rng.randrange(nn) for _ in range(rng.randint(1, 5))], "writes": writes})
        return out

    def run(self, case):
        tc = case["tree"]
        t = build_tree(tc)
        n = len(t)
        v, rows = kept_window(t, case)
        if v is None:
            return {"skip": True}
        k = len(rows)
        ev = []

        def read(p, h, how):
            ev.append(["r", p, how, [int(getattr(h, c)) for c in COLS], [int(h[actual(tc, c)]) for c in COLS]])

        def write(w, p):
            row = rows[p % k]
            h = {"t[i]": lambda: t[row], "t.node(i)": lambda: t.node(row), "t[i-n]": lambda: t[row - n]}[w[4]]()
            setattr(h, w[2], w[3])
            ev.append(["w", row, w[2], w[3]])

        ws = case["writes"]
        with warnings.catch_warnings():
            warnings.simplefilter("ignore")
            hs = kept_handles(case["route"], v, k)
            if case["mode"] == "walk":
                # the tree is written while the window is walked: each handle is read when it is reached
                for p in range(k):
                    h = next(hs)
                    read(p, h, "reached")
                    w = ws[p % len(ws)]
                    write(w, p + w[1])
            else:
                kept = [next(hs) for _ in range(k)]
                if case["mode"] == "reread":
                    for p, h in enumerate(kept):
                        read(p, h, "fresh")
                for j, w in enumerate(ws):
                    write(w, int(w[0] * k))
                    if case["mode"] == "reread":
                        p = int(ws[-1 - j][0] * k)
                        read(p, kept[p], "kept")
                for p, h in enumerate(kept):
                    read(p, h, "kept")
            extra = len(list(hs)) if case["route"] in ("for", "list()", "[:]", "[::-1]", "reversed()", "unpacking") else 0
        return {"rows": rows, "events": ev, "extra": extra, "final": {c: [int(x) for x in column(t, c)] for c in COLS},
                "window_final": {c: [int(x) for x in column(v, c, "method" if v is not t else "key")] for c in COLS}}

    def oracle(self, case, res):
        t = case["tree"]
        what = f"a {case['window']} window of a tree with pids={t['pids']}, names={t.get('names')}; handles obtained by {case['route']}, mode {case['mode']}"
        if "exc" in res:
            return [("node-handle-raises", f"{what}: {res['exc']}: {res.get('msg')}")]
        if res.get("skip"):
            return []
        try:
            return self._judge(case, res, what)
        except CaseTimeout:
            raise
        except Exception as e:  # noqa: BLE001 - a malformed result is a finding, not a crash
            return [("node-read", f"{what}: malformed observation ({type(e).__name__}: {e})")]

    def _judge(self, case, res, what):
        t = case["tree"]
        n, pids = t["n"], t["pids"]
        rows = res["rows"]
        if not rows or any(not isinstance(i, int) or not 0 <= i < n for i in rows):
            return [("view-rows", f"{what}: it shows rows {rows} of a tree of {n} nodes")]
        if case["window"] in ("Path(t,idx)", "Branch(t,idx)") and rows != case["idx"]:
            return [("view-rows", f"{what}: it shows rows {rows}, asked for {case['idx']}")]
        if case["window"] in ("get_paths", "get_branches", "get_segments", "branch.get_segments", "node.branch()") and any(pids[b] != a for a, b in zip(rows, rows[1:])):
            return [("view-rows", f"{what}: its rows {rows} are not a chain of (parent, child) pairs")]
        if res.get("extra"):
            return [("view-iteration", f"{what}: {res['extra']} handles more than its {len(rows)} nodes")]
        cur = {c: list(vv) for c, vv in tree_columns(t).items()}
        for e in res["events"]:
            if e[0] == "w":
                cur[e[2]][e[1]] = e[3]
                continue
            _, p, how, attrs, items = e
            row = rows[p]
            want = [cur[c][row] for c in COLS]
            for got, spelled in ((attrs, "handle.<column>"), (items, "handle[<column name>]")):
                if got != want:
                    key = "node-read" if how != "kept" else "stale-or-leaked-write"
                    return [(key, f"{what}: the handle of position {p} (tree node {row}), read as {spelled} when {how} after the writes "
                                  f"{[x[1:] for x in res['events'][:res['events'].index(e)] if x[0] == 'w']}, reports {dict(zip(COLS, got))}; "
                                  f"the tree node has {dict(zip(COLS, want))}")]
        for c in COLS:
            if res["final"][c] != cur[c]:
                return [("node-write", f"{what}: after the writes the tree's column {c} is {res['final'][c]}, expected {cur[c]}")]
            if res["window_final"][c] != [cur[c][i] for i in rows]:
                return [("view-read", f"{what}: after the writes the window's column {c} is {res['window_final'][c]}, the tree has {[cur[c][i] for i in rows]}")]
        return []

    def nontrivial(self, case, res):
        # some kept handle is read after a write to ITS node
        if res.get("skip") or "events" not in res:
            return False
        written = set()
        for e in res["events"]:
            if e[0] == "w":
                written.add(e[1])
            elif res["rows"][e[1]] in written:
                return True
        return False


SUITES = [History(), Collections(), Accessors(), Handles(), Adjacency(), TopologyWrites(), KeptHandles()]
TECHNIQUE = ("Lean 4 theorems about a heap model of owners, arrays and index-holding views (a view's read is the owner's current content at its indices after any "
             "history; a tree-node write lands in the owner and is seen by every view; copy / detach allocate fresh arrays, so for every later interleaving of "
             "writes neither side sees the other's; segment construction) + differential correspondence on random operation histories + np.shares_memory oracle")
LEVEL_TEXT = ("Kernel-checked for every operation history over the heap model: reading a column through a node, path or branch returns the owner's current values "
              "at the view's indices (negative indices normalised, out of range rejected); a write through a tree node changes exactly that cell of the owner; the "
              "arrays of a copy or a detached object are freshly allocated and no later operation on one side changes an array of the other; a tree's segments are "
              "its (parent, child) pairs and a branch's segments its consecutive node pairs.")
LEVEL_NOTE = "Trusted: Lean kernel; heap model (where numpy aliases / copies) tied by correspondence on histories and np.shares_memory, and the indexing / window / iteration / detach logic of Node, Path, Branch, Compartment, Tree translated from the source and proved against it; deepcopy."
