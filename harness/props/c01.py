"""C01 — SWC write -> read round trip reproduces the tree."""
import io
import os
import pathlib
import shutil
import tempfile
from decimal import ROUND_FLOOR, ROUND_HALF_EVEN, Decimal

import numpy as np

from harness import gen
from harness.framework import Suite

PID = "C01"
TRANSLATE = True
LEAN_MODS = ["SwcVerif.Props.C01"]
THEOREMS = [
    "C01.writer_consts_pinned", "C01.digits_parse", "C01.fmt4_parse", "C01.row_roundtrip", "C01.comment_roundtrip", "C01.comment_text_same",
    "C01.header_dropped", "C01.written_lines_are_lines", "C01.table_roundtrip", "C01.comments_roundtrip", "C01.reset_restores",
]
TRUSTED = ["hand-written writer/reader text models (Model/SwcText.lean) tied by the c01.roundtrip correspondence; constants pinned via Gen/Consts.lean"]
ASSUMPTIONS = ["CPython float formatting f'{v:.4f}' (correct rounding of the binary value) and float() parsing; float32 storage after reading",
               "comments that themselves start with the column-header text `id type x y z r pid` are outside the quantifier (the format cannot tell them from the writer's header)"]


def q4(v32):
    """what '.4f' prints for a float32 value, as an integer in units of 1e-4"""
    d = Decimal(float(v32)).quantize(Decimal("0.0001"), rounding=ROUND_HALF_EVEN)
    return int(d.scaleb(4))


def q4_both(v32):
    """the 4-decimal roundings the property admits for a float32 value: one value, or the two neighbours when the binary value
    lies EXACTLY half-way between two 4-decimal numbers (the property says "rounded", not which way a tie goes)"""
    d = Decimal(float(v32)).scaleb(4)
    lo = d.to_integral_value(rounding=ROUND_FLOOR)
    if d - lo == Decimal("0.5"):
        return {int(lo), int(lo) + 1}
    return {q4(v32)}


# Values next to a rounding threshold of the last decimal the format carries, at every magnitude INCLUDING below one unit of that
# decimal: (k + f) * 1e-4 for k units of the last decimal and a fractional part f around the half-way point.  Uniform coordinates
# practically never fall there (k = 0 is a window of width 1e-4 next to zero), and that is where "too small to matter" shortcuts, truncation
# instead of rounding, and sign handling of values that print as zero show.  `None` = drawn from the rng inside the stratum.
EDGE_UNITS = [0, 1, 2, 9, 10, 99, 9999, 10000, None]
EDGE_FRACS = [0.0, 0.1, 0.3, 0.49, 0.499, 0.4999, 0.5, 0.5001, 0.501, 0.51, 0.7, 0.9, 0.999, None]


def edge_pool(rng):
    """every stratum (units, fraction, sign) once, plus exact binary ties ((2j+1)/32 is a float32 AND half-way at the 4th decimal), shuffled"""
    pool = [(k, f, s) for k in EDGE_UNITS for f in EDGE_FRACS for s in (1, -1)]
    pool += [("tie", None, s) for s in (1, -1) for _ in range(4)]
    rng.shuffle(pool)
    return pool


def edge_value(rng, stratum):
    k, f, s = stratum
    if k == "tie":
        return s * (2 * rng.randint(0, 500) + 1) / 32.0
    if k is None:
        k = rng.randint(3, 10 ** rng.randint(1, 7))
    if f is None:
        f = rng.random()
    return s * (k + f) * 1e-4


# how a file is named when it is a path source: everything open() takes as a path
PATH_FORMS = {"str": lambda p: p, "pathlike": pathlib.Path, "bytes": os.fsencode}


COMMENTS = ["plain comment", "  leading blanks", "", "   ", "\t", "x: 1, y: 2", "# nested hash", "ends with blanks   ", "CREATED BY tool", "id of the cell: 7"]


class RoundTrip(Suite):
    name = "c01.roundtrip"

    def cases(self, rng, tier, widen):
        out = []
        reps = 3 if tier == "quick" and not widen else 10
        k = 0
        pool, used = edge_pool(rng), [0]

        def strata(m):
            got = [pool[(used[0] + i) % len(pool)] for i in range(m)]
            used[0] += m
            return got

        def mk(n, shape, coords=None, kind=None, forms=None):
            coords = coords or rng.choice(["dyadic", "grid4", "wild", "float"])
            t = gen.tree_case(rng, n, shape, numbering=rng.choice(["sorted", "root0"]), coords=coords if coords in ("dyadic", "grid4") else "float", types="any")
            if coords == "wild":
                for p in t["xyz"]:
                    for i in range(3):
                        p[i] = rng.choice([0.0, -0.0, 1e-30, -1e-7, 5e-5, 0.00005, 0.99995, 123456.789, -1e6, 3.4e9, 1e-4, 0.12345, 2.5e-5])
                t["r"] = [rng.choice([0.00004, 0.00005, 1.0, 1e-9, 12.34565]) for _ in t["r"]]
                t["types"] = [rng.choice([0, 1, 7, 12, 255, 100000]) for _ in t["types"]]
            if coords == "edge4":
                # every coordinate and radius next to a rounding threshold; the strata are dealt round-robin over ALL edge cases of the run, so
                # the quick tier (4 * 96 values) sees each (units, fraction, sign) stratum at least once whatever the seed
                vals = [edge_value(rng, st_) for st_ in strata(4 * t["n"])]
                t["xyz"] = [vals[4 * i:4 * i + 3] for i in range(t["n"])]
                t["r"] = [abs(vals[4 * i + 3]) for i in range(t["n"])]
            cm = [rng.choice(COMMENTS) for _ in range(rng.choice([0, 0, 1, 2, 4]))]
            case = {"class": f"{coords}/{t['class']}", "tree": t, "comments": cm,
                    "source": rng.choice([True, False, "my source"]), "with_comments": rng.random() < 0.85,
                    "offset": rng.choice([0, 1, 1, 7, 10**6, 2**24 - 2, 20000001, 123456789]),
                    "kind": kind or rng.choice(["text", "bytes", "path", "path-write"]),
                    "passes": rng.choice([1, 1, 2, 3])}
            if forms:
                case["read_form"], case["write_form"] = forms
                case["class"] = f"{case['kind']}:{forms[0]}/" + case["class"]
            return case

        sizes = gen.sizes(tier, widen) + ([3000] if tier == "thorough" and not widen else [])
        for n in sizes:
            for _ in range(reps if n < 1000 else 1):
                shape = gen.pick_shape(rng, k); k += 1
                out.append(mk(n, shape))
        # family: values next to a rounding threshold of the last decimal (guaranteed share: one tree per size, all of whose values are such)
        for n in sizes:
            for _ in range(1 if tier == "quick" and not widen else 3):
                shape = gen.pick_shape(rng, k); k += 1
                if n < 1000:
                    out.append(mk(n, shape, coords="edge4"))
        # family: every way to hand the written file to the reader as a "path" or "text stream" source - the path as str, os.PathLike or
        # bytes (os.fsencode / os.listdir(b"...") give such paths), for files written by the caller and files written by to_swc(fname)
        # itself (then named in the same form), and an open text file.  Guaranteed share: each form with two tree sizes.
        flavours = [("path", ("pathlike", "str")), ("path", ("bytes", "str")), ("path-write", ("pathlike", "pathlike")),
                    ("path-write", ("bytes", "bytes")), ("path-write", ("bytes", "str")), ("textfile", ("str", "str"))]
        small = [n for n in sizes if n <= 40]
        for kind, forms in flavours:
            for n in (rng.choice(small[:4]), rng.choice(small[4:])) + ((rng.choice(sizes),) if tier == "thorough" or widen else ()):
                shape = gen.pick_shape(rng, k); k += 1
                out.append(mk(n, shape, kind=kind, forms=forms))
        return out

    def run(self, case):
        from swcgeom.core import Tree

        t = gen.make_tree(case["tree"], comments=list(case["comments"]))
        if case.get("written_before", case["tree"]["n"] % 2 == 0):
            # the tree that is written is DERIVED from a tree that was written before (a copy whose columns are then replaced,
            # as every transform does): the text must be that of the tree being written
            n0 = case["tree"]["n"]
            t0 = gen.make_tree(dict(case["tree"], xyz=[[c + 3.25 for c in q] for q in case["tree"]["xyz"]], r=[v + 0.5 for v in case["tree"]["r"]],
                                    types=[(v + 1) % 8 for v in case["tree"]["types"]]), comments=list(case["comments"]))
            for off in {case["offset"], 0, 1}:
                t0.to_swc(id_offset=off); t0.to_swc(source=case["source"], comments=case["with_comments"], id_offset=off)
            d = t0.copy()
            for k in ("x", "y", "z", "r", "type", "pid"):
                d.ndata[k] = t.ndata[k].copy()
            t = d
        tmp = None
        hist = []
        fh = None
        rform, wform = PATH_FORMS[case.get("read_form", "str")], PATH_FORMS[case.get("write_form", "str")]
        try:
            cur = t
            for _ in range(case["passes"]):
                kw = dict(source=case["source"], comments=case["with_comments"], id_offset=case["offset"])
                if case["kind"] == "path-write":
                    tmp = tmp or tempfile.mkdtemp(prefix="c01_")
                    fn = os.path.join(tmp, "w.swc")
                    cur.to_swc(wform(fn), **kw)
                    src = rform(fn)
                    text = open(fn, encoding="utf-8").read()
                else:
                    text = cur.to_swc(**kw)
                    if case["kind"] == "text":
                        src = io.StringIO(text)
                    elif case["kind"] == "bytes":
                        src = io.BytesIO(text.encode("utf-8"))
                    else:
                        tmp = tmp or tempfile.mkdtemp(prefix="c01_")
                        fn = os.path.join(tmp, "r.swc")
                        with open(fn, "w", encoding="utf-8") as f:
                            f.write(text)
                        if case["kind"] == "textfile":   # a text stream that is an open file rather than a StringIO
                            if fh:
                                fh.close()
                            src = fh = open(fn, encoding="utf-8")
                        else:
                            src = rform(fn)
                back = Tree.from_swc(src)
                hist.append({"text_head": text[:300], "full_text": text if len(hist) == 0 and back.number_of_nodes() <= 80 else None, "n": back.number_of_nodes(), "pid": back.pid().tolist(), "type": back.type().tolist(),
                             "id": back.id().tolist(),
                             "x": back.x().astype(np.float64).tolist(), "y": back.y().astype(np.float64).tolist(),
                             "z": back.z().astype(np.float64).tolist(), "r": back.r().astype(np.float64).tolist(),
                             "comments": list(back.comments), "source_attr": back.source})
                cur = back
            return {"passes": hist, "text": text if len(text) < 4000 else text[:4000], "first_text": hist[0]["full_text"] if t.number_of_nodes() <= 80 else None,
                    "source_text": t.source}
        finally:
            if fh:
                fh.close()
            if tmp:
                shutil.rmtree(tmp, ignore_errors=True)

    def lines(self, case, res):
        from harness import swctext as st

        if "exc" in res or not res.get("first_text"):
            return []
        t = case["tree"]
        n = t["n"]
        xyz = np.array(t["xyz"], dtype=np.float32)
        r = np.array(t["r"], dtype=np.float32)
        cols = [xyz[:, 0], xyz[:, 1], xyz[:, 2], r]
        nz = [4 * k + c for k in range(n) for c in range(4) if st.neg_zero(cols[c][k])]
        src = case["source"]
        if src is False:
            srcarg = "none"
        else:
            srcarg = st.cps(src if isinstance(src, str) else (res["source_text"] or "Unknown"))
        cm = ";".join(st.cps(c) for c in case["comments"]) if case["comments"] else "none"
        w = (f"swcwrite off={case['offset']} src={srcarg} wc={int(case['with_comments'])} ids={gen.ints(range(n))} types={gen.ints(t['types'])} "
             f"pids={gen.ints(t['pids'])} " + " ".join(f"{nm}={gen.ints([st.q4(v) for v in col])}" for nm, col in zip("xyzr", cols))
             + f" nz={gen.ints(nz)} c={cm}")
        text = res["first_text"]
        h = res["passes"][0]

        def back(got):
            m = st.parse_model_read(got)
            if "error" in m or m["n"] != h["n"]:
                return False
            if [x["id"] for x in m["rows"]] != h["id"] or [x["pid"] for x in m["rows"]] != h["pid"] or [x["type"] for x in m["rows"]] != h["type"]:
                return False
            for c in "xyzr":
                if [float(np.float32(float(x[c]))) for x in m["rows"]] != h[c]:
                    return False
            return m["comments"] == h["comments"]

        return [(w, st.cps(text)),
                (f"swcread nx=0 reset=1 cp={st.cps(text)}", st.Expect(back, "Tree.from_swc(text) = " + repr({k: h[k] for k in ('id', 'pid', 'type', 'x', 'comments')})[:1200]))]

    def oracle(self, case, res):
        if "exc" in res:
            return [("roundtrip-raises", f"write→read raised {res['exc']}: {res.get('msg')}")]
        t = case["tree"]
        n = t["n"]
        out = []
        xyz = np.array(t["xyz"], dtype=np.float32)
        r = np.array(t["r"], dtype=np.float32)
        cols = {"x": xyz[:, 0], "y": xyz[:, 1], "z": xyz[:, 2], "r": r}
        exp_comments = [c.lstrip() for c in case["comments"]] if case["with_comments"] else []
        cur_cols = cols
        for k, h in enumerate(res["passes"]):
            if h["n"] != n:
                return [("node-count", f"pass {k+1}: {h['n']} nodes read back, {n} written")]
            if h["pid"] != t["pids"]:
                out.append(("parents", f"pass {k+1}: parents {h['pid'][:8]}… differ from {t['pids'][:8]}… (offset {case['offset']})"))
            if h["type"] != t["types"]:
                out.append(("types", f"pass {k+1}: types differ"))
            if h["id"] != list(range(n)):
                out.append(("ids", f"pass {k+1}: ids are {h['id'][:6]}…"))
            nxt = {}
            for c in "xyzr":
                want = np.array([np.float32(q4(v) / 10000.0) for v in cur_cols[c]], dtype=np.float32)
                got = np.array(h[c], dtype=np.float32)
                bad = [int(i) for i in np.nonzero(want != got)[0]
                       if not any(np.float32(q / 10000.0) == got[i] for q in q4_both(cur_cols[c][i]))]   # an exact tie may go either way
                if bad:
                    i = bad[0]
                    out.append(("coords", f"pass {k+1}: column {c} node {i}: original {float(cur_cols[c][i])!r} → read back {float(got[i])!r}, "
                                          f"4-decimal rounding gives {float(want[i])!r}"))
                nxt[c] = got
            cur_cols = nxt
            # comments: nothing added but the optional source header
            hdr = []
            if case["source"] is not False:
                hdr = [None, ""]  # "source: …" (text not fixed by the property) and the empty separator line
            exp_comments = hdr + exp_comments if case["with_comments"] else hdr
            got_c = [c.lstrip() for c in h["comments"]]
            ok = len(got_c) == len(exp_comments) and all(e is None and g.startswith("source:") or e == g for e, g in zip(exp_comments, got_c))
            if not ok:
                cls = "header-added" if any(g.startswith("id type x y z r pid") for g in got_c) else "comments"
                out.append((f"comments/{cls}", f"pass {k+1}: comments read back {h['comments']!r}; written {case['comments']!r} "
                                               f"(source={case['source']!r}, comments={case['with_comments']})"))
                break
            exp_comments = [g if e is None else e for e, g in zip(exp_comments, got_c)]
        return out[:3]

    def nontrivial(self, case, res):
        return case["tree"]["n"] >= 3


SUITES = [RoundTrip()]
TECHNIQUE = "Lean 4 theorems about the writer/reader text models (fmt4∘parse round trip on the 10⁻⁴ grid, row and table round trip for every offset, comments round trip) + differential correspondence against Tree.to_swc / Tree.from_swc + decimal-rounding oracle over path/text/byte sources and repeated passes"
LEVEL_TEXT = ("Kernel-checked for every table, every offset ≥ 0 and every comment list: the written text parses back to the same rows (ids shifted back, "
              "parents, types, coordinates on the 4-decimal grid) and the same comments with nothing added but the source header. Tied to the code by the "
              "extracted format constants and by comparing the models with the real writer/reader.")
LEVEL_NOTE = "Trusted: Lean kernel; CPython's float formatting/parsing (the float→4-decimal rounding is computed by the harness with `decimal`); float32 storage."

