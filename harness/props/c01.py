"""C01 — SWC write -> read round trip reproduces the tree."""
import io
import os
import shutil
import tempfile
from decimal import ROUND_HALF_EVEN, Decimal

import numpy as np

from harness import gen
from harness.framework import Suite

PID = "C01"
TRANSLATE = True
LEAN_MODS = ["SwcVerif.Props.C01"]
THEOREMS = [
    "C01.writer_consts_pinned", "C01.digits_parse", "C01.fmt4_parse", "C01.row_roundtrip", "C01.comment_roundtrip", "C01.comment_text_same",
    "C01.header_dropped", "C01.written_lines_are_lines", "C01.table_roundtrip", "C01.comments_roundtrip", "C01.reset_restores",
]
TRUSTED = ["hand-written writer/reader text models (Model/SwcText.lean) tied by the c01.roundtrip correspondence; constants pinned via Gen/Consts.lean"]
ASSUMPTIONS = ["CPython float formatting f'{v:.4f}' (correct rounding of the binary value) and float() parsing; float32 storage after reading",
               "comments that themselves start with the column-header text `id type x y z r pid` are outside the quantifier (the format cannot tell them from the writer's header)"]


def q4(v32):
    """what '.4f' prints for a float32 value, as an integer in units of 1e-4"""
    d = Decimal(float(v32)).quantize(Decimal("0.0001"), rounding=ROUND_HALF_EVEN)
    return int(d.scaleb(4))


COMMENTS = ["plain comment", "  leading blanks", "", "   ", "\t", "x: 1, y: 2", "# nested hash", "ends with blanks   ", "CREATED BY tool", "id of the cell: 7"]


class RoundTrip(Suite):
    name = "c01.roundtrip"

    def cases(self, rng, tier, widen):
        out = []
        reps = 3 if tier == "quick" and not widen else 10
        k = 0
        for n in gen.sizes(tier, widen) + ([3000] if tier == "thorough" and not widen else []):
            for _ in range(reps if n < 1000 else 1):
                shape = gen.pick_shape(rng, k); k += 1
                coords = rng.choice(["dyadic", "grid4", "wild", "float"])
                t = gen.tree_case(rng, n, shape, numbering=rng.choice(["sorted", "root0"]), coords="float" if coords == "wild" else coords, types="any")
                if coords == "wild":
                    for p in t["xyz"]:
                        for i in range(3):
                            p[i] = rng.choice([0.0, -0.0, 1e-30, -1e-7, 5e-5, 0.00005, 0.99995, 123456.789, -1e6, 3.4e9, 1e-4, 0.12345, 2.5e-5])
                    t["r"] = [rng.choice([0.00004, 0.00005, 1.0, 1e-9, 12.34565]) for _ in t["r"]]
                    t["types"] = [rng.choice([0, 1, 7, 12, 255, 100000]) for _ in t["types"]]
                cm = [rng.choice(COMMENTS) for _ in range(rng.choice([0, 0, 1, 2, 4]))]
                out.append({"class": f"{coords}/{t['class']}", "tree": t, "comments": cm,
                            "source": rng.choice([True, False, "my source"]), "with_comments": rng.random() < 0.85,
                            "offset": rng.choice([0, 1, 1, 7, 10**6, 2**24 - 2, 20000001, 123456789]), "kind": rng.choice(["text", "bytes", "path", "path-write"]),
                            "passes": rng.choice([1, 1, 2, 3])})
        return out

    def run(self, case):
        from swcgeom.core import Tree

        t = gen.make_tree(case["tree"], comments=list(case["comments"]))
        if case.get("written_before", case["tree"]["n"] % 2 == 0):
            # the tree that is written is DERIVED from a tree that was written before (a copy whose columns are then replaced,
            # as every transform does): the text must be that of the tree being written
            n0 = case["tree"]["n"]
            t0 = gen.make_tree(dict(case["tree"], xyz=[[c + 3.25 for c in q] for q in case["tree"]["xyz"]], r=[v + 0.5 for v in case["tree"]["r"]],
                                    types=[(v + 1) % 8 for v in case["tree"]["types"]]), comments=list(case["comments"]))
            for off in {case["offset"], 0, 1}:
                t0.to_swc(id_offset=off); t0.to_swc(source=case["source"], comments=case["with_comments"], id_offset=off)
            d = t0.copy()
            for k in ("x", "y", "z", "r", "type", "pid"):
                d.ndata[k] = t.ndata[k].copy()
            t = d
        tmp = None
        hist = []
        try:
            cur = t
            for _ in range(case["passes"]):
                kw = dict(source=case["source"], comments=case["with_comments"], id_offset=case["offset"])
                if case["kind"] == "path-write":
                    tmp = tmp or tempfile.mkdtemp(prefix="c01_")
                    fn = os.path.join(tmp, "w.swc")
                    cur.to_swc(fn, **kw)
                    src = fn
                    text = open(fn, encoding="utf-8").read()
                else:
                    text = cur.to_swc(**kw)
                    if case["kind"] == "text":
                        src = io.StringIO(text)
                    elif case["kind"] == "bytes":
                        src = io.BytesIO(text.encode("utf-8"))
                    else:
                        tmp = tmp or tempfile.mkdtemp(prefix="c01_")
                        src = os.path.join(tmp, "r.swc")
                        with open(src, "w", encoding="utf-8") as f:
                            f.write(text)
                back = Tree.from_swc(src)
                hist.append({"text_head": text[:300], "full_text": text if len(hist) == 0 and back.number_of_nodes() <= 80 else None, "n": back.number_of_nodes(), "pid": back.pid().tolist(), "type": back.type().tolist(),
                             "id": back.id().tolist(),
                             "x": back.x().astype(np.float64).tolist(), "y": back.y().astype(np.float64).tolist(),
                             "z": back.z().astype(np.float64).tolist(), "r": back.r().astype(np.float64).tolist(),
                             "comments": list(back.comments), "source_attr": back.source})
                cur = back
            return {"passes": hist, "text": text if len(text) < 4000 else text[:4000], "first_text": hist[0]["full_text"] if t.number_of_nodes() <= 80 else None,
                    "source_text": t.source}
        finally:
            if tmp:
                shutil.rmtree(tmp, ignore_errors=True)

    def lines(self, case, res):
        from harness import swctext as st

        if "exc" in res or not res.get("first_text"):
            return []
        t = case["tree"]
        n = t["n"]
        xyz = np.array(t["xyz"], dtype=np.float32)
        r = np.array(t["r"], dtype=np.float32)
        cols = [xyz[:, 0], xyz[:, 1], xyz[:, 2], r]
        nz = [4 * k + c for k in range(n) for c in range(4) if st.neg_zero(cols[c][k])]
        src = case["source"]
        if src is False:
            srcarg = "none"
        else:
            srcarg = st.cps(src if isinstance(src, str) else (res["source_text"] or "Unknown"))
        cm = ";".join(st.cps(c) for c in case["comments"]) if case["comments"] else "none"
        w = (f"swcwrite off={case['offset']} src={srcarg} wc={int(case['with_comments'])} ids={gen.ints(range(n))} types={gen.ints(t['types'])} "
             f"pids={gen.ints(t['pids'])} " + " ".join(f"{nm}={gen.ints([st.q4(v) for v in col])}" for nm, col in zip("xyzr", cols))
             + f" nz={gen.ints(nz)} c={cm}")
        text = res["first_text"]
        h = res["passes"][0]

        def back(got):
            m = st.parse_model_read(got)
            if "error" in m or m["n"] != h["n"]:
                return False
            if [x["id"] for x in m["rows"]] != h["id"] or [x["pid"] for x in m["rows"]] != h["pid"] or [x["type"] for x in m["rows"]] != h["type"]:
                return False
            for c in "xyzr":
                if [float(np.float32(float(x[c]))) for x in m["rows"]] != h[c]:
                    return False
            return m["comments"] == h["comments"]

        return [(w, st.cps(text)),
                (f"swcread nx=0 reset=1 cp={st.cps(text)}", st.Expect(back, "Tree.from_swc(text) = " + repr({k: h[k] for k in ('id', 'pid', 'type', 'x', 'comments')})[:1200]))]

    def oracle(self, case, res):
        if "exc" in res:
            return [("roundtrip-raises", f"write→read raised {res['exc']}: {res.get('msg')}")]
        t = case["tree"]
        n = t["n"]
        out = []
        xyz = np.array(t["xyz"], dtype=np.float32)
        r = np.array(t["r"], dtype=np.float32)
        cols = {"x": xyz[:, 0], "y": xyz[:, 1], "z": xyz[:, 2], "r": r}
        exp_comments = [c.lstrip() for c in case["comments"]] if case["with_comments"] else []
        cur_cols = cols
        for k, h in enumerate(res["passes"]):
            if h["n"] != n:
                return [("node-count", f"pass {k+1}: {h['n']} nodes read back, {n} written")]
            if h["pid"] != t["pids"]:
                out.append(("parents", f"pass {k+1}: parents {h['pid'][:8]}… differ from {t['pids'][:8]}… (offset {case['offset']})"))
            if h["type"] != t["types"]:
                out.append(("types", f"pass {k+1}: types differ"))
            if h["id"] != list(range(n)):
                out.append(("ids", f"pass {k+1}: ids are {h['id'][:6]}…"))
            nxt = {}
            for c in "xyzr":
                want = np.array([np.float32(q4(v) / 10000.0) for v in cur_cols[c]], dtype=np.float32)
                got = np.array(h[c], dtype=np.float32)
                if not np.array_equal(want, got):
                    i = int(np.nonzero(want != got)[0][0])
                    out.append(("coords", f"pass {k+1}: column {c} node {i}: original {float(cur_cols[c][i])!r} → read back {float(got[i])!r}, "
                                          f"4-decimal rounding gives {float(want[i])!r}"))
                nxt[c] = got
            cur_cols = nxt
            # comments: nothing added but the optional source header
            hdr = []
            if case["source"] is not False:
                hdr = [None, ""]  # "source: …" (text not fixed by the property) and the empty separator line
            exp_comments = hdr + exp_comments if case["with_comments"] else hdr
            got_c = [c.lstrip() for c in h["comments"]]
            ok = len(got_c) == len(exp_comments) and all(e is None and g.startswith("source:") or e == g for e, g in zip(exp_comments, got_c))
            if not ok:
                cls = "header-added" if any(g.startswith("id type x y z r pid") for g in got_c) else "comments"
                out.append((f"comments/{cls}", f"pass {k+1}: comments read back {h['comments']!r}; written {case['comments']!r} "
                                               f"(source={case['source']!r}, comments={case['with_comments']})"))
                break
            exp_comments = [g if e is None else e for e, g in zip(exp_comments, got_c)]
        return out[:3]

    def nontrivial(self, case, res):
        return case["tree"]["n"] >= 3


SUITES = [RoundTrip()]
TECHNIQUE = "Lean 4 theorems about the writer/reader text models (fmt4∘parse round trip on the 10⁻⁴ grid, row and table round trip for every offset, comments round trip) + differential correspondence against Tree.to_swc / Tree.from_swc + decimal-rounding oracle over path/text/byte sources and repeated passes"
LEVEL_TEXT = ("Kernel-checked for every table, every offset ≥ 0 and every comment list: the written text parses back to the same rows (ids shifted back, "
              "parents, types, coordinates on the 4-decimal grid) and the same comments with nothing added but the source header. Tied to the code by the "
              "extracted format constants and by comparing the models with the real writer/reader.")
LEVEL_NOTE = "Trusted: Lean kernel; CPython's float formatting/parsing (the float→4-decimal rounding is computed by the harness with `decimal`); float32 storage."

