"""C01 — SWC write -> read round trip reproduces the tree."""
import io
import os
import pathlib
import shutil
import tempfile
from decimal import ROUND_FLOOR, ROUND_HALF_EVEN, Decimal

import numpy as np

from harness import gen
from harness.framework import Suite

PID = "C01"
TRANSLATE = True
TRANSLATE_ALGO = ["AlgoWriter", "AlgoReadFront"]   # Gen/AlgoWriter.lean is regenerated on every run from io.py::to_swc (+ its closure get_v) and swc.py::SWCLike.to_swc
DRIVER_FILES = ["SwcVerif/Model/AlgoRunWriter.lean"]
LEAN_MODS = ["SwcVerif.Props.C01", "SwcVerif.Props.C01Gen", "SwcVerif.Props.C01Front"]
THEOREMS = [
    "C01.writer_consts_pinned", "C01.digits_parse", "C01.fmt4_parse", "C01.row_roundtrip", "C01.comment_roundtrip", "C01.comment_text_same",
    "C01.header_dropped", "C01.written_lines_are_lines", "C01.table_roundtrip", "C01.comments_roundtrip", "C01.reset_restores",
    # the writer as TRANSLATED from the source on every run (Gen/AlgoWriter.lean)
    "RefineWriter.get_v_spec", "RefineWriter.to_swc_refines", "RefineWriter.swclike_to_swc_refines",
    "RefineWriter.to_swc_eq_writeLines", "RefineWriter.swclike_to_swc_eq_writeSwc",
    "C01.generated_to_swc_spec", "C01.generated_swclike_spec", "C01.generated_lines_eq_model", "C01.generated_writer_eq_model",
    "C01.generated_row_roundtrip", "C01.generated_table_roundtrip", "C01.generated_comments_roundtrip", "C01.generated_roundtrip_reset",
    "C01.generated_write_generated_read",
    # … and read through the whole translated front end of the reader (Gen/AlgoReadFront.lean + the read loop)
    "C01.generated_write_generated_read_front",
]
TRUSTED = ["hand-written writer/reader text models (Model/SwcText.lean) tied by the c01.roundtrip correspondence; constants pinned via Gen/Consts.lean"]
ASSUMPTIONS = ["CPython float formatting f'{v:.4f}' (correct rounding of the binary value) and float() parsing; float32 storage after reading",
               "comments that themselves start with the column-header text `id type x y z r pid` are outside the quantifier (the format cannot tell them from the writer's header)"]


def q4(v32):
    """what '.4f' prints for a float32 value, as an integer in units of 1e-4"""
    d = Decimal(float(v32)).quantize(Decimal("0.0001"), rounding=ROUND_HALF_EVEN)
    return int(d.scaleb(4))


def q4_both(v32):
    """the 4-decimal roundings the property admits for a float32 value: one value, or the two neighbours when the binary value
    lies EXACTLY half-way between two 4-decimal numbers (the property says "rounded", not which way a tie goes)"""
    d = Decimal(float(v32)).scaleb(4)
    lo = d.to_integral_value(rounding=ROUND_FLOOR)
    if d - lo == Decimal("0.5"):
        return {int(lo), int(lo) + 1}
    return {q4(v32)}


def q4_column(col32):
    """q4 of every value of a float32 column.  Values whose double product with 10^4 is clearly off a half-way point (further than 1e-3 while
    the product's rounding error is below 1.2e-4 for |v·10^4| <= 1e12) are rounded in double arithmetic; all others go through `decimal`."""
    v = np.asarray(col32, dtype=np.float32).astype(np.float64) * 1e4
    with np.errstate(invalid="ignore"):
        lo = np.floor(v)
        frac = v - lo
        sure = np.isfinite(v) & (np.abs(v) <= 1e12) & (np.abs(frac - 0.5) >= 1e-3)
    out = [int(a) + (1 if f > 0.5 else 0) if ok else q4(x) for a, f, ok, x in zip(np.where(sure, lo, 0).tolist(), frac.tolist(), sure.tolist(), col32)]
    return out


# Values next to a rounding threshold of the last decimal the format carries, at every magnitude INCLUDING below one unit of that
# decimal: (k + f) * 1e-4 for k units of the last decimal and a fractional part f around the half-way point.  Uniform coordinates
# practically never fall there (k = 0 is a window of width 1e-4 next to zero), and that is where "too small to matter" shortcuts, truncation
# instead of rounding, and sign handling of values that print as zero show.  `None` = drawn from the rng inside the stratum.
EDGE_UNITS = [0, 1, 2, 9, 10, 99, 9999, 10000, None]
EDGE_FRACS = [0.0, 0.1, 0.3, 0.49, 0.499, 0.4999, 0.5, 0.5001, 0.501, 0.51, 0.7, 0.9, 0.999, None]


def edge_pool(rng):
    """every stratum (units, fraction, sign) once, plus exact binary ties ((2j+1)/32 is a float32 AND half-way at the 4th decimal), shuffled"""
    pool = [(k, f, s) for k in EDGE_UNITS for f in EDGE_FRACS for s in (1, -1)]
    pool += [("tie", None, s) for s in (1, -1) for _ in range(4)]
    rng.shuffle(pool)
    return pool


def edge_value(rng, stratum):
    k, f, s = stratum
    if k == "tie":
        return s * (2 * rng.randint(0, 500) + 1) / 32.0
    if k is None:
        k = rng.randint(3, 10 ** rng.randint(1, 7))
    if f is None:
        f = rng.random()
    return s * (k + f) * 1e-4


# how a file is named when it is a path source: everything open() takes as a path
PATH_FORMS = {"str": lambda p: p, "pathlike": pathlib.Path, "bytes": os.fsencode}


# family "spell": how a path source is SPELLED relative to the process - the same file named absolutely, by its bare name in the current
# directory, with a leading "./", inside / through an existing sub-directory, and from a sub-directory through "..".  Temporary ABSOLUTE paths
# are one spelling only; os.path.dirname / abspath / split treat the others differently ("" for a bare name).
SPELLINGS = ["abs", "bare", "dot", "sub", "dotdot", "parent"]
# ... and what the file is called: with blanks, without / with several extensions, hidden, non-ASCII, characters the SWC syntax itself uses
FILE_NAMES = ["w.swc", "neuron 1.swc", "n", ".hidden.swc", "a.b.c.SWC", "çell-β.swc", "#1.swc", "x.swc.bak", "7"]


# family "ext": what the file name ENDS in.  The format is given by the entry point (to_swc / from_swc), never by the name: the same text goes
# into / comes out of a file whose extension is the usual one, none, a version / backup suffix, or the customary extension of ANOTHER format -
# text tables, data dumps, archives and compressed files (names kept from a download, or chosen by a caller who compresses later).  The stem and
# the letter case of the extension are drawn from the rng.
EXTENSIONS = ["", ".swc", ".eswc", ".txt", ".csv", ".dat", ".json", ".xml", ".npy", ".h5", ".gz", ".swc.gz", ".bz2", ".xz", ".zip", ".zst", ".tar", ".7z",
              ".lz4", ".Z", ".tmp", ".bak", ".orig", ".1", ".swc~", ".part"]
STEMS = ["cell", "n", "neuron 1", "AA0001", "x.y", "çell", "7", "out"]


def ext_name(rng, ext):
    e = rng.choice([ext, ext, ext.upper(), ext.lower(), ext.title()])
    return rng.choice(STEMS) + e


# family "pos": a stream source is read FROM WHERE IT STANDS.  The written text is what the stream delivers from its current position on; in
# front of it the same buffer / file holds something the caller has already consumed - a line of its own (a manifest, a '#' remark, a blank
# line), the text of another tree (several trees kept in one container), or a few characters without a line end (a magic word) - consumed with
# readline(), read(k) or skipped with seek(k).  Non-ASCII preambles make the character and the byte offset differ.
PRE_KINDS = ["hash-line", "manifest", "blank", "row", "other-tree", "magic", "non-ascii", "none"]
CONSUME = ["readline", "read", "seek"]


def preamble(rng, what):
    """the text in front of the SWC text; ends a line unless `what` is "magic" (then it is consumed by count)"""
    w = lambda: rng.choice(WORDS)   # noqa: E731
    if what == "hash-line":
        return "".join(f"#{rng.choice(['', ' '])}{w()} {rng.randint(0, 999)}\n" for _ in range(rng.randint(1, 3)))
    if what == "manifest":
        return f"{w()}: {rng.randint(1, 99)} entries; {w()}\n"
    if what == "blank":
        return "\n" * rng.randint(1, 3)
    if what == "row":
        return small_rows(1, off=rng.randint(1, 50))
    if what == "other-tree":
        return f"# {w()}\n" + small_rows(rng.randint(2, 6))
    if what == "magic":
        return "".join(rng.choice("SWCTREE01%!") for _ in range(rng.randint(1, 8)))
    if what == "non-ascii":
        return f"# {draw_char(rng, 'latin1')}{w()}{draw_char(rng, 'bmp')} {draw_char(rng, 'astral')}\n"
    return ""


def positioned(kind, pre, how, text, fn=None):
    """a stream of `kind` holding pre + text, standing at the first character of text after the caller consumed `pre` in the way `how`"""
    if kind == "bytes":
        src, unit = io.BytesIO((pre + text).encode("utf-8")), len(pre.encode("utf-8"))
    elif kind == "text":
        src, unit = io.StringIO(pre + text), len(pre)
    else:
        with open(fn, "w", encoding="utf-8") as f:
            f.write(pre + text)
        src, unit = open(fn, encoding="utf-8"), len(pre)
    if how == "readline" and pre.endswith("\n"):
        for _ in range(pre.count("\n")):
            src.readline()
    elif how == "seek" and kind != "textfile":
        src.seek(unit)
    else:   # read(k); also a text FILE's position is not a number to compute with, and a preamble without line end cannot be readline()d
        src.read(unit)
    return src


def spelled(how, name, base):
    """(directory to run in, path as the caller spells it, the file's absolute location) for a file `name` under the fresh directory `base`"""
    sub = os.path.join(base, "sub")
    if how in ("sub", "dotdot", "parent"):
        os.makedirs(sub, exist_ok=True)   # the directories named in a path exist: the property is about writing a file, not about making folders
    cwd = sub if how == "parent" else base
    path = {"abs": os.path.join(base, name), "bare": name, "dot": os.path.join(os.curdir, name), "sub": os.path.join("sub", name),
            "dotdot": os.path.join("sub", os.pardir, name), "parent": os.path.join(os.pardir, name)}[how]
    return cwd, path, os.path.normpath(os.path.join(cwd, path))


# family "after": what the PROCESS did with the same entry points before the round trip - an earlier read / write that used one of their
# optional parameters with a non-default value (extra columns, eswc, root fixing / sorting flags, other column names, another encoding), or an
# earlier read that failed.  A round trip is a function of the tree and the options it is given, not of earlier calls.
BEFORE_OPS = ["read-extra", "write-extra", "read-flags", "read-names", "read-bad", "read-encoding", "write-plain"]


def before_op(rng, op):
    d = {"op": op, "m": rng.choice([1, 2, 3, 5, 9])}
    if op == "read-extra":
        d.update(via=rng.choice(["read_swc", "Tree.from_swc", "Tree.from_eswc"]), k=rng.randint(1, 3), src=rng.choice(["text", "bytes", "path"]))
    elif op == "write-extra":
        d.update(via=rng.choice(["to_swc", "to_eswc"]), k=rng.randint(1, 3), offset=rng.choice([0, 1, 7]))
    elif op == "read-flags":
        d.update(fix_roots=rng.choice(["somas", "nearest", False]), sort_nodes=rng.random() < 0.5, reset_index=rng.random() < 0.5, roots=rng.choice([1, 2]))
    elif op == "read-names":
        d.update(reset_index=rng.random() < 0.3)
    elif op == "read-bad":
        d.update(what=rng.choice(["short-row", "word-row", "missing-file", "extra-missing"]))
    elif op == "read-encoding":
        d.update(encoding=rng.choice(["detect", "utf-16", "latin-1", "utf-8-sig"]))
    elif op == "write-plain":
        d.update(offset=rng.choice([0, 1, 1000]), source=rng.choice([True, False, "other"]), comments=rng.random() < 0.5)
    return d


def small_rows(m, k=0, roots=1, off=1):
    """rows of an m-node chain (the first `roots` nodes are roots) with k additional numeric columns"""
    return "".join(f"{i + off} {1 if i < roots else 3} {i}.5 {-i} 0.25 {1 + i / 4} {-1 if i < roots else i - 1 + off}" + "".join(f" {i + j}" for j in range(k)) + "\n"
                   for i in range(m))


def do_before(d, tmpdir):
    """one earlier use of the entry points; what it returns is not judged here (other properties), only that it happened"""
    from swcgeom.core import Tree
    from swcgeom.core.swc import eswc_cols
    from swcgeom.core.swc_utils import SWCNames, read_swc

    op, m = d["op"], d["m"]
    extras = [f"col{j}" for j in range(d.get("k", 0))]
    if op == "read-extra":
        k = len(extras) + (len(eswc_cols) if d["via"] == "Tree.from_eswc" else 0)
        text = "# a file with more columns\n" + small_rows(m, k)
        if d["src"] == "path":
            src = os.path.join(tmpdir, "before.eswc")
            with open(src, "w", encoding="utf-8") as f:
                f.write(text)
        else:
            src = io.StringIO(text) if d["src"] == "text" else io.BytesIO(text.encode())
        if d["via"] == "read_swc":
            read_swc(src, extra_cols=extras)
        elif d["via"] == "Tree.from_swc":
            Tree.from_swc(src, extra_cols=extras)
        else:
            Tree.from_eswc(src, extra_cols=extras)
    elif op == "write-extra":
        cols = extras + ([c for c, _ in eswc_cols] if d["via"] == "to_eswc" else [])
        t = Tree(m, id=np.arange(m), pid=np.arange(m) - 1, type=np.full(m, 3), x=np.arange(m) * 1.5, y=np.zeros(m), z=np.ones(m), r=np.ones(m),
                 **{c: np.arange(m, dtype=np.int32) + j for j, c in enumerate(cols)})
        if d["via"] == "to_swc":
            t.to_swc(extra_cols=extras, id_offset=d["offset"])
        else:
            t.to_eswc(os.path.join(tmpdir, "before_w.eswc"), extra_cols=extras, id_offset=d["offset"])
    elif op == "read-flags":
        read_swc(io.StringIO(small_rows(m + d["roots"] - 1, roots=d["roots"])), fix_roots=d["fix_roots"], sort_nodes=d["sort_nodes"], reset_index=d["reset_index"])
    elif op == "read-names":
        read_swc(io.StringIO(small_rows(m)), names=SWCNames(id="n", type="T", x="X", y="Y", z="Z", r="R", pid="parent"), reset_index=d["reset_index"])
    elif op == "read-bad":
        if d["what"] == "missing-file":
            Tree.from_swc(os.path.join(tmpdir, "no such file.swc"))
        elif d["what"] == "extra-missing":   # asks for more columns than the file has
            Tree.from_swc(io.StringIO(small_rows(m)), extra_cols=["col0", "col1"])
        else:
            Tree.from_swc(io.StringIO(small_rows(m) + ("1 2 3\n" if d["what"] == "short-row" else "this is not a row\n")))
    elif op == "read-encoding":
        enc = d["encoding"]
        read_swc(io.BytesIO(("# comment é\n" + small_rows(m)).encode("utf-8" if enc == "detect" else enc)), encoding=enc)
    elif op == "write-plain":
        t = Tree(m, id=np.arange(m), pid=np.arange(m) - 1, type=np.full(m, 2), x=np.arange(m) * 2.5, y=np.zeros(m), z=np.ones(m), r=np.ones(m), comments=["earlier tree"])
        Tree.from_swc(io.StringIO(t.to_swc(id_offset=d["offset"], source=d["source"], comments=d["comments"])))


COMMENTS = ["plain comment", "  leading blanks", "", "   ", "\t", "x: 1, y: 2", "# nested hash", "ends with blanks   ", "CREATED BY tool", "id of the cell: 7"]


# family "chars": the TEXT of a comment over the whole character repertoire, not only printable ASCII.  A comment is one line of text: anything
# but the line terminators LF / CR may occur in it - control characters (tab, form feed as a page break, the FS/GS/RS/US separators of old
# exports, NUL, DEL), C1 controls (NEL), Latin-1, the Unicode blanks, LINE / PARAGRAPH SEPARATOR (pasted from rich-text tools), invisible format
# characters (zero-width, bidi marks, BOM, soft hyphen), letters of other scripts, combining marks, private use, non-characters, and code points
# beyond the BMP.  The strata are ranges of code points; a member is drawn from the rng (a range, then a code point of it).
CHAR_STRATA = {
    "c0": [(0x00, 0x09), (0x0B, 0x0C), (0x0E, 0x1F), (0x7F, 0x7F)],
    "c1": [(0x80, 0x9F)],
    "latin1": [(0xA0, 0xFF)],
    "space": [(0x1680, 0x1680), (0x2000, 0x200A), (0x202F, 0x202F), (0x205F, 0x205F), (0x3000, 0x3000)],
    "linesep": [(0x2028, 0x2029)],
    "format": [(0xAD, 0xAD), (0x200B, 0x200F), (0x202A, 0x202E), (0x2060, 0x2064), (0xFEFF, 0xFEFF)],
    "bmp": [(0x300, 0x36F), (0x370, 0x3FF), (0x400, 0x4FF), (0x5D0, 0x5EA), (0x600, 0x6FF), (0x3040, 0x30FF), (0x4E00, 0x9FFF), (0xE000, 0xF8FF),
            (0xFFF0, 0xFFFF)],
    "astral": [(0x10000, 0x1007F), (0x1D400, 0x1D7FF), (0x1F300, 0x1F6FF), (0x20000, 0x2A6DF), (0xE0000, 0xE007F), (0x10FFF0, 0x10FFFF)],
}
# ... and where in the comment the character stands
CHAR_POSITIONS = ["mid", "end", "start", "alone", "run", "before-hash", "before-blanks"]
WORDS = ["section", "A", "scale 1.0 1.0 1.0", "k", "v", "note", "x=1", "7 3 0.5 0.5 0.5 1 6", "soma"]


def draw_char(rng, stratum):
    lo, hi = rng.choice(CHAR_STRATA[stratum])
    return chr(rng.randint(lo, hi))


def comment_with(rng, stratum, pos):
    w, ch = (lambda: rng.choice(WORDS)), (lambda: draw_char(rng, stratum))
    return {"mid": lambda: f"{w()} {w()}{ch()}{w()}", "end": lambda: f"{w()}{ch()}", "start": lambda: f"{ch()}{w()}", "alone": ch,
            "run": lambda: f"{w()}{ch()}{ch()}{w()}{ch()}", "before-hash": lambda: f"{w()}{ch()}# {w()}",
            "before-blanks": lambda: f"{w()}{ch()}" + " " * rng.randint(1, 3)}[pos]()


# the blanks the Lean text model knows (`isWs`, "on ASCII"); the correspondence is compared where Python's notion of a blank comment /
# leading blanks (str.isspace, str.lstrip: every Unicode blank) coincides with it.  The oracle judges every case of the family.
MODEL_WS = " \t\n\r\x0b\x0c\x1c\x1d\x1e\x1f"


def in_model_domain(c):
    return c.lstrip() == c.lstrip(MODEL_WS) and c.isspace() == (c != "" and not c.strip(MODEL_WS))


# family "size": the number of nodes by ORDER OF MAGNITUDE, up to whole-neuron / whole-brain reconstructions (some 10^5 nodes).  Everything a
# reader or writer does in blocks, buffers, chunks or with a recursion shows only beyond some size; the shapes and values are the usual ones.
# Such a tree is described by its generator arguments (the case stays small and replayable) and built where it is needed.
BIG_SHAPES = ["chain", "stem", "star", "caterpillar", "binary", "random", "highdeg"]
_EXPANDED = {}


def tree_of(case):
    """the tree description (n, pids, types, xyz, r) of a case: stored in full, or - family "size" - regenerated from its generator arguments"""
    t = case["tree"]
    if "gen" not in t:
        return t
    g = t["gen"]
    key = repr(sorted(g.items()))
    if key not in _EXPANDED:
        import random

        _EXPANDED.clear()   # one at a time: these are large
        _EXPANDED[key] = gen.tree_case(random.Random(f"c01/size/{g['seed']}"), g["n"], g["shape"], numbering=g["numbering"], coords=g["coords"], types="any")
    return _EXPANDED[key]


def size_in_decade(rng, k, top=None):
    """a size with k+1 digits: log-uniform in [10^k, 10^(k+1)) (or up to `top`), or the neighbour of a power of two in that range"""
    lo, hi = 10 ** k, min(10 ** (k + 1) - 1, top or 10 ** (k + 1))
    if rng.random() < 0.5:
        return min(hi, int(lo * (hi / lo) ** rng.random()))
    pows = [2 ** e + d for e in range(6, 20) for d in (-1, 0, 1, 2) if lo <= 2 ** e + d <= hi]
    return rng.choice(pows) if pows else rng.randint(lo, hi)


class RoundTrip(Suite):
    name = "c01.roundtrip"

    def cases(self, rng, tier, widen):
        out = []
        reps = 3 if tier == "quick" and not widen else 10
        k = 0
        pool, used = edge_pool(rng), [0]

        def strata(m):
            got = [pool[(used[0] + i) % len(pool)] for i in range(m)]
            used[0] += m
            return got

        def mk(n, shape, coords=None, kind=None, forms=None, spell=None, before=None, chars=None, ext=None, pos=None):
            coords = coords or rng.choice(["dyadic", "grid4", "wild", "float"])
            t = gen.tree_case(rng, n, shape, numbering=rng.choice(["sorted", "root0"]), coords=coords if coords in ("dyadic", "grid4") else "float", types="any")
            if coords == "wild":
                for p in t["xyz"]:
                    for i in range(3):
                        p[i] = rng.choice([0.0, -0.0, 1e-30, -1e-7, 5e-5, 0.00005, 0.99995, 123456.789, -1e6, 3.4e9, 1e-4, 0.12345, 2.5e-5])
                t["r"] = [rng.choice([0.00004, 0.00005, 1.0, 1e-9, 12.34565]) for _ in t["r"]]
                t["types"] = [rng.choice([0, 1, 7, 12, 255, 100000]) for _ in t["types"]]
            if coords == "edge4":
                # every coordinate and radius next to a rounding threshold; the strata are dealt round-robin over ALL edge cases of the run, so
                # the quick tier (4 * 96 values) sees each (units, fraction, sign) stratum at least once whatever the seed
                vals = [edge_value(rng, st_) for st_ in strata(4 * t["n"])]
                t["xyz"] = [vals[4 * i:4 * i + 3] for i in range(t["n"])]
                t["r"] = [abs(vals[4 * i + 3]) for i in range(t["n"])]
            cm = [rng.choice(COMMENTS) for _ in range(rng.choice([0, 0, 1, 2, 4]))]
            case = {"class": f"{coords}/{t['class']}", "tree": t, "comments": cm,
                    # the tree's own `source` attribute (what `source=True` writes; "" -> "Unknown"); derived from the case, not drawn
                    "tree_source": ["", "cell 7.swc", "", "x"][(t["n"] + len(cm)) % 4],
                    "source": rng.choice([True, False, "my source"]), "with_comments": rng.random() < 0.85,
                    "offset": rng.choice([0, 1, 1, 7, 10**6, 2**24 - 2, 20000001, 123456789]),
                    "kind": kind or rng.choice(["text", "bytes", "path", "path-write"]),
                    "passes": rng.choice([1, 1, 2, 3])}
            if forms:
                case["read_form"], case["write_form"] = forms
                case["class"] = f"{case['kind']}:{forms[0]}/" + case["class"]
            if spell:
                case["spell"] = {"how": spell, "name": rng.choice(FILE_NAMES)}
                case["class"] = f"spell:{spell}/" + case["class"]
            if ext is not None:
                case["spell"] = {"how": rng.choice(SPELLINGS), "name": ext_name(rng, ext)}
                case["class"] = f"ext:{ext or 'none'}/" + case["class"]
            if pos:
                pre = preamble(rng, pos[0])
                # what cannot be done is done by count: readline() needs a line end, a text FILE's position is not a number to compute with
                how = "read" if (pos[1] == "readline" and not pre.endswith("\n")) or (pos[1] == "seek" and case["kind"] == "textfile") else pos[1]
                case["pos"] = {"pre": pre, "how": how}
                case["class"] = f"pos:{pos[0]}:{how}/{case['kind']}/" + case["class"]
            if before:
                case["before"] = before
                case["class"] = "after:" + "+".join(b["op"] for b in before) + "/" + case["class"]
            if chars:
                # three comments with characters of the stratum at three different positions, between ordinary ones (order is judged too)
                pos = rng.sample(CHAR_POSITIONS, 3)
                cm = [comment_with(rng, chars, p) for p in pos]
                for _ in range(rng.randint(0, 2)):
                    cm.insert(rng.randint(0, len(cm)), rng.choice(COMMENTS))
                case["comments"], case["with_comments"] = cm, True
                case["class"] = f"chars:{chars}@{'+'.join(pos)}/" + ("" if forms else case["kind"] + "/") + case["class"]
            return case

        def mk_big(n, shape, kind):
            g = {"seed": rng.getrandbits(32), "n": n, "shape": shape, "numbering": rng.choice(["sorted", "root0"]), "coords": rng.choice(["dyadic", "grid4", "float"])}
            return {"class": f"size:1e{len(str(n)) - 1}/{kind}/{g['coords']}/{shape}/{g['numbering']}", "tree": {"gen": g, "n": n},
                    "comments": [rng.choice(COMMENTS) for _ in range(rng.choice([0, 1, 2]))], "source": rng.choice([True, False, "my source"]),
                    "with_comments": rng.random() < 0.85, "offset": rng.choice([0, 1, 1, 7, 10**6, 20000001]), "kind": kind, "passes": 1,
                    "written_before": False, "big": n >= 5000}

        sizes = gen.sizes(tier, widen) + ([3000] if tier == "thorough" and not widen else [])
        for n in sizes:
            for _ in range(reps if n < 1000 else 1):
                shape = gen.pick_shape(rng, k); k += 1
                out.append(mk(n, shape))
        # family: values next to a rounding threshold of the last decimal (guaranteed share: one tree per size, all of whose values are such)
        for n in sizes:
            for _ in range(1 if tier == "quick" and not widen else 3):
                shape = gen.pick_shape(rng, k); k += 1
                if n < 1000:
                    out.append(mk(n, shape, coords="edge4"))
        # family: every way to hand the written file to the reader as a "path" or "text stream" source - the path as str, os.PathLike or
        # bytes (os.fsencode / os.listdir(b"...") give such paths), for files written by the caller and files written by to_swc(fname)
        # itself (then named in the same form), and an open text file.  Guaranteed share: each form with two tree sizes.
        flavours = [("path", ("pathlike", "str")), ("path", ("bytes", "str")), ("path-write", ("pathlike", "pathlike")),
                    ("path-write", ("bytes", "bytes")), ("path-write", ("bytes", "str")), ("textfile", ("str", "str"))]
        small = [n for n in sizes if n <= 40]
        for kind, forms in flavours:
            for n in (rng.choice(small[:4]), rng.choice(small[4:])) + ((rng.choice(sizes),) if tier == "thorough" or widen else ()):
                shape = gen.pick_shape(rng, k); k += 1
                out.append(mk(n, shape, kind=kind, forms=forms))
        more = tier == "thorough" or widen
        # family "spell" (see SPELLINGS).  Guaranteed share: every spelling as the name the writer is given (to_swc(fname)) and as the name the
        # reader is given, the path in one of the forms open() takes
        for how in SPELLINGS:
            for kind in ("path-write", "path"):
                for _ in range(4 if more else 2):
                    shape = gen.pick_shape(rng, k); k += 1
                    f = rng.choice(["str", "str", "pathlike", "bytes"])
                    out.append(mk(rng.choice(small), shape, kind=kind, forms=(f, f), spell=how))
        # family "after" (see BEFORE_OPS).  Guaranteed share: every kind of earlier call once on its own, plus mixed sequences; all source kinds
        seqs = [[before_op(rng, op)] for op in BEFORE_OPS for _ in range(3 if more else 1)]
        seqs += [[before_op(rng, rng.choice(BEFORE_OPS)) for _ in range(rng.randint(2, 4))] for _ in range(8 if more else 3)]
        for j, seq in enumerate(seqs):
            shape = gen.pick_shape(rng, k); k += 1
            out.append(mk(rng.choice(small), shape, kind=["text", "bytes", "path", "path-write"][j % 4], before=seq))
        # family "chars" (see CHAR_STRATA).  Guaranteed share: every stratum of the repertoire, through every source kind over the run
        kinds = ["text", "bytes", "path", "path-write", "textfile"]
        j = rng.randrange(len(kinds))
        for stratum in CHAR_STRATA:
            for _ in range(5 if more else 2):
                shape = gen.pick_shape(rng, k); k += 1
                kind = kinds[j % len(kinds)]; j += 1
                forms = (rng.choice(["str", "pathlike", "bytes"]),) * 2 if kind in ("path", "path-write") else None
                out.append(mk(rng.choice(small), shape, kind=kind, forms=forms, chars=stratum))
        # family "ext" (see EXTENSIONS).  Guaranteed share: every extension once as the name the writer or the reader is given (both when widened)
        j = rng.randrange(2)
        for e in EXTENSIONS:
            for _ in range(2 if more else 1):
                shape = gen.pick_shape(rng, k); k += 1
                f = rng.choice(["str", "str", "pathlike", "bytes"])
                out.append(mk(rng.choice(small), shape, kind=["path-write", "path"][j % 2], forms=(f, f), ext=e)); j += 1
        # family "pos" (see PRE_KINDS).  Guaranteed share: every kind of preamble through a text and a byte stream (and an open file over the
        # run), every way of consuming it
        j = rng.randrange(6)
        for i, what in enumerate(PRE_KINDS):
            for kind in ("text", "bytes") + (("textfile",) if more or (i + j) % 2 == 0 else ()):
                for _ in range(2 if more else 1):
                    shape = gen.pick_shape(rng, k); k += 1
                    out.append(mk(rng.choice(small), shape, kind=kind, pos=(what, CONSUME[j % 3]))); j += 1
        # family "size" (see BIG_SHAPES).  Guaranteed share: one tree in each decade from 10^3 up to the 10^5 nodes of a whole-neuron
        # reconstruction (10^2 is covered by the ordinary sizes), through a different source kind each
        tops = {5: 140000 if not more else 200000}
        j = rng.randrange(4)
        for dec in (3, 4, 5):
            for _ in range(2 if more and dec < 5 else 1):
                n = size_in_decade(rng, dec, tops.get(dec))
                out.append(mk_big(n, rng.choice(BIG_SHAPES), ["text", "bytes", "path", "path-write"][j % 4])); j += 1
        return out

    def run(self, case):
        if not case.get("before"):
            return self._run(case)
        # cases of the "after" family carry their whole history and run in a forked child: what they leave behind in the library (module-level
        # state) stays out of the other cases, a finding belongs to the case that CONTAINS the history, and its replay in a fresh process sees
        # the same thing
        import json
        import signal
        import warnings

        rd, wr = os.pipe()
        with warnings.catch_warnings():
            warnings.simplefilter("ignore")
            pid = os.fork()
        if pid == 0:
            code = 1
            try:
                os.close(rd)
                res = self._run(case)
                with os.fdopen(wr, "w") as f:
                    json.dump(res, f)
                code = 0
            finally:
                os._exit(code)
        os.close(wr)
        try:
            with os.fdopen(rd) as f:
                data = f.read()
            try:
                return json.loads(data)
            except ValueError:
                return {"exc": "ChildDied", "msg": f"the process running the case ended without a result ({data[:100]!r})"}
        finally:
            try:
                os.kill(pid, signal.SIGKILL)
            except OSError:
                pass
            os.waitpid(pid, 0)

    def _run(self, case):
        from harness.framework import CaseTimeout

        stage = ["build"]
        try:
            return self._roundtrip(case, stage)
        except (CaseTimeout, RecursionError):
            if case.get("before"):   # in the child: report instead of unwinding
                return {"exc": "RecursionError/Timeout", "msg": f"during {stage[0]}", "stage": stage[0]}
            raise
        except Exception as e:  # noqa: BLE001 - the property says the round trip succeeds; the oracle reports it
            import traceback

            cause = f" <- {type(e.__cause__).__name__}: {e.__cause__}" if e.__cause__ is not None else ""
            return {"exc": type(e).__name__, "msg": (str(e) + cause)[:400], "stage": stage[0], "tb": traceback.format_exc()[-1200:]}

    def _roundtrip(self, case, stage):
        from swcgeom.core import Tree

        tc = tree_of(case)
        t = gen.make_tree(tc, comments=list(case["comments"]), source=case.get("tree_source", ""))
        if case.get("written_before", tc["n"] % 2 == 0):
            # the tree that is written is DERIVED from a tree that was written before (a copy whose columns are then replaced,
            # as every transform does): the text must be that of the tree being written
            n0 = tc["n"]
            t0 = gen.make_tree(dict(tc, xyz=[[c + 3.25 for c in q] for q in tc["xyz"]], r=[v + 0.5 for v in tc["r"]],
                                    types=[(v + 1) % 8 for v in tc["types"]]), comments=list(case["comments"]), source=case.get("tree_source", ""))
            for off in {case["offset"], 0, 1}:
                t0.to_swc(id_offset=off); t0.to_swc(source=case["source"], comments=case["with_comments"], id_offset=off)
            d = t0.copy()
            for k in ("x", "y", "z", "r", "type", "pid"):
                d.ndata[k] = t.ndata[k].copy()
            t = d
        tmp = None
        hist = []
        fh = None
        cwd0 = os.getcwd()
        rform, wform = PATH_FORMS[case.get("read_form", "str")], PATH_FORMS[case.get("write_form", "str")]
        try:
            before_log = []
            if case.get("before"):
                stage[0] = "earlier calls"
                tmp = tempfile.mkdtemp(prefix="c01_")
                for b in case["before"]:
                    try:
                        do_before(b, tmp)
                        before_log.append("ok")
                    except Exception as e:  # noqa: BLE001 - not judged by this property
                        before_log.append(type(e).__name__)
            if case.get("spell") and case["kind"] in ("path", "path-write"):
                tmp = tmp or tempfile.mkdtemp(prefix="c01_")
                cwd, spath, fn_abs = spelled(case["spell"]["how"], case["spell"]["name"], os.path.join(os.path.realpath(tmp), "here"))
                os.makedirs(cwd, exist_ok=True)
                os.chdir(cwd)
            else:
                spath = None
            cur = t
            for _ in range(case["passes"]):
                kw = dict(source=case["source"], comments=case["with_comments"], id_offset=case["offset"])
                if case["kind"] == "path-write":
                    tmp = tmp or tempfile.mkdtemp(prefix="c01_")
                    fn = spath or os.path.join(tmp, "w.swc")
                    stage[0] = f"to_swc({wform(fn)!r})"
                    cur.to_swc(wform(fn), **kw)
                    src = rform(fn)
                    stage[0] = "looking for the written file"
                    text = open(fn_abs if spath else fn, encoding="utf-8").read()
                else:
                    stage[0] = "to_swc()"
                    text = cur.to_swc(**kw)
                    if case.get("pos"):
                        if fh:
                            fh.close()
                        if case["kind"] == "textfile":
                            tmp = tmp or tempfile.mkdtemp(prefix="c01_")
                        src = positioned(case["kind"], case["pos"]["pre"], case["pos"]["how"], text, os.path.join(tmp, "r.swc") if tmp else None)
                        fh = src if case["kind"] == "textfile" else None
                    elif case["kind"] == "text":
                        src = io.StringIO(text)
                    elif case["kind"] == "bytes":
                        src = io.BytesIO(text.encode("utf-8"))
                    else:
                        tmp = tmp or tempfile.mkdtemp(prefix="c01_")
                        fn = spath or os.path.join(tmp, "r.swc")
                        with open(fn_abs if spath else fn, "w", encoding="utf-8") as f:
                            f.write(text)
                        if case["kind"] == "textfile":   # a text stream that is an open file rather than a StringIO
                            if fh:
                                fh.close()
                            src = fh = open(fn, encoding="utf-8")
                        else:
                            src = rform(fn)
                stage[0] = f"Tree.from_swc({src!r})"
                back = Tree.from_swc(src)
                stage[0] = "reading the result"
                # the columns of a large tree stay arrays (a stored finding then shows them abbreviated instead of 10^5 numbers per column)
                ls = (lambda a: np.array(a)) if case.get("big") else (lambda a: a.tolist())
                hist.append({"text_head": text[:300], "full_text": text if len(hist) == 0 and back.number_of_nodes() <= 80 else None, "n": back.number_of_nodes(), "pid": ls(back.pid()), "type": ls(back.type()),
                             "id": ls(back.id()),
                             "x": ls(back.x().astype(np.float64)), "y": ls(back.y().astype(np.float64)),
                             "z": ls(back.z().astype(np.float64)), "r": ls(back.r().astype(np.float64)),
                             "comments": list(back.comments), "source_attr": back.source})
                cur = back
            res = {"passes": hist, "text": text if len(text) < 4000 else text[:4000], "first_text": hist[0]["full_text"] if t.number_of_nodes() <= 80 else None,
                   "source_text": t.source}
            if before_log:
                res["before_log"] = before_log
            return res
        finally:
            if fh:
                fh.close()
            os.chdir(cwd0)
            if tmp:
                shutil.rmtree(tmp, ignore_errors=True)

    def lines(self, case, res):
        from harness import swctext as st

        if "exc" in res or not res.get("first_text") or not all(in_model_domain(c) for c in case["comments"]):
            return []
        t = tree_of(case)
        n = t["n"]
        xyz = np.array(t["xyz"], dtype=np.float32)
        r = np.array(t["r"], dtype=np.float32)
        cols = [xyz[:, 0], xyz[:, 1], xyz[:, 2], r]
        nz = [4 * k + c for k in range(n) for c in range(4) if st.neg_zero(cols[c][k])]
        src = case["source"]
        if src is False:
            srcarg = "none"
        else:
            srcarg = st.cps(src if isinstance(src, str) else (res["source_text"] or "Unknown"))
        cm = ";".join(st.cps(c) for c in case["comments"]) if case["comments"] else "none"
        w = (f"swcwrite off={case['offset']} src={srcarg} wc={int(case['with_comments'])} ids={gen.ints(range(n))} types={gen.ints(t['types'])} "
             f"pids={gen.ints(t['pids'])} " + " ".join(f"{nm}={gen.ints([st.q4(v) for v in col])}" for nm, col in zip("xyzr", cols))
             + f" nz={gen.ints(nz)} c={cm}")
        text = res["first_text"]
        h = res["passes"][0]

        def back(got):
            m = st.parse_model_read(got)
            if "error" in m or m["n"] != h["n"]:
                return False
            if [x["id"] for x in m["rows"]] != h["id"] or [x["pid"] for x in m["rows"]] != h["pid"] or [x["type"] for x in m["rows"]] != h["type"]:
                return False
            for c in "xyzr":
                if [float(np.float32(float(x[c]))) for x in m["rows"]] != h[c]:
                    return False
            return m["comments"] == h["comments"]

        # the GENERATED writer (Gen/AlgoWriter.lean: SWCLike.to_swc -> io.to_swc -> get_v) on the same table; it decides the source header itself
        srcg = "true" if src is True else "false" if src is False else st.cps(src)
        gw = (f"gswcwrite off={case['offset']} src={srcg} attr={st.cps(res['source_text'] or '')} wc={int(case['with_comments'])} " + w.split(" wc=", 1)[1].split(" ", 1)[1])
        return [(w, st.cps(text)), (gw, st.cps(text))] + self.io_lines(case, cols) + [
                (f"swcread nx=0 reset=1 cp={st.cps(text)}", st.Expect(back, "Tree.from_swc(text) = " + repr({k: h[k] for k in ('id', 'pid', 'type', 'x', 'comments')})[:1200]))]

    def io_lines(self, case, cols):
        """the generated `io.to_swc` against the real one on tables whose id column is NOT the row positions (the writer indexes every column
        with the VALUE of the id: a permutation reorders the rows, a negative id wraps, an id out of range is an IndexError), with negative
        offsets and with `comments` absent / given"""
        import random

        from harness import swctext as st
        from swcgeom.core.swc_utils import io as swcio

        t = case["tree"]
        n = t["n"]
        if n > 40:
            return []
        rng = random.Random(n * 7919 + case["offset"] % 1000 + len(case["comments"]))
        how = rng.choice(["reversed", "shuffled", "negative", "out-of-range", "repeated", "positions"])
        ids = list(range(n))
        if how == "reversed":
            ids.reverse()
        elif how == "shuffled":
            rng.shuffle(ids)
        elif how == "negative":
            ids = [i - n if rng.random() < 0.6 else i for i in ids]
        elif how == "out-of-range":
            ids[rng.randrange(n)] = rng.choice([n, n + 3, -n - 1])
        elif how == "repeated":
            ids = [rng.randrange(n) for _ in ids]
        off = rng.choice([0, 1, -1, -5, 12, 1000])
        cm = None if rng.random() < 0.3 else list(case["comments"])
        data = {"id": np.array(ids, dtype=np.int32), "type": np.array(t["types"], dtype=np.int32), "pid": np.array(t["pids"], dtype=np.int32),
                "x": cols[0], "y": cols[1], "z": cols[2], "r": cols[3]}
        try:
            want = st.cps("".join(swcio.to_swc(lambda k: data[k], comments=cm, id_offset=off)))
        except IndexError:
            want = "E"
        nz = [4 * k + c for k in range(n) for c in range(4) if st.neg_zero(cols[c][k])]
        cmarg = "absent" if cm is None else (";".join(st.cps(c) for c in cm) if cm else "none")
        line = (f"gioswc off={off} c={cmarg} ids={gen.ints(ids)} types={gen.ints(t['types'])} pids={gen.ints(t['pids'])} "
                + " ".join(f"{nm}={gen.ints([st.q4(v) for v in col])}" for nm, col in zip("xyzr", cols)) + f" nz={gen.ints(nz)}")
        return [(line, want)]

    def oracle(self, case, res):
        try:
            return self._oracle(case, res)
        except Exception as e:  # noqa: BLE001 - an output the clauses cannot even be evaluated on is not the tree that was written
            return [("malformed-output", f"the result of the round trip cannot be compared with the tree ({type(e).__name__}: {e}): {str(res)[:300]}")]

    def _oracle(self, case, res):
        if not isinstance(res, dict) or ("exc" not in res and not isinstance(res.get("passes"), list)):
            return [("malformed-output", f"no result of the round trip: {str(res)[:300]}")]
        if "exc" in res:
            hist = "after " + " + ".join(b["op"] for b in case["before"]) + " earlier in the process, " if case.get("before") else ""
            return [("roundtrip-raises", f"write→read raised {res['exc']}: {res.get('msg')} ({hist}during {res.get('stage', '?')}, kind {case['kind']}"
                                         + (f", path spelled {case['spell']['how']!r} named {case['spell']['name']!r}" if case.get("spell") else "")
                                         + (f", stream standing behind {case['pos']['pre']!r} consumed by {case['pos']['how']}" if case.get("pos") else "") + ")")]
        t = tree_of(case)
        n = t["n"]
        out = []
        xyz = np.array(t["xyz"], dtype=np.float32)
        r = np.array(t["r"], dtype=np.float32)
        cols = {"x": xyz[:, 0], "y": xyz[:, 1], "z": xyz[:, 2], "r": r}
        exp_comments = [c.lstrip() for c in case["comments"]] if case["with_comments"] else []
        cur_cols = cols
        for k, h in enumerate(res["passes"]):
            h = {key: v.tolist() if isinstance(v, np.ndarray) else v for key, v in h.items()}
            if h["n"] != n:
                return [("node-count", f"pass {k+1}: {h['n']} nodes read back, {n} written")]
            if h["pid"] != t["pids"]:
                out.append(("parents", f"pass {k+1}: parents {h['pid'][:8]}… differ from {t['pids'][:8]}… (offset {case['offset']})"))
            if h["type"] != t["types"]:
                out.append(("types", f"pass {k+1}: types differ"))
            if h["id"] != list(range(n)):
                out.append(("ids", f"pass {k+1}: ids are {h['id'][:6]}…"))
            nxt = {}
            for c in "xyzr":
                want = np.array([np.float32(q / 10000.0) for q in q4_column(cur_cols[c])], dtype=np.float32)
                got = np.array(h[c], dtype=np.float32)
                bad = [int(i) for i in np.nonzero(want != got)[0]
                       if not any(np.float32(q / 10000.0) == got[i] for q in q4_both(cur_cols[c][i]))]   # an exact tie may go either way
                if bad:
                    i = bad[0]
                    out.append(("coords", f"pass {k+1}: column {c} node {i}: original {float(cur_cols[c][i])!r} → read back {float(got[i])!r}, "
                                          f"4-decimal rounding gives {float(want[i])!r}"))
                nxt[c] = got
            cur_cols = nxt
            # comments: nothing added but the optional source header
            hdr = []
            if case["source"] is not False:
                hdr = [None, ""]  # "source: …" (text not fixed by the property) and the empty separator line
            exp_comments = hdr + exp_comments if case["with_comments"] else hdr
            got_c = [c.lstrip() for c in h["comments"]]
            ok = len(got_c) == len(exp_comments) and all(e is None and g.startswith("source:") or e == g for e, g in zip(exp_comments, got_c))
            if not ok:
                cls = "header-added" if any(g.startswith("id type x y z r pid") for g in got_c) else "comments"
                out.append((f"comments/{cls}", f"pass {k+1}: comments read back {h['comments']!r}; written {case['comments']!r} "
                                               f"(source={case['source']!r}, comments={case['with_comments']}"
                                               + (f"; stream standing behind {case['pos']['pre']!r} consumed by {case['pos']['how']}" if case.get("pos") else "") + ")"))
                break
            exp_comments = [g if e is None else e for e, g in zip(exp_comments, got_c)]
        return out[:3]

    def nontrivial(self, case, res):
        return case["tree"]["n"] >= 3


SUITES = [RoundTrip()]
TECHNIQUE = "Lean 4 theorems about the writer/reader text models (fmt4∘parse round trip on the 10⁻⁴ grid, row and table round trip for every offset, comments round trip) + differential correspondence against Tree.to_swc / Tree.from_swc + decimal-rounding oracle over path/text/byte sources and repeated passes"
LEVEL_TEXT = ("Kernel-checked for every table, every offset ≥ 0 and every comment list: the written text parses back to the same rows (ids shifted back, "
              "parents, types, coordinates on the 4-decimal grid) and the same comments with nothing added but the source header. Tied to the code by the "
              "extracted format constants and by comparing the models with the real writer/reader.")
LEVEL_NOTE = "Trusted: Lean kernel; CPython's float formatting/parsing (the float→4-decimal rounding is computed by the harness with `decimal`); float32 storage."

