"""C20 — image stacks survive save/load, and rasterised trees match their geometry."""
import math
import os
import shutil
import tempfile
import warnings
from fractions import Fraction

import numpy as np

from harness import gen
from harness.framework import Suite

PID = "C20"
TRANSLATE = True
LEAN_MODS = ["SwcVerif.Props.C20"]
THEOREMS = [
    "C20.consts_pinned", "C20.save_puts_z_first", "C20.axes_roundtrip", "C20.axes_roundtrip_3d", "C20.unknown_axis", "C20.rescale_table",
    "C20.uint_float_uint", "C20.float_uint_float", "C20.grid_covers", "C20.bbox_contains", "C20.swept_ends",
    "C20.contained_swept_in_ball", "C20.contained_swept_in_ball'", "C20.degenerate_edge_is_ball", "C20.coincident_is_ball",
]
TRUSTED = ["hand-written models Model/Images.lean of the axis bookkeeping (index tuples), the rescaling decisions and the voxel grid; AXES_ORDER, UINT_MAX and "
           "the 'ZXYC' axes string are regenerated from images/io.py on every run (Gen/Consts.lean)"]
ASSUMPTIONS = ["tifffile / pynrrd / np.save-load store and return the array they are given (exercised by real round trips, not modelled)",
               "sdflit: RangeSampler samples [min, max) with the given stride, RoundCone is the convex hull of the two end balls when neither ball contains the other (observed by the raster oracle "
               "away from the surface, not proved); edges whose one ball contains the other are added as a Sphere (decision modelled: Img.edgeIsBall, tied by recording "
               "the constructor calls in-process)", "float32 rounding of voxel coordinates"]


INT_TYPES = ["uint8", "uint16", "uint32", "int16", "int32"]
INT_MAX = {"uint8": 2**8 - 1, "uint16": 2**16 - 1, "uint32": 2**32 - 1, "int16": 2**15 - 1, "int32": 2**31 - 1}


class SaveLoad(Suite):
    name = "c20.saveload"
    case_timeout = 60

    def cases(self, rng, tier, widen):
        out = []
        big = tier == "thorough" or widen
        # every (source kind, stored dtype, read dtype) combination of the tiff path, plus nrrd / npy
        combos = [("tif", k, sd, rd) for k in ["uint8", "uint16", "float32"] for sd in [None, "uint8", "float32"] for rd in ["float32", "uint8", "uint16", "same"]]
        combos += [(f, k, None, rd) for f in ["nrrd", "npy"] for k in ["uint8", "float32"] for rd in ["float32", "same", "uint8"]]
        if not big:
            rng.shuffle(combos)
            combos = sorted(combos[:30], key=str) + [("tif", "float32", "uint8", "float32"), ("tif", "float32", "uint8", "same"), ("tif", "uint8", "float32", "uint8")]
        else:
            combos = combos * 2
        # integer -> another integer type (other unsigned width, signed <-> unsigned), requested at read time (every format) or at save time
        # (save_tiff(dtype=...)): no integer/float conversion occurs, so the documented rescaling does not apply and values that fit both
        # types come back unchanged.  "fit": the values are drawn from the range every type on the way can hold (both ends included).
        routes = ["tif-read", "tif-save", "nrrd", "npy"]
        pairs = [(a, b) for a in INT_TYPES for b in INT_TYPES if a != b]
        if big:
            int_combos = [(rt, a, b) for rt in routes for a, b in pairs]
        else:
            int_combos = [(rt,) + rng.choice(pairs) for rt in routes for _ in range(2)]
            # at least one widening and one narrowing unsigned pair, one unsigned <-> signed pair
            int_combos += [(rng.choice(routes),) + rng.choice([(a, b) for a, b in pairs if ok(a, b)])
                           for ok in (lambda a, b: a[0] == b[0] == "u" and INT_MAX[a] < INT_MAX[b], lambda a, b: a[0] == b[0] == "u" and INT_MAX[a] > INT_MAX[b],
                                      lambda a, b: a[0] != b[0])]
        for rt, a, b in int_combos:
            fmt = rt.split("-")[0]
            combos.append((fmt, a, b if rt == "tif-save" else None, rng.choice(["same", b]) if rt == "tif-save" else b, "fit"))
        for fmt, kind, save_dtype, read_dtype, *rest in combos:
            shape = [rng.choice([1, 2, 3, 4, 5, 7]) for _ in range(3)] + [rng.choice([1, 1, 3])]
            out.append({"class": f"{fmt}/{kind}->{save_dtype}->{read_dtype}", "shape": shape, "kind": kind, "fmt": fmt, "save_dtype": save_dtype,
                        "read_dtype": read_dtype, "seed": rng.randrange(10**6), "drop_c": shape[3] == 1 and rng.random() < 0.4,
                        # writer options the call forwards to tifffile: the caller's own metadata, no compression
                        "opts": rng.choice(["-", "-", "metadata", "nocompress", "metadata"]) if fmt == "tif" else "-"})
            if rest:
                out[-1]["vals"] = rest[0]
        return out

    def run(self, case):
        from swcgeom.images.io import read_imgs, save_tiff
        import nrrd

        r = np.random.RandomState(case["seed"])
        shape = case["shape"]
        if case["kind"] == "float32":
            a = (r.randint(0, 256, size=shape) / 255.0).astype(np.float32)
        elif case.get("vals") == "fit":
            # values every integer type on the way (source, stored, read) holds exactly, the common maximum and 0 among them
            on_the_way = [case["kind"], case["save_dtype"] or case["kind"]] + ([] if case["read_dtype"] == "same" else [case["read_dtype"]])
            hi = min(INT_MAX[k] for k in on_the_way)
            a = r.randint(0, hi + 1, size=shape, dtype=np.int64)
            a.flat[r.randint(a.size)] = 0; a.flat[r.randint(a.size)] = hi
            a = a.astype(case["kind"])
        else:
            hi = 256 if case["kind"] == "uint8" else 65536
            a = r.randint(0, hi, size=shape).astype(case["kind"])
        data = a[..., 0] if case["drop_c"] else a
        tmp = tempfile.mkdtemp(prefix="c20_")
        try:
            fn = os.path.join(tmp, "s." + case["fmt"])
            with warnings.catch_warnings():
                warnings.simplefilter("ignore")
                if case.get("rewrite", case["seed"] % 2 == 0):
                    # the file existed before with other content and was read then: what is read now is what was saved last
                    other = (r.randint(0, 200, size=[shape[1], shape[2], shape[0] + 1, 1]) % 251).astype(np.uint8)
                    if case["fmt"] == "tif":
                        save_tiff(other, fn)
                    elif case["fmt"] == "nrrd":
                        nrrd.write(fn, other)
                    else:
                        np.save(fn, other)
                    fn_eff = fn if case["fmt"] != "npy" or fn.endswith(".npy") else fn + ".npy"
                    np.asarray(read_imgs(fn_eff).get_full()); np.asarray(read_imgs(fn_eff, dtype=np.uint8).get_full())
                if case["fmt"] == "tif":
                    kw = {"metadata": {"unit": "um", "note": "c20"}} if case.get("opts") == "metadata" else ({"compression": False} if case.get("opts") == "nocompress" else {})
                    save_tiff(data.copy(), fn, dtype=None if case["save_dtype"] is None else np.dtype(case["save_dtype"]).type, **kw)
                elif case["fmt"] == "nrrd":
                    nrrd.write(fn, data.copy())
                else:
                    np.save(fn, data.copy())
                rd = case["read_dtype"]
                stored = case["save_dtype"] or case["kind"]
                dt = np.dtype(stored if rd == "same" else rd).type
                st = read_imgs(fn, dtype=dt)
                b = np.asarray(st.get_full())
            return {"shape": list(b.shape), "dtype": str(b.dtype), "vals": b.astype(np.float64).flatten().tolist(),
                    "orig": a.astype(np.float64).flatten().tolist(), "stored": stored, "read": np.dtype(dt).name}
        finally:
            shutil.rmtree(tmp, ignore_errors=True)

    def lines(self, case, res):
        # the axis bookkeeping of the model on a few index tuples of this shape (exact)
        if case["fmt"] != "tif":
            return []
        x, y, z, c = case["shape"]
        out = []
        for idx in {(0, 0, 0, 0), (x - 1, y - 1, z - 1, c - 1), (x - 1, 0, z // 2, 0), (0, y - 1, z - 1, c - 1)}:
            saved = [idx[2], idx[0], idx[1], idx[3]]
            out.append((f"imgaxes idx={gen.ints(idx)} axes=ZXYC", f"{gen.ints(saved)} / {gen.ints(idx)}"))
        return out

    def oracle(self, case, res):
        if "exc" in res:
            key = "imgs-raises/" + case["class"].split("/")[1]
            return [(key, f"save/load {case['class']} of shape {case['shape']} raised {res['exc']}: {res.get('msg')}")]
        out = []
        if res["shape"] != case["shape"]:
            return [("imgs-shape", f"{case['class']}: saved shape (X,Y,Z,C)={case['shape']}, read back {res['shape']}")]
        a = np.array(res["orig"]); b = np.array(res["vals"])
        MAX = {"uint8": 255.0, "uint16": 65535.0, "uint32": 4294967295.0}
        kind, stored, read = case["kind"], res["stored"], res["read"]
        # value the documented rescaling gives: source kind -> stored kind -> read kind
        def conv(v, src, dst):
            if src == dst:
                return v, 0.0
            if src.startswith("uint") and dst.startswith("float"):
                return v / MAX[src], 1e-6
            if src.startswith("float") and dst.startswith("uint"):
                return v * MAX[dst], 1.0 + 1e-6          # truncation: up to one unit
            return v, 0.0                                # integer -> integer (any width, signed or not): plain cast, nothing to rescale
        w, tol1 = conv(a, kind, stored)
        if stored.startswith("uint") and kind.startswith("float"):
            w = np.floor(w + 1e-4)
        if stored.startswith("uint") and kind.startswith("uint") and MAX[stored] < MAX[kind]:
            w = np.mod(w, MAX[stored] + 1)
        w2, tol2 = conv(w, stored, read)
        if read.startswith("uint") and stored.startswith("uint") and MAX[read] < MAX[stored]:
            w2 = np.mod(w2, MAX[read] + 1)
        tol = max(tol2, tol1 * (MAX.get(read, 1.0) / MAX.get(stored, 1.0) if read.startswith("uint") or stored.startswith("uint") else 1.0), 1e-6)
        if read.startswith("float") and stored.startswith("uint") and kind.startswith("float"):
            tol = 1.0 / MAX[stored] + 1e-6
        if not np.all(np.abs(b - w2) <= tol):
            i = int(np.argmax(np.abs(b - w2)))
            out.append(("imgs-values", f"{case['class']} shape {case['shape']}: voxel #{i} read back {b[i]}, expected {w2[i]} (orig {a[i]})"))
        return out

    def nontrivial(self, case, res):
        return len(set(case["shape"][:3])) >= 2


def in_hull(p, a, b, ra, rb, margin):
    """signed margin test for the round cone: -1 inside by margin, +1 outside by margin, 0 near the surface"""
    best = 1e18
    for t in np.linspace(0, 1, 41):
        c = a + t * (b - a); r = ra + t * (rb - ra)
        best = min(best, np.linalg.norm(p - c) - r)
    # the ball of the family nearest to p exactly (t ↦ |p − c(t)| − r(t) is convex: stationary point, clamped to the edge): between two samples
    # a thin part of the cone (radius below half the sample spacing, e.g. next to a tip of radius 0) is not covered by the sampled balls
    L = float(np.linalg.norm(b - a))
    if L > 0 and abs(rb - ra) < L:
        u = (b - a) / L; s = float(np.dot(p - a, u)); rho = float(np.linalg.norm(p - a - s * u)); k = (rb - ra) / L
        t = min(1.0, max(0.0, (s + k * rho / math.sqrt(1 - k * k)) / L))
        best = min(best, np.linalg.norm(p - (a + t * (b - a))) - (ra + t * (rb - ra)))
    return -1 if best < -margin else (1 if best > margin else 0)


class Raster(Suite):
    name = "c20.raster"
    case_timeout = 120

    def cases(self, rng, tier, widen):
        out = []
        big = tier == "thorough" or widen
        k = 0
        for n in [2, 3] + ([4, 6] if big else []):
            for _ in range(1 if not big else 4):
                t = gen.tree_case(rng, n, gen.pick_shape(rng, k), numbering="sorted", coords="lattice"); k += 1
                t["xyz"] = [[c / 6.0 for c in p] for p in t["xyz"]]
                t["r"] = [rng.choice([0.5, 1.0, 1.5]) for _ in t["r"]]
                out.append({"class": f"n{t['n']}", "tree": t, "res": rng.choice([1.0, 0.5, 2.0, 3.0, 0.75, [1.0, 0.5, 2.0], [1.0, 1.0, 3.0]])})
                if t["n"] > 1 and rng.random() < 0.5:
                    # an edge whose one end ball contains the other (child tucked inside the parent ball or the other way round)
                    t2 = {**t, "xyz": [list(p) for p in t["xyz"]], "r": list(t["r"])}
                    c = rng.randrange(1, t2["n"]); par = t2["pids"][c]
                    d = [rng.choice([-4, -3, -2, -1, 0, 1, 2, 3, 4]) / 6.0 for _ in range(3)]
                    t2["xyz"][c] = [t2["xyz"][par][i] + d[i] for i in range(3)]
                    big, small = rng.choice([(1.5, 0.5), (1.0, 0.5), (1.5, 1.0), (1.0, 1.0)])
                    t2["r"][par], t2["r"][c] = (big, small) if rng.random() < 0.6 else (small, big)
                    out.append({"class": f"n{t2['n']}/tucked", "tree": t2, "res": rng.choice([0.5, 1.0, 0.75])})
        # radii at zero: SWC trees taper to sharp tips (a leaf of radius 0), have necks pinched to 0 between thick nodes, start from a point, or
        # carry unmeasured (0) radii here and there.  An edge with ONE end of radius 0 is a proper cone (the hull of a ball and a point), an edge
        # with both ends 0 has no volume, a zero-radius node inside its neighbour's ball leaves that ball.
        for v in ["tip", "neck", "root", "zero-edge", "tucked", "scattered"] * (4 if tier == "thorough" or widen else 1):
            n = rng.choice([2, 3, 4] if v in ("tip", "root", "tucked") else [3, 4, 5])
            t = gen.tree_case(rng, n, rng.choice(["chain", "caterpillar", "stem", "random", "star"]), numbering="sorted", coords="lattice")
            if v in ("neck", "zero-edge") and all(t["pids"].count(c) == 0 for c in range(1, n)):
                t["pids"] = [-1] + list(range(n - 1))          # no inner node: make it a chain
            pids = t["pids"]
            t["xyz"] = [[c / 8.0 for c in p] for p in t["xyz"]]
            t["r"] = [rng.choice([0.5, 1.0, 1.5]) for _ in t["r"]]
            leaves = [c for c in range(1, n) if pids.count(c) == 0]; inner = [c for c in range(1, n) if pids.count(c) > 0]
            if v == "tip":
                for c in rng.sample(leaves, rng.randint(1, len(leaves))):
                    t["r"][c] = 0.0
            elif v == "neck":
                t["r"][rng.choice(inner)] = 0.0
            elif v == "root":
                t["r"][0] = 0.0
            elif v == "zero-edge":
                c = rng.choice(inner if rng.random() < 0.5 else list(range(1, n)))
                t["r"][c] = t["r"][pids[c]] = 0.0
                others = [i for i in range(n) if i not in (c, pids[c])]
                if all(t["r"][i] == 0.0 for i in others):
                    t["r"][others[0]] = 1.0
            elif v == "tucked":
                c = rng.choice(leaves); par = pids[c]
                t["r"][c] = 0.0
                t["xyz"][c] = [t["xyz"][par][i] + rng.choice([-2, -1, 0, 1, 2]) / 8.0 for i in range(3)]     # |offset| ≤ √12/8 < 0.5 ≤ r(parent)
            else:
                t["r"] = [0.0 if rng.random() < 0.4 else x for x in t["r"]]
                if not any((t["r"][c] == 0.0) != (t["r"][pids[c]] == 0.0) for c in range(1, n)):
                    c = rng.choice(leaves); t["r"][c] = 0.0; t["r"][pids[c]] = 1.0
            out.append({"class": f"n{n}/zero-radius/{v}", "tree": t, "res": rng.choice([0.5, 0.5, 0.75, 1.0, [1.0, 0.5, 2.0], [0.5, 0.5, 1.0]])})
        # fixed degenerate edges: child ball inside the parent ball, parent inside child, coincident nodes, internal tangency
        for xyz, r in (([[0.0, 0.0, 0.0], [0.0, 1 / 3, -1 / 3], [1.5, 0.5, 2.5]], [1.0, 0.5, 0.5]),
                       ([[0.0, 0.0, 0.0], [0.25, 0.0, 0.25], [2.0, 0.0, 0.0]], [0.5, 1.5, 0.5]),
                       ([[0.0, 0.0, 0.0], [0.0, 0.0, 0.0], [0.0, 2.0, 1.0]], [1.0, 1.0, 0.5]),
                       ([[0.0, 0.0, 0.0], [0.0, 0.0, 0.0], [0.0, 2.0, 1.0]], [1.5, 0.5, 0.5]),
                       ([[0.0, 0.0, 0.0], [0.0, 0.0, 0.5], [2.0, 0.0, 0.5]], [1.0, 0.5, 0.5])):
            t = {"class": "chain/sorted", "n": 3, "pids": [-1, 0, 1], "types": [1, 3, 3], "xyz": xyz, "r": r}
            out.append({"class": "n3/degenerate-edge", "tree": t, "res": 0.5})
        # short edges between balls of different size that are NOT contained in one another (|r1-r2| < d ≤ sqrt|r1²-r2²|): the thin ball and
        # the conical flank stick out of the thick ball
        for xyz, r in (([[0.0, 0.0, 0.0], [1.25, 0.0, 0.0]], [1.5, 0.5]), ([[0.0, 0.0, 0.0], [0.0, 0.75, 0.25]], [1.0, 0.5]),
                       ([[0.0, 0.0, 0.0], [0.0, 0.0, 1.25]], [0.5, 1.5]), ([[0.5, 0.5, 0.0], [1.25, 1.25, 0.5]], [1.5, 0.5])):
            t = {"class": "chain/sorted", "n": 2, "pids": [-1, 0], "types": [1, 3], "xyz": xyz, "r": r}
            out.append({"class": "n2/nearly-contained", "tree": t, "res": 0.25})
        # resolutions that do not divide the height of the bounding box: the last, partially filled slice must be there
        t = gen.tree_case(rng, 2, "chain", numbering="sorted", coords="lattice")
        t["xyz"] = [[0.0, 0.0, 0.0], [0.5, 0.0, 3.0]]; t["r"] = [1.0, 1.0]      # z-extent of the box: 5
        for res in ([1.0, 1.0, 3.0], 0.75):
            out.append({"class": "n2/indivisible", "tree": t, "res": res})
        return out

    def run(self, case):
        from swcgeom.transforms import ToImageStack

        import swcgeom.transforms.image_stack as mod

        t = gen.make_tree(case["tree"])
        # record which solid the scene builder creates for each edge (wrapping the constructors it looks up in its own module)
        solids = []
        saved = {k: getattr(mod, k) for k in ("Sphere", "RoundCone") if hasattr(mod, k)}

        def wrap(kind, ctor):
            def make(*a):
                solids.append([kind] + [[float(v) for v in x] if isinstance(x, (tuple, list)) else float(x) for x in a])
                return ctor(*a)
            return make

        try:
            for k, ctor in saved.items():
                setattr(mod, k, wrap(k, ctor))
            img = ToImageStack(case["res"])(t)
        finally:
            for k, ctor in saved.items():
                setattr(mod, k, ctor)
        res = {"shape": list(img.shape), "lit": np.argwhere(img > 0).tolist(), "values": sorted(set(int(v) for v in np.unique(img))), "solids": solids}
        if img.size and case["tree"]["n"] % 2 == 0:
            # the same raster written slice by slice to a TIFF and read back through the image-stack reader: (Z, X, Y) ↔ (X, Y, Z, C)
            # (a raster of ONE z plane is written as a single 2-D page which read_imgs refuses: known finding `raster-file-single-plane-raises`)
            import tempfile, shutil, os
            from swcgeom.images.io import read_imgs

            tmp = tempfile.mkdtemp(prefix="c20r_")
            try:
                fn = os.path.join(tmp, "r.tif")
                ToImageStack(case["res"]).transform_and_save(fn, t, verbose=False)
                try:
                    back = np.asarray(read_imgs(fn, dtype=np.uint8).get_full())
                    res["saved"] = {"shape": list(back.shape), "same": bool(back.shape == (img.shape[1], img.shape[2], img.shape[0], 1)
                                                                              and np.array_equal(back[..., 0], np.moveaxis(img, 0, 2)))}
                except Exception as e:  # noqa: BLE001 - the oracle decides
                    res["saved"] = {"exc": type(e).__name__, "msg": str(e)[:200]}
            finally:
                shutil.rmtree(tmp, ignore_errors=True)
        return res

    def lines(self, case, res):
        if "exc" in res:
            return []
        t = case["tree"]
        rs = case["res"] if isinstance(case["res"], list) else [case["res"]] * 3
        xyz = np.array(t["xyz"], dtype=np.float32); r = np.array(t["r"], dtype=np.float32).reshape(-1, 1)
        edge_lines = []
        # the solid chosen per edge: model decision on the float32 values the code sees vs the constructor calls recorded in-process
        F = lambda v: Fraction(float(v))
        made = set()
        for sld in res.get("solids", []):
            if sld[0] == "Sphere":
                made.add("ball " + ",".join(str(F(np.float32(v))) for v in sld[1] + [sld[2]]))
            else:
                made.add("cone " + ",".join(str(F(np.float32(v))) for v in sld[1] + sld[2] + [sld[3], sld[4]]))
        for c, par in enumerate(t["pids"]):
            if par < 0:
                continue
            a, b, ra, rb = xyz[par], xyz[c], r[par][0], r[c][0]
            d2 = sum((F(a[i]) - F(b[i])) ** 2 for i in range(3)); dr2 = (F(ra) - F(rb)) ** 2
            if 0 < abs(d2 - dr2) <= Fraction(1, 10**5):
                continue   # float32 norm may round either way at the boundary
            cone = "cone " + ",".join(str(F(v)) for v in list(a) + list(b) + [ra, rb])
            edge_lines.append((f"imgedge a={','.join(str(F(v)) for v in a)} b={','.join(str(F(v)) for v in b)} ra={F(ra)} rb={F(rb)}",
                               (lambda out, cone=cone, made=made: (cone if out == "cone" else out) in made)))
        lo = np.floor(np.min(xyz - r, axis=0)); hi = np.ceil(np.max(xyz + r, axis=0))
        out = []
        # shape is (Z, X, Y)
        for ax, dim in ((0, 1), (1, 2), (2, 0)):
            n_expected = res["shape"][dim]
            centres = [float(lo[ax]) + rs[ax] / 2 + i * rs[ax] for i in range(n_expected)]
            out.append((f"imggrid lo={Fraction(float(lo[ax]))} hi={Fraction(float(hi[ax]))} res={Fraction(rs[ax])}",
                        ",".join(str(Fraction(c)) for c in centres)))
        return out + edge_lines

    def oracle(self, case, res):
        t = case["tree"]
        rs = case["res"] if isinstance(case["res"], list) else [case["res"]] * 3
        xyz = np.array(t["xyz"], dtype=np.float64); r = np.array(t["r"], dtype=np.float64)
        lo = np.floor(np.min(xyz - r.reshape(-1, 1), axis=0)); hi = np.ceil(np.max(xyz + r.reshape(-1, 1), axis=0))
        want_shape = [max(0, int(math.ceil((hi[2] - lo[2] - rs[2] / 2) / rs[2]))), max(0, int(math.ceil((hi[0] - lo[0] - rs[0] / 2) / rs[0]))),
                      max(0, int(math.ceil((hi[1] - lo[1] - rs[1] / 2) / rs[1])))]
        if "exc" in res:
            if want_shape[0] == 0 and res["exc"] == "ValueError" and "at least one array to stack" in str(res.get("msg")):
                # no voxel centre fits between the bottom and the top of the bounding box: there is no plane to stack
                return [("raster-empty-z-grid-raises", f"resolution {rs} leaves no z plane in the bounding box {lo}..{hi}: ToImageStack.__call__ raises {res['exc']}: {res.get('msg')} instead of returning a (0, X, Y) stack")]
            return [("raster-raises", f"{res['exc']}: {res.get('msg')}")]
        out = []
        if "saved" in res and "exc" in res["saved"]:
            sv = res["saved"]
            if res["shape"][0] == 1 and sv["exc"] == "AssertionError" and "Should be shape" in sv["msg"]:
                out.append(("raster-file-single-plane-raises", f"a raster of ONE z plane (Z,X,Y)={res['shape']} written by transform_and_save cannot be read back: "
                                                               f"read_imgs raises {sv['exc']}: {sv['msg']} (the single slice is stored as a 2-D page)"))
            else:
                out.append(("raster-saved-raises", f"transform_and_save + read_imgs of a (Z,X,Y)={res['shape']} raster raised {sv['exc']}: {sv['msg']}"))
        elif "saved" in res and not res["saved"]["same"]:
            out.append(("raster-saved-differs", f"transform_and_save + read_imgs gives a stack of shape {res['saved']['shape']} (X,Y,Z,C) that is not the rasterised "
                                                 f"(Z,X,Y) = {res['shape']} stack with Z moved to the third axis"))
        if res["shape"] != want_shape:
            out.append(("raster-shape", f"stack shape (Z,X,Y)={res['shape']}, the bounding box {lo}..{hi} at resolution {rs} needs {want_shape}"))
            return out
        lit = {tuple(v) for v in res["lit"]}
        margin = 0.08
        Z, X, Y = res["shape"]
        bad = None
        for k in range(Z):
            for i in range(X):
                for j in range(Y):
                    p = np.array([lo[0] + (i + 0.5) * rs[0], lo[1] + (j + 0.5) * rs[1], lo[2] + (k + 0.5) * rs[2]])
                    s = 1
                    for c, par in enumerate(t["pids"]):
                        if par < 0:
                            continue
                        v = in_hull(p, xyz[par], xyz[c], r[par], r[c], margin)
                        if v == -1:
                            s = -1; break
                        if v == 0:
                            s = 0
                    if s == -1 and (k, i, j) not in lit:
                        bad = ("raster-unlit-inside", f"voxel (z,x,y)=({k},{i},{j}) centre {p.tolist()} is inside a round cone but not lit")
                    if s == 1 and (k, i, j) in lit:
                        bad = ("raster-lit-outside", f"voxel (z,x,y)=({k},{i},{j}) centre {p.tolist()} is lit but outside every round cone")
                    if bad:
                        break
                if bad:
                    break
            if bad:
                break
        if bad:
            out.append(bad)
        return out

    def nontrivial(self, case, res):
        return True


SUITES = [SaveLoad(), Raster()]
TECHNIQUE = ("Lean 4 theorems about the axis bookkeeping on index tuples (load ∘ save = identity for every (X,Y,Z,C) index, with the axes string and AXES_ORDER "
             "regenerated from the source), the rescaling decision table and its exact inverse on integers, and the voxel grid over ℚ (centres at min+(i+½)·res, "
             "all inside the bounding box, none missing) + real tifffile/nrrd/npy round trips and a raster oracle away from the surface. PARTIAL: codecs and the SDF "
             "sampler are outside the model")
LEVEL_TEXT = ("Kernel-checked: for every 4-index, moving Z to the front on save and transposing by the argsort of the axis orders on load returns the original index; "
              "the rescaling factor is UINT_MAX / 1/UINT_MAX / 1 exactly in the documented cases, and uint→float→uint is the identity on exact values; voxel centres are "
              "min+(i+½)·res, lie in [min, max), and the next centre would be ≥ max. Partial: voxel values go through tifffile/nrrd/numpy and the lit/unlit decision "
              "through sdflit, which are exercised by real round trips and a geometric oracle but not modelled.")
LEVEL_NOTE = "PARTIAL. Trusted: Lean kernel; translator for the constants; tifffile/pynrrd/np.save, sdflit sampler and RoundCone SDF are outside every theorem."
