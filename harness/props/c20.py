"""C20 — image stacks survive save/load, and rasterised trees match their geometry."""
import math
import os
import shutil
import tempfile
import warnings
from fractions import Fraction

import numpy as np

from harness import gen
from harness.framework import Suite

PID = "C20"
TRANSLATE = True
TRANSLATE_ALGO = ["AlgoTraverse", "AlgoTravFront", "AlgoRaster", "AlgoImgIo", "AlgoImgIo2"]   # harness/algo_specs/18_raster.py: image_stack.py::_tp3f, ToImageStack._get_samplers / _get_scene (+ leave) / transform; 18b_imgio.py: images/io.py::read_imgs, save_tiff, TiffImageStack / NDArrayImageStack.__init__, __getitem__, get_full
DRIVER_FILES = ["SwcVerif/Model/AlgoRunRaster.lean", "SwcVerif/Model/PyRaster.lean", "SwcVerif/Model/AlgoRunImgIo.lean", "SwcVerif/Model/PyImgIo.lean",
                "SwcVerif/Model/AlgoRunImgIo2.lean", "SwcVerif/Model/PyImgIo2.lean", "SwcVerif/Model/PyViews.lean"]
LEAN_MODS = ["SwcVerif.Props.C20", "SwcVerif.Props.C20Gen", "SwcVerif.Props.C20Io", "SwcVerif.Props.C20Io2"]
THEOREMS = [
    "C20.consts_pinned", "C20.save_puts_z_first", "C20.axes_roundtrip", "C20.axes_roundtrip_3d", "C20.unknown_axis", "C20.rescale_table",
    "C20.uint_float_uint", "C20.float_uint_float", "C20.grid_covers", "C20.bbox_contains", "C20.swept_ends",
    "C20.contained_swept_in_ball", "C20.contained_swept_in_ball'", "C20.degenerate_edge_is_ball", "C20.coincident_is_ball",
    # the generated image_stack.py logic (Gen/AlgoRaster.lean) refines the model (Refine/Raster.lean), and the model theorems restated for it
    "RefineRaster.tp3f_eq", "RefineRaster.samplers_refines", "RefineRaster.bbox_refines", "RefineRaster.leave_refines", "RefineRaster.getScene_refines",
    "RefineRaster.edgeSolid_model", "RefineRaster.transform_refines",
    "C20.generated_slices", "C20.generated_bbox_contains", "C20.generated_bbox_integral", "C20.generated_edge_rule", "C20.sceneRose_length",
    "C20.generated_scene_every_tree", "C20.generated_transform_every_tree",
    # the generated images/io.py logic (Gen/AlgoImgIo.lean, harness/algo_specs/18b_imgio.py) equals closed-form models for every input
    # (Refine/ImgIo.lean); the property's statements for the code as translated (Props/C20Io.lean)
    "RefineImgIo.ndarray_init_eq", "RefineImgIo.save_tiff_eq", "RefineImgIo.tiff_init_eq", "RefineImgIo.ndarray_getitem_eq",
    "RefineImgIo.ndarray_get_full_eq", "RefineImgIo.read_imgs_eq", "C20.generated_read_dispatch",
    "C20.generated_save_layout", "C20.generated_save_layout_3d", "C20.generated_save_rejects", "C20.generated_load_layout",
    "C20.generated_load_layout_3d", "C20.generated_load_reset_axes", "C20.generated_load_general", "C20.generated_load_any_order",
    "C20.generated_axes_roundtrip", "C20.generated_axes_roundtrip_3d", "C20.generated_roundtrip_values", "C20.generated_getitem",
    "C20.generated_roundtrip_getitem", "C20.generated_save_factor", "C20.generated_load_factor", "C20.generated_uint_float_uint",
    # the rest of the chain (Gen/AlgoImgIo2.lean, harness/algo_specs/18c_imgio2.py): ToImageStack.__call__ / save_tif / transform_and_save, transform WITH
    # its frame conversion, the Nrrd / V3d constructors, ImageStack / GrayImageStack.get_full (Refine/ImgIo2.lean, Props/C20Io2.lean)
    "RefineImgIo2.tostack_call_eq", "RefineImgIo2.save_tif_eq", "RefineImgIo2.transform_and_save_eq", "RefineImgIo2.nrrd_init_eq",
    "RefineImgIo2.v3d_init_eq", "RefineImgIo2.v3draw_init_eq", "RefineImgIo2.v3dpbd_init_eq", "RefineImgIo2.imagestack_get_full_eq",
    "RefineImgIo2.gray_get_full_eq", "RefineImgIo2.gray_spec", "RefineImgIo2.frameOpt_spec", "RefineImgIo2.transform_nd_refines",
    "RefineImgIo2.transform_nd_eq_transform", "RefineImgIo2.gray_getitem_never_returns", "RefineImgIo2.gray_init_eq",
    "RefineImgIo2.tostack_init_scalar_eq", "RefineImgIo2.tostack_init_array_eq",
    "RefineImgIo2.ndarray_getitem_int_eq", "RefineImgIo2.ndarray_getitem_int2_eq", "RefineImgIo2.ndarray_getitem_int3_eq",
    "RefineImgIo2.ndarray_getitem_slice_eq", "RefineImgIo2.ndarray_getitem_slice2_eq", "RefineImgIo2.ndarray_getitem_slice3_eq",
    "RefineImgIo2.ndarray_getitem_slice4_eq", "RefineImgIo2.getitem_int_spec", "RefineImgIo2.getitem_int_out_of_range",
    "RefineImgIo2.getitem_full_slices",
    "C20.generated_call_layout", "C20.generated_call_empty", "C20.generated_save_tif_writes", "C20.generated_raster_file_roundtrip",
    "C20.generated_raster_file_single_plane", "C20.generated_raster_file_empty", "C20.generated_codec_inits", "C20.generated_get_full",
    "C20.generated_call_every_tree",
]
TRUSTED = ["hand-written models Model/Images.lean of the axis bookkeeping (index tuples), the rescaling decisions and the voxel grid; AXES_ORDER, UINT_MAX and "
           "the 'ZXYC' axes string are regenerated from images/io.py on every run (Gen/Consts.lean)",
           "images/io.py (read_imgs, save_tiff, TiffImageStack / NDArrayImageStack.__init__, __getitem__, get_full) is TRANSLATED on every run (Gen/AlgoImgIo.lean, "
           "harness/algo_specs/18b_imgio.py) and proved equal to closed-form models for every input (Refine/ImgIo.lean); trusted there: the numpy semantics of "
           "Model/PyImgIo.lean (n-d arrays as shape + element function; expand_dims / transpose / moveaxis / stable argsort / astype as an element-wise `cast` "
           "parameter / scalar product / int-tuple indexing; os.path.splitext), and the glue listed in design_notes/session4/imgio.md (the object is its array; the "
           "`with tifffile.TiffFile` block and `tifffile.imwrite` are the codec: parameters in, what is handed over out; save_tiff's compression / metadata keyword "
           "bookkeeping is not translated; os.path.exists / TeraflyImageStack.is_root are parameters)"]
ASSUMPTIONS = ["tifffile / pynrrd / np.save-load store and return the array they are given (exercised by real round trips, not modelled)",
               "sdflit: RangeSampler samples [min, max) with the given stride, RoundCone is the convex hull of the two end balls when neither ball contains the other (observed by the raster oracle "
               "away from the surface, not proved); edges whose one ball contains the other are added as a Sphere (decision modelled: Img.edgeIsBall, tied by recording "
               "the constructor calls in-process)", "float32 rounding of voxel coordinates"]


INT_TYPES = ["uint8", "uint16", "uint32", "int16", "int32"]
INT_MAX = {"uint8": 2**8 - 1, "uint16": 2**16 - 1, "uint32": 2**32 - 1, "int16": 2**15 - 1, "int32": 2**31 - 1}


class SaveLoad(Suite):
    name = "c20.saveload"
    case_timeout = 60

    def cases(self, rng, tier, widen):
        out = []
        big = tier == "thorough" or widen
        # every (source kind, stored dtype, read dtype) combination of the tiff path, plus nrrd / npy
        combos = [("tif", k, sd, rd) for k in ["uint8", "uint16", "float32"] for sd in [None, "uint8", "float32"] for rd in ["float32", "uint8", "uint16", "same"]]
        combos += [(f, k, None, rd) for f in ["nrrd", "npy"] for k in ["uint8", "float32"] for rd in ["float32", "same", "uint8"]]
        if not big:
            rng.shuffle(combos)
            combos = sorted(combos[:30], key=str) + [("tif", "float32", "uint8", "float32"), ("tif", "float32", "uint8", "same"), ("tif", "uint8", "float32", "uint8")]
        else:
            combos = combos * 2
        # integer -> another integer type (other unsigned width, signed <-> unsigned), requested at read time (every format) or at save time
        # (save_tiff(dtype=...)): no integer/float conversion occurs, so the documented rescaling does not apply and values that fit both
        # types come back unchanged.  "fit": the values are drawn from the range every type on the way can hold (both ends included).
        routes = ["tif-read", "tif-save", "nrrd", "npy"]
        pairs = [(a, b) for a in INT_TYPES for b in INT_TYPES if a != b]
        if big:
            int_combos = [(rt, a, b) for rt in routes for a, b in pairs]
        else:
            int_combos = [(rt,) + rng.choice(pairs) for rt in routes for _ in range(2)]
            # at least one widening and one narrowing unsigned pair, one unsigned <-> signed pair
            int_combos += [(rng.choice(routes),) + rng.choice([(a, b) for a, b in pairs if ok(a, b)])
                           for ok in (lambda a, b: a[0] == b[0] == "u" and INT_MAX[a] < INT_MAX[b], lambda a, b: a[0] == b[0] == "u" and INT_MAX[a] > INT_MAX[b],
                                      lambda a, b: a[0] != b[0])]
        for rt, a, b in int_combos:
            fmt = rt.split("-")[0]
            combos.append((fmt, a, b if rt == "tif-save" else None, rng.choice(["same", b]) if rt == "tif-save" else b, "fit"))
        for fmt, kind, save_dtype, read_dtype, *rest in combos:
            shape = [rng.choice([1, 2, 3, 4, 5, 7]) for _ in range(3)] + [rng.choice([1, 1, 3])]
            out.append({"class": f"{fmt}/{kind}->{save_dtype}->{read_dtype}", "shape": shape, "kind": kind, "fmt": fmt, "save_dtype": save_dtype,
                        "read_dtype": read_dtype, "seed": rng.randrange(10**6), "drop_c": shape[3] == 1 and rng.random() < 0.4,
                        # writer options the call forwards to tifffile: the caller's own metadata, no compression
                        "opts": rng.choice(["-", "-", "metadata", "nocompress", "metadata"]) if fmt == "tif" else "-"})
            if rest:
                out[-1]["vals"] = rest[0]
        out.extend(self.resave_cases(rng, big))
        out.extend(self.long_axis_cases(rng, big))
        return out

    # stacks with a LONG axis (a deep z-stack of thin planes, a long strip): the usual generated shapes have axes of 1..7 voxels, real stacks have
    # hundreds of planes.  One (sometimes two) of X / Y / Z is long - lengths from a few dozen to a few hundred, mostly NOT a multiple of a power
    # of two (whatever is processed plane-block by plane-block has a ragged last block), some exact multiples - the other axes stay small, so
    # every voxel is still compared.  Stratified per axis by what the save does: float -> unsigned, unsigned -> float (the documented
    # rescaling), no conversion.
    def long_axis_cases(self, rng, big):
        out = []
        def length(exact=False):
            if exact:
                return rng.choice([32, 64, 128]) * rng.randint(1, 3)          # an exact multiple
            n = rng.randint(70, 400)
            while n % 8 == 0:
                n += rng.randint(1, 7)
            return n
        conv = {"to-uint": lambda: ("float32", rng.choice(["uint8", "uint16"])), "to-float": lambda: (rng.choice(["uint8", "uint16"]), rng.choice(["float32", "float64"])),
                "plain": lambda: (rng.choice(["uint8", "uint16", "float32"]), None)}
        axes = [(ax,) for ax in range(3)] * (3 if big else 1) + [tuple(sorted(rng.sample(range(3), 2)))]
        plan = [(la, what, False) for la in axes for what in ["to-uint", "to-float", "plain"]]
        plan += [((rng.randrange(3),), what, True) for what in ["to-uint", "to-float"] * (3 if big else 1)]
        for long_axes, what, exact in plan:
            kind, sd = conv[what]()
            shape = [rng.choice([1, 2, 3, 4]) for _ in range(3)] + [rng.choice([1, 1, 3])]
            for ax in long_axes:
                shape[ax] = length(exact) if len(long_axes) == 1 else rng.randint(20, 45)
            rd = rng.choice(["same", "same", "float32", "uint8"]) if (sd or kind) != "float64" else "same"
            out.append({"class": f"tif/long-{''.join('XYZ'[a] for a in long_axes)}{'-pow2-multiple' if exact else ''}/{what}/{kind}->{sd}->{rd}", "shape": shape, "kind": kind, "fmt": "tif",
                        "save_dtype": sd, "read_dtype": rd, "seed": rng.randrange(10**6), "drop_c": shape[3] == 1 and rng.random() < 0.4, "opts": "-"})
        return out

    # ONE in-memory stack saved more than once (an 8-bit preview and the full-precision file, a TIFF and an NPY copy, ...): the stack is an
    # ndarray (X,Y,Z,C) / (X,Y,Z), or an ImageStack (what read_imgs returns, or one built around an array) handed to save_tiff as it is.
    OBJS = ["ndarray", "ndarray3", "stack/npy", "stack/tif", "stack/direct"]
    KINDS = ["uint8", "uint16", "float32", "float64"]
    SAVE_DTYPES = [None, "uint8", "uint16", "float32"]

    def resave_cases(self, rng, big):
        out = []
        is_float = lambda k: k.startswith("float")
        def step(kind, rescaling=None):
            fmt = rng.choice(["tif", "tif", "tif", "tif", "npy", "nrrd"]) if rescaling is None else "tif"
            if fmt != "tif":
                sd = None
            elif rescaling is None:
                sd = rng.choice(self.SAVE_DTYPES)
            else:
                # a save that does (not) convert between integers and floats, i.e. one the documented rescaling applies to (or not)
                sd = rng.choice([d for d in self.SAVE_DTYPES if ((d is not None and is_float(d) != is_float(kind)) == rescaling)])
            stored = sd or kind
            return {"fmt": fmt, "save_dtype": sd, "read_dtype": rng.choice(["same", "float32", "uint8", "uint16"] if stored.startswith(("uint", "float")) else ["same"])}
        for obj in self.OBJS:
            kinds = self.KINDS if big else [rng.choice(["uint8", "uint16"]), rng.choice(["float32", "float64"])]
            for kind in kinds:
                # stratified by what the FIRST save of the object does (rescaling int<->float or not); what follows is drawn freely
                for first in ([True, False] * (2 if big else 1)):
                    steps = [step(kind, first)] + [step(kind) for _ in range(rng.choice([1, 1, 2]))]
                    c = rng.choice([1, 1, 3])
                    shape = [rng.choice([1, 2, 3, 4, 5]) for _ in range(3)] + [1 if obj == "ndarray3" else c]
                    out.append({"class": f"resave/{obj}/{kind}/" + ("rescaling-save-first" if first else "plain-save-first"), "shape": shape, "kind": kind, "obj": obj,
                                "steps": steps, "seed": rng.randrange(10**6)})
        return out

    def run_resave(self, case):
        from swcgeom.images.io import NDArrayImageStack, read_imgs, save_tiff
        import nrrd

        r = np.random.RandomState(case["seed"])
        shape, kind = case["shape"], case["kind"]
        if kind.startswith("float"):
            a = (r.randint(0, 256, size=shape) / 255.0).astype(kind)
        else:
            a = r.randint(0, INT_MAX[kind] + 1, size=shape).astype(kind)
        tmp = tempfile.mkdtemp(prefix="c20s_")
        try:
            with warnings.catch_warnings():
                warnings.simplefilter("ignore")
                obj = case["obj"]
                dt = np.dtype(kind).type
                if obj == "ndarray":
                    stack = a.copy()
                elif obj == "ndarray3":
                    stack = a[..., 0].copy()
                elif obj == "stack/direct":
                    stack = NDArrayImageStack(a.copy())
                else:
                    src = os.path.join(tmp, "src." + obj.split("/")[1])
                    if obj == "stack/npy":
                        np.save(src, a)
                    else:
                        save_tiff(a.copy(), src)
                    # float32 is the reader's default type
                    stack = read_imgs(src) if kind == "float32" and case["seed"] % 2 else read_imgs(src, dtype=dt)
                full = lambda: stack if isinstance(stack, np.ndarray) else stack.get_full()
                held = np.array(full(), copy=True)          # the voxel values of the stack, before anything is saved
                if held.ndim == 3:
                    held = held[..., None]
                res = {"orig": held.astype(np.float64).flatten().tolist(), "orig_shape": list(held.shape), "kind": str(held.dtype), "steps": []}
                for i, st in enumerate(case["steps"]):
                    try:
                        fn = os.path.join(tmp, f"s{i}." + st["fmt"])
                        if st["fmt"] == "tif":
                            save_tiff(stack, fn, dtype=None if st["save_dtype"] is None else np.dtype(st["save_dtype"]).type)
                        elif st["fmt"] == "nrrd":
                            nrrd.write(fn, np.asarray(full()))
                        else:
                            np.save(fn, np.asarray(full()))
                        stored = st["save_dtype"] or str(held.dtype)
                        rdt = np.dtype(stored if st["read_dtype"] == "same" else st["read_dtype"]).type
                        b = np.asarray(read_imgs(fn, dtype=rdt).get_full())
                        res["steps"].append({"shape": list(b.shape), "dtype": str(b.dtype), "vals": b.astype(np.float64).flatten().tolist(),
                                             "stored": stored, "read": np.dtype(rdt).name})
                    except Exception as e:  # noqa: BLE001 - the oracle decides
                        res["steps"].append({"exc": type(e).__name__, "msg": str(e)[:200]})
            return res
        finally:
            shutil.rmtree(tmp, ignore_errors=True)

    def run(self, case):
        from swcgeom.images.io import read_imgs, save_tiff
        import nrrd

        if "steps" in case:
            return self.run_resave(case)
        r = np.random.RandomState(case["seed"])
        shape = case["shape"]
        if case["kind"] == "float32":
            a = (r.randint(0, 256, size=shape) / 255.0).astype(np.float32)
        elif case.get("vals") == "fit":
            # values every integer type on the way (source, stored, read) holds exactly, the common maximum and 0 among them
            on_the_way = [case["kind"], case["save_dtype"] or case["kind"]] + ([] if case["read_dtype"] == "same" else [case["read_dtype"]])
            hi = min(INT_MAX[k] for k in on_the_way)
            a = r.randint(0, hi + 1, size=shape, dtype=np.int64)
            a.flat[r.randint(a.size)] = 0; a.flat[r.randint(a.size)] = hi
            a = a.astype(case["kind"])
        else:
            hi = 256 if case["kind"] == "uint8" else 65536
            a = r.randint(0, hi, size=shape).astype(case["kind"])
        data = a[..., 0] if case["drop_c"] else a
        tmp = tempfile.mkdtemp(prefix="c20_")
        try:
            fn = os.path.join(tmp, "s." + case["fmt"])
            with warnings.catch_warnings():
                warnings.simplefilter("ignore")
                if case.get("rewrite", case["seed"] % 2 == 0):
                    # the file existed before with other content and was read then: what is read now is what was saved last
                    other = (r.randint(0, 200, size=[shape[1], shape[2], shape[0] + 1, 1]) % 251).astype(np.uint8)
                    if case["fmt"] == "tif":
                        save_tiff(other, fn)
                    elif case["fmt"] == "nrrd":
                        nrrd.write(fn, other)
                    else:
                        np.save(fn, other)
                    fn_eff = fn if case["fmt"] != "npy" or fn.endswith(".npy") else fn + ".npy"
                    np.asarray(read_imgs(fn_eff).get_full()); np.asarray(read_imgs(fn_eff, dtype=np.uint8).get_full())
                if case["fmt"] == "tif":
                    kw = {"metadata": {"unit": "um", "note": "c20"}} if case.get("opts") == "metadata" else ({"compression": False} if case.get("opts") == "nocompress" else {})
                    save_tiff(data.copy(), fn, dtype=None if case["save_dtype"] is None else np.dtype(case["save_dtype"]).type, **kw)
                elif case["fmt"] == "nrrd":
                    nrrd.write(fn, data.copy())
                else:
                    np.save(fn, data.copy())
                rd = case["read_dtype"]
                stored = case["save_dtype"] or case["kind"]
                dt = np.dtype(stored if rd == "same" else rd).type
                st = read_imgs(fn, dtype=dt)
                b = np.asarray(st.get_full())
            return {"shape": list(b.shape), "dtype": str(b.dtype), "vals": b.astype(np.float64).flatten().tolist(),
                    "orig": a.astype(np.float64).flatten().tolist(), "stored": stored, "read": np.dtype(dt).name}
        finally:
            shutil.rmtree(tmp, ignore_errors=True)

    def lines(self, case, res):
        # the axis bookkeeping of the model on a few index tuples of this shape (exact)
        if case.get("fmt") != "tif":
            return []
        x, y, z, c = case["shape"]
        out = []
        for idx in {(0, 0, 0, 0), (x - 1, y - 1, z - 1, c - 1), (x - 1, 0, z // 2, 0), (0, y - 1, z - 1, c - 1)}:
            saved = [idx[2], idx[0], idx[1], idx[3]]
            out.append((f"imgaxes idx={gen.ints(idx)} axes=ZXYC", f"{gen.ints(saved)} / {gen.ints(idx)}"))
        return out

    @staticmethod
    def expect(a, kind, stored, read):
        """(values, tolerance) the documented rescaling gives for values `a`: source kind -> stored kind -> read kind"""
        MAX = {"uint8": 255.0, "uint16": 65535.0, "uint32": 4294967295.0}
        def conv(v, src, dst):
            if src == dst:
                return v, 0.0
            if src.startswith("uint") and dst.startswith("float"):
                return v / MAX[src], 1e-6
            if src.startswith("float") and dst.startswith("uint"):
                return v * MAX[dst], 1.0 + 1e-6          # truncation: up to one unit
            return v, 0.0                                # integer -> integer (any width, signed or not): plain cast, nothing to rescale
        w, tol1 = conv(a, kind, stored)
        if stored.startswith("uint") and kind.startswith("float"):
            w = np.floor(w + 1e-4)
        if stored.startswith("uint") and kind.startswith("uint") and MAX[stored] < MAX[kind]:
            w = np.mod(w, MAX[stored] + 1)
        w2, tol2 = conv(w, stored, read)
        if read.startswith("uint") and stored.startswith("uint") and MAX[read] < MAX[stored]:
            w2 = np.mod(w2, MAX[read] + 1)
        tol = max(tol2, tol1 * (MAX.get(read, 1.0) / MAX.get(stored, 1.0) if read.startswith("uint") or stored.startswith("uint") else 1.0), 1e-6)
        if read.startswith("float") and stored.startswith("uint") and kind.startswith("float"):
            tol = 1.0 / MAX[stored] + 1e-6
        return w2, tol

    def oracle(self, case, res):
        try:
            return self._oracle_seq(case, res) if "steps" in case else self._oracle(case, res)
        except Exception as e:  # noqa: BLE001 - a result the oracle cannot even read is not what the property promises
            return [("imgs-malformed-result", f"{case.get('class')}: the result of the save/load could not be judged ({type(e).__name__}: {str(e)[:200]}): {str(res)[:300]}")]

    def _oracle(self, case, res):
        if "exc" in res:
            key = "imgs-raises/" + case["class"].split("/")[1]
            return [(key, f"save/load {case['class']} of shape {case['shape']} raised {res['exc']}: {res.get('msg')}")]
        out = []
        if res["shape"] != case["shape"]:
            return [("imgs-shape", f"{case['class']}: saved shape (X,Y,Z,C)={case['shape']}, read back {res['shape']}")]
        a = np.array(res["orig"]); b = np.array(res["vals"])
        w2, tol = self.expect(a, case["kind"], res["stored"], res["read"])
        if b.shape != w2.shape or not np.all(np.abs(b - w2) <= tol):
            i = int(np.argmax(np.abs(b - w2)))
            out.append(("imgs-values", f"{case['class']} shape {case['shape']}: voxel #{i} read back {b[i]}, expected {w2[i]} (orig {a[i]})"))
        return out

    def _oracle_seq(self, case, res):
        # ONE stack, saved several times: every file, read back, shows the voxel values of the stack (the values it was created with - saving a
        # stack is not an assignment to it), up to the documented rescaling of THAT save / read
        if "exc" in res:
            return [("imgs-raises/" + case["class"], f"{case['class']} of shape {case['shape']}: building the stack raised {res['exc']}: {res.get('msg')}")]
        out = []
        a = np.array(res["orig"], dtype=np.float64); kind = str(res["kind"])
        if list(res["orig_shape"]) != list(case["shape"]) or a.size != int(np.prod(case["shape"])):
            return [("imgs-shape", f"{case['class']}: the stack built from a {case['shape']} array has shape {res['orig_shape']}")]
        steps = res.get("steps") or []
        if len(steps) != len(case["steps"]):
            out.append(("imgs-malformed-result", f"{case['class']}: {len(case['steps'])} saves asked, {len(steps)} results"))
        for i, (st, r) in enumerate(zip(case["steps"], steps)):
            what = f"{case['class']} shape {case['shape']}, save #{i + 1} of the same stack ({st['fmt']}, dtype={st['save_dtype']}, read as {st['read_dtype']})"
            if "exc" in r:
                out.append((f"imgs-raises/{kind}->{st['save_dtype']}->{st['read_dtype']}", f"{what} raised {r['exc']}: {r.get('msg')}"))
                continue
            if list(r["shape"]) != list(case["shape"]):
                out.append(("imgs-shape", f"{what}: saved shape (X,Y,Z,C)={case['shape']}, read back {r['shape']}"))
                continue
            b = np.array(r["vals"], dtype=np.float64)
            w2, tol = self.expect(a, kind, str(r["stored"]), str(r["read"]))
            if b.shape != w2.shape or not np.all(np.abs(b - w2) <= tol):
                j = int(np.argmax(np.abs(b - w2))) if b.shape == w2.shape else 0
                out.append(("imgs-values" if i == 0 else "imgs-values-resaved",
                            f"{what}: voxel #{j} read back {b[j] if b.size > j else None}, expected {w2[j]} (the stack holds {a[j]})"))
        return out

    def nontrivial(self, case, res):
        return len(set(case["shape"][:3])) >= 2


def in_hull(p, a, b, ra, rb, margin):
    """signed margin test for the round cone: -1 inside by margin, +1 outside by margin, 0 near the surface"""
    best = 1e18
    for t in np.linspace(0, 1, 41):
        c = a + t * (b - a); r = ra + t * (rb - ra)
        best = min(best, np.linalg.norm(p - c) - r)
    # the ball of the family nearest to p exactly (t ↦ |p − c(t)| − r(t) is convex: stationary point, clamped to the edge): between two samples
    # a thin part of the cone (radius below half the sample spacing, e.g. next to a tip of radius 0) is not covered by the sampled balls
    L = float(np.linalg.norm(b - a))
    if L > 0 and abs(rb - ra) < L:
        u = (b - a) / L; s = float(np.dot(p - a, u)); rho = float(np.linalg.norm(p - a - s * u)); k = (rb - ra) / L
        t = min(1.0, max(0.0, (s + k * rho / math.sqrt(1 - k * k)) / L))
        best = min(best, np.linalg.norm(p - (a + t * (b - a))) - (ra + t * (rb - ra)))
    return -1 if best < -margin else (1 if best > margin else 0)


def hull_side(P, a, b, ra, rb, margin, samples=41):
    """`in_hull` for many points at once: array of -1 / 0 / +1 (inside by margin / near the surface / outside by margin).  The sampled balls are
    redundant (the two end balls decide when one contains the other, the stationary point below decides otherwise): `samples` may be lowered"""
    ts = np.linspace(0, 1, samples)
    c = a[None, :] + ts[:, None] * (b - a)[None, :]; rr = ra + ts * (rb - ra)
    best = np.min(np.linalg.norm(P[:, None, :] - c[None, :, :], axis=2) - rr[None, :], axis=1)
    L = float(np.linalg.norm(b - a))
    if L > 0 and abs(rb - ra) < L:
        u = (b - a) / L; s = (P - a) @ u; rho = np.linalg.norm(P - a - s[:, None] * u[None, :], axis=1); k = (rb - ra) / L
        t = np.clip((s + k * rho / math.sqrt(1 - k * k)) / L, 0.0, 1.0)
        best = np.minimum(best, np.linalg.norm(P - (a[None, :] + t[:, None] * (b - a)[None, :]), axis=1) - (ra + t * (rb - ra)))
    return np.where(best < -margin, -1, np.where(best > margin, 1, 0))


def hull_depth_many(P, A, B, RA, RB, chunk=128):
    """min over the edges (A[e], B[e], RA[e], RB[e]) of the signed distance of every point of P to the round cone of the edge (negative inside):
    the nearest ball of the family is an end ball, or the one at the stationary point (as in `in_hull`); all edges of a chunk at once"""
    best = np.full(len(P), 1e18)
    for s in range(0, len(A), chunk):
        a, b, ra, rb = A[s:s + chunk], B[s:s + chunk], RA[s:s + chunk], RB[s:s + chunk]
        pa = P[:, None, :] - a[None, :, :]                                             # (V, E, 3)
        d = np.minimum(np.linalg.norm(pa, axis=2) - ra[None, :], np.linalg.norm(P[:, None, :] - b[None, :, :], axis=2) - rb[None, :])
        L = np.linalg.norm(b - a, axis=1)
        ok = (L > 0) & (np.abs(rb - ra) < L)
        if ok.any():
            Ls = np.where(ok, L, 1.0); u = (b - a) / Ls[:, None]; k = np.where(ok, (rb - ra) / Ls, 0.0)
            sdot = np.einsum("vek,ek->ve", pa, u); rho = np.linalg.norm(pa - sdot[:, :, None] * u[None, :, :], axis=2)
            t = np.clip((sdot + k[None, :] * rho / np.sqrt(1 - k * k)[None, :]) / Ls[None, :], 0.0, 1.0)
            c = a[None, :, :] + t[:, :, None] * (b - a)[None, :, :]
            d2 = np.linalg.norm(P[:, None, :] - c, axis=2) - (ra[None, :] + t * (rb - ra)[None, :])
            d = np.where(ok[None, :], np.minimum(d, d2), d)
        best = np.minimum(best, d.min(axis=1))
    return best


def bbox_shape(xyz, r, rs):
    """bounding box of the balls and the (Z, X, Y) shape of the grid of voxel centres lo + (i + 1/2)·res inside it"""
    lo = np.floor(np.min(xyz - r.reshape(-1, 1), axis=0)); hi = np.ceil(np.max(xyz + r.reshape(-1, 1), axis=0))
    n = [max(0, int(math.ceil((hi[i] - lo[i] - rs[i] / 2) / rs[i]))) for i in range(3)]
    return lo, hi, [n[2], n[0], n[1]]


def judge_raster(xyz, r, pids, rs, shape, lit, margin=0.08, samples=41):
    """the property's conclusion on ONE raster: findings [(key, msg)] for a (Z, X, Y) = `shape` stack with lit voxels `lit` of the tree
    (xyz, r, pids: parent INDEX per node, -1 for the root) at resolution `rs`"""
    lo, hi, want = bbox_shape(xyz, r, rs)
    if list(shape) != want:
        return [("raster-shape", f"stack shape (Z,X,Y)={list(shape)}, the bounding box {lo}..{hi} at resolution {rs} needs {want}")]
    Z, X, Y = want
    if Z * X * Y == 0:
        return []
    k, i, j = np.meshgrid(np.arange(Z), np.arange(X), np.arange(Y), indexing="ij")
    k, i, j = k.ravel(), i.ravel(), j.ravel()
    P = np.stack([lo[0] + (i + 0.5) * rs[0], lo[1] + (j + 0.5) * rs[1], lo[2] + (k + 0.5) * rs[2]], axis=1)
    inside = np.zeros(len(P), dtype=bool); near = np.zeros(len(P), dtype=bool)
    if samples is None:
        # thousands of edges: all of them at once
        cs = [c for c, par in enumerate(pids) if par >= 0]; ps = [pids[c] for c in cs]
        depth = hull_depth_many(P, xyz[ps], xyz[cs], r[ps].astype(float), r[cs].astype(float)) if cs else np.full(len(P), 1e18)
        inside = depth < -margin; near = ~inside & (depth <= margin)
        pids = []
    for c, par in enumerate(pids):
        if par < 0:
            continue
        v = hull_side(P, xyz[par], xyz[c], float(r[par]), float(r[c]), margin, samples)
        inside |= v == -1; near |= v == 0
    outside = ~inside & ~near
    is_lit = np.zeros(len(P), dtype=bool)
    for v in lit:
        if len(v) != 3 or not (0 <= v[0] < Z and 0 <= v[1] < X and 0 <= v[2] < Y):
            return [("raster-shape", f"lit voxel {v} outside the (Z,X,Y)={want} stack")]
        is_lit[(v[0] * X + v[1]) * Y + v[2]] = True
    bad = np.flatnonzero(inside & ~is_lit)
    if len(bad):
        q = int(bad[0])
        return [("raster-unlit-inside", f"voxel (z,x,y)=({k[q]},{i[q]},{j[q]}) centre {P[q].tolist()} is inside a round cone but not lit ({len(bad)} such voxels)")]
    bad = np.flatnonzero(outside & is_lit)
    if len(bad):
        q = int(bad[0])
        return [("raster-lit-outside", f"voxel (z,x,y)=({k[q]},{i[q]},{j[q]}) centre {P[q].tolist()} is lit but outside every round cone ({len(bad)} such voxels)")]
    return []


class Raster(Suite):
    name = "c20.raster"
    case_timeout = 120

    def cases(self, rng, tier, widen):
        out = []
        big = tier == "thorough" or widen
        k = 0
        for n in [2, 3] + ([4, 6] if big else []):
            for _ in range(1 if not big else 4):
                t = gen.tree_case(rng, n, gen.pick_shape(rng, k), numbering="sorted", coords="lattice"); k += 1
                t["xyz"] = [[c / 6.0 for c in p] for p in t["xyz"]]
                t["r"] = [rng.choice([0.5, 1.0, 1.5]) for _ in t["r"]]
                out.append({"class": f"n{t['n']}", "tree": t, "res": rng.choice([1.0, 0.5, 2.0, 3.0, 0.75, [1.0, 0.5, 2.0], [1.0, 1.0, 3.0]])})
                if t["n"] > 1 and rng.random() < 0.5:
                    # an edge whose one end ball contains the other (child tucked inside the parent ball or the other way round)
                    t2 = {**t, "xyz": [list(p) for p in t["xyz"]], "r": list(t["r"])}
                    c = rng.randrange(1, t2["n"]); par = t2["pids"][c]
                    d = [rng.choice([-4, -3, -2, -1, 0, 1, 2, 3, 4]) / 6.0 for _ in range(3)]
                    t2["xyz"][c] = [t2["xyz"][par][i] + d[i] for i in range(3)]
                    big, small = rng.choice([(1.5, 0.5), (1.0, 0.5), (1.5, 1.0), (1.0, 1.0)])
                    t2["r"][par], t2["r"][c] = (big, small) if rng.random() < 0.6 else (small, big)
                    out.append({"class": f"n{t2['n']}/tucked", "tree": t2, "res": rng.choice([0.5, 1.0, 0.75])})
        # radii at zero: SWC trees taper to sharp tips (a leaf of radius 0), have necks pinched to 0 between thick nodes, start from a point, or
        # carry unmeasured (0) radii here and there.  An edge with ONE end of radius 0 is a proper cone (the hull of a ball and a point), an edge
        # with both ends 0 has no volume, a zero-radius node inside its neighbour's ball leaves that ball.
        for v in ["tip", "neck", "root", "zero-edge", "tucked", "scattered"] * (4 if tier == "thorough" or widen else 1):
            n = rng.choice([2, 3, 4] if v in ("tip", "root", "tucked") else [3, 4, 5])
            t = gen.tree_case(rng, n, rng.choice(["chain", "caterpillar", "stem", "random", "star"]), numbering="sorted", coords="lattice")
            if v in ("neck", "zero-edge") and all(t["pids"].count(c) == 0 for c in range(1, n)):
                t["pids"] = [-1] + list(range(n - 1))          # no inner node: make it a chain
            pids = t["pids"]
            t["xyz"] = [[c / 8.0 for c in p] for p in t["xyz"]]
            t["r"] = [rng.choice([0.5, 1.0, 1.5]) for _ in t["r"]]
            leaves = [c for c in range(1, n) if pids.count(c) == 0]; inner = [c for c in range(1, n) if pids.count(c) > 0]
            if v == "tip":
                for c in rng.sample(leaves, rng.randint(1, len(leaves))):
                    t["r"][c] = 0.0
            elif v == "neck":
                t["r"][rng.choice(inner)] = 0.0
            elif v == "root":
                t["r"][0] = 0.0
            elif v == "zero-edge":
                c = rng.choice(inner if rng.random() < 0.5 else list(range(1, n)))
                t["r"][c] = t["r"][pids[c]] = 0.0
                others = [i for i in range(n) if i not in (c, pids[c])]
                if all(t["r"][i] == 0.0 for i in others):
                    t["r"][others[0]] = 1.0
            elif v == "tucked":
                c = rng.choice(leaves); par = pids[c]
                t["r"][c] = 0.0
                t["xyz"][c] = [t["xyz"][par][i] + rng.choice([-2, -1, 0, 1, 2]) / 8.0 for i in range(3)]     # |offset| ≤ √12/8 < 0.5 ≤ r(parent)
            else:
                t["r"] = [0.0 if rng.random() < 0.4 else x for x in t["r"]]
                if not any((t["r"][c] == 0.0) != (t["r"][pids[c]] == 0.0) for c in range(1, n)):
                    c = rng.choice(leaves); t["r"][c] = 0.0; t["r"][pids[c]] = 1.0
            out.append({"class": f"n{n}/zero-radius/{v}", "tree": t, "res": rng.choice([0.5, 0.5, 0.75, 1.0, [1.0, 0.5, 2.0], [0.5, 0.5, 1.0]])})
        # fixed degenerate edges: child ball inside the parent ball, parent inside child, coincident nodes, internal tangency
        for xyz, r in (([[0.0, 0.0, 0.0], [0.0, 1 / 3, -1 / 3], [1.5, 0.5, 2.5]], [1.0, 0.5, 0.5]),
                       ([[0.0, 0.0, 0.0], [0.25, 0.0, 0.25], [2.0, 0.0, 0.0]], [0.5, 1.5, 0.5]),
                       ([[0.0, 0.0, 0.0], [0.0, 0.0, 0.0], [0.0, 2.0, 1.0]], [1.0, 1.0, 0.5]),
                       ([[0.0, 0.0, 0.0], [0.0, 0.0, 0.0], [0.0, 2.0, 1.0]], [1.5, 0.5, 0.5]),
                       ([[0.0, 0.0, 0.0], [0.0, 0.0, 0.5], [2.0, 0.0, 0.5]], [1.0, 0.5, 0.5])):
            t = {"class": "chain/sorted", "n": 3, "pids": [-1, 0, 1], "types": [1, 3, 3], "xyz": xyz, "r": r}
            out.append({"class": "n3/degenerate-edge", "tree": t, "res": 0.5})
        # short edges between balls of different size that are NOT contained in one another (|r1-r2| < d ≤ sqrt|r1²-r2²|): the thin ball and
        # the conical flank stick out of the thick ball
        for xyz, r in (([[0.0, 0.0, 0.0], [1.25, 0.0, 0.0]], [1.5, 0.5]), ([[0.0, 0.0, 0.0], [0.0, 0.75, 0.25]], [1.0, 0.5]),
                       ([[0.0, 0.0, 0.0], [0.0, 0.0, 1.25]], [0.5, 1.5]), ([[0.5, 0.5, 0.0], [1.25, 1.25, 0.5]], [1.5, 0.5])):
            t = {"class": "chain/sorted", "n": 2, "pids": [-1, 0], "types": [1, 3], "xyz": xyz, "r": r}
            out.append({"class": "n2/nearly-contained", "tree": t, "res": 0.25})
        # resolutions that do not divide the height of the bounding box: the last, partially filled slice must be there
        t = gen.tree_case(rng, 2, "chain", numbering="sorted", coords="lattice")
        t["xyz"] = [[0.0, 0.0, 0.0], [0.5, 0.0, 3.0]]; t["r"] = [1.0, 1.0]      # z-extent of the box: 5
        for res in ([1.0, 1.0, 3.0], 0.75):
            out.append({"class": "n2/indivisible", "tree": t, "res": res})
        out.extend(self.branch_cases(rng, tier == "thorough" or widen))
        out.extend(self.seq_cases(rng, tier == "thorough" or widen))
        out.extend(self.long_path_cases(rng, tier == "thorough" or widen))
        out.extend(self.nested_cases(rng, tier == "thorough" or widen))
        out.extend(self.label_cases(rng, tier == "thorough" or widen))
        return out

    # LONG UNBRANCHED RUNS: an axon, or any process of a resampled reconstruction, is a run of thousands of nodes a fraction of a micron apart.
    # The tree contains a root-to-tip path longer than the interpreter's recursion limit (drawn above it by a few hundred to a few thousand
    # nodes); the path meanders inside a small box, so the stack stays small and every voxel is judged.  Variants: the bare path, the root in
    # the middle of it (two arms), short twigs along it, a small bushy tree with the long process leaving one of its nodes.
    LONG = ["path", "two-arms", "twigs", "bush-then-path"]

    def long_path_cases(self, rng, big):
        import sys

        out = []
        limit = max(1000, sys.getrecursionlimit())
        for v in (self.LONG * 2 if big else rng.sample(self.LONG, 3)):
            spec = {"variant": v, "depth": limit + rng.randint(100, 3000 if big else 1500), "step": rng.choice([0.02, 0.05, 0.1]), "box": rng.choice([4.0, 5.0, 6.0]),
                    "r": [rng.choice([0.5, 0.75, 1.0]), rng.choice([0.25, 0.5])], "seed": rng.randrange(10**6)}
            out.append({"class": f"long-path/{v}/depth>{limit}", "long_path": spec, "res": rng.choice([0.5, 1.0, 0.75, [1.0, 0.5, 2.0], [0.5, 0.5, 1.0]]),
                        "save": rng.random() < 0.5, "big": True})
        return out

    @staticmethod
    def long_path_tree(spec):
        """the tree description (n, pids, types, xyz, r; coordinates on the 1/1024 lattice) of a long-path case"""
        import random

        rng = random.Random(spec["seed"])
        B, s = spec["box"], spec["step"]
        pids, xyz, r = [-1], [[rng.uniform(1, B - 1) for _ in range(3)]], [spec["r"][0]]

        def run(start, length, r0, r1):
            d = [rng.gauss(0, 1) for _ in range(3)]
            p, par = list(xyz[start]), start
            for i in range(length):
                d = [x + 0.15 * rng.gauss(0, 1) for x in d]
                nrm = math.sqrt(sum(x * x for x in d)) or 1.0
                d = [x / nrm for x in d]
                for k in range(3):
                    if not 0.0 <= p[k] + s * d[k] <= B:
                        d[k] = -d[k]
                p = [p[k] + s * d[k] for k in range(3)]
                pids.append(par); xyz.append(list(p)); r.append(r0 + (r1 - r0) * (i + 1) / length)
                par = len(pids) - 1
            return par

        v, D = spec["variant"], spec["depth"]
        if v == "bush-then-path":
            for _ in range(rng.randint(3, 8)):
                run(rng.randrange(len(pids)), rng.randint(1, 3), spec["r"][0], spec["r"][0])
            run(rng.randrange(len(pids)), D, *spec["r"])
        else:
            run(0, D, *spec["r"])
            if v == "two-arms":
                run(0, rng.randint(D // 4, D), *spec["r"])
            if v == "twigs":
                for _ in range(rng.randint(3, 10)):
                    at = rng.randrange(1, D)
                    run(at, rng.randint(1, 4), r[at], spec["r"][1])
        q = lambda x: round(x * 1024) / 1024
        return {"class": "long-path/" + v, "n": len(pids), "pids": pids, "types": [1] + [2] * (len(pids) - 1), "xyz": [[q(c) for c in p] for p in xyz], "r": [q(x) for x in r]}

    @classmethod
    def tree_of(cls, case):
        return case["tree"] if "tree" in case else cls.long_path_tree(case["long_path"])

    # a BRANCH POINT one of whose compartments is degenerate (one end ball contains the other) while its siblings are ordinary processes: a thin
    # branch point next to a swelling / varicosity (the child's ball contains the branch point's), or a thick branch point (soma, bouton) with a
    # short stub inside it (the parent's ball contains the child's).  The degenerate child stands first, in the middle or last among its
    # siblings (id order = the order the scene is built in); further siblings may be degenerate too; the branch point is the root or has a stem.
    DIRS = ["child-contains-parent", "parent-contains-child"]
    POS = ["first", "middle", "last"]

    def branch_cases(self, rng, big):
        out = []
        for direction in self.DIRS:
            for pos in self.POS:
                for _ in range(3 if big else 1):
                    out.append(self.branch_case(rng, direction, pos, big))
        return out

    @staticmethod
    def branch_case(rng, direction, pos, big):
        k = rng.choice([3, 4] if pos == "middle" else [2, 2, 3, 4]) + (rng.choice([0, 2]) if big else 0)      # number of children
        at = 0 if pos == "first" else (k - 1 if pos == "last" else rng.randrange(1, k - 1))
        stem = rng.random() < 0.6
        g = lambda lo, hi: rng.choice([-1, 1]) * rng.randint(lo, hi) / 8.0
        centre = [g(0, 16) for _ in range(3)]
        rp = rng.choice([0.5, 0.5, 0.75, 1.0]) if direction == "child-contains-parent" else rng.choice([1.5, 2.0, 2.5, 3.0])
        xyz, r, pids = [], [], []
        if stem:
            xyz.append([centre[0] + g(24, 40), centre[1] + g(0, 16), centre[2] + g(0, 16)]); r.append(rng.choice([0.5, 1.0])); pids.append(-1)
        bp = len(xyz)
        xyz.append(centre); r.append(rp); pids.append(bp - 1)
        degenerate = {at} | {i for i in range(k) if rng.random() < 0.15}
        kinds = []
        for i in range(k):
            if i in degenerate:
                d_i = direction if i == at else rng.choice(Raster.DIRS)
                if d_i == "child-contains-parent":
                    rc = rp + rng.choice([0.5, 1.0, 1.5, 2.0, 2.5])
                else:
                    rc = rng.choice([x for x in (0.25, 0.5, 0.75, 1.0) if x < rp] or [rp / 2])
                # centre of the child within |r_child - r_parent| of the branch point (lattice offsets of 1/8, coincident centres included)
                lim = abs(rc - rp)
                for _try in range(200):
                    d = [rng.randint(-int(lim * 8), int(lim * 8)) / 8.0 for _ in range(3)]
                    if math.sqrt(sum(v * v for v in d)) <= lim - 1 / 64:
                        break
                else:
                    d = [0.0, 0.0, 0.0]
                kinds.append(d_i)
            else:
                # an ordinary process: leaves the branch point far beyond every ball around it
                rc = rng.choice([0.25, 0.5, 0.5, 0.75, 1.0])
                ax = rng.randrange(3)
                d = [g(0, 16) for _ in range(3)]; d[ax] = g(36, 64)
                kinds.append("-")
            xyz.append([centre[j] + d[j] for j in range(3)]); r.append(rc); pids.append(bp)
        if rng.random() < 0.5:
            # one of the children goes on
            c = bp + 1 + rng.randrange(k)
            xyz.append([xyz[c][j] + g(8, 24) for j in range(3)]); r.append(rng.choice([0.5, 0.75, 1.0])); pids.append(c)
        n = len(xyz)
        t = {"class": "branch/sorted", "n": n, "pids": pids, "types": [1] + [3] * (n - 1), "xyz": xyz, "r": r}
        return {"class": f"n{n}/branch-contained/{direction}/{pos}-of-{k}" + ("/stem" if stem else "/root") + (f"/{len(degenerate)}-degenerate" if len(degenerate) > 1 else ""),
                "tree": t, "res": rng.choice([0.5, 1.0, 1.0, 0.75, [1.0, 0.5, 2.0], [1.0, 1.0, 0.5]]), "siblings": kinds}

    # a THICK NODE (cell body, bouton) WHOSE BALL HOLDS THE START OF ITS PROCESSES: k ≥ 2 children of one node, of which ALL, all but one, or just
    # one lie with their whole ball inside the node's ball (the first point of a neurite is often placed inside the soma).  The thick node is the
    # root or hangs on a stem; nested children may go on to a point far outside (the neurite proper) or end there.  Whatever the mix, the node's
    # ball belongs to the union (it is an end ball of each of its edges).
    NESTED = ["all", "all", "all-but-one", "one"]

    def nested_cases(self, rng, big):
        out = []
        for share in self.NESTED * (3 if big else 1):
            for at_root in ([True, False] if share == "all" or big else [rng.random() < 0.5]):
                out.append(self.nested_case(rng, share, at_root))
        return out

    @staticmethod
    def nested_case(rng, share, at_root):
        k = rng.choice([2, 2, 3, 4])
        g = lambda lo, hi: rng.choice([-1, 1]) * rng.randint(lo, hi) / 8.0
        centre = [g(0, 16) for _ in range(3)]
        rp = rng.choice([1.5, 2.0, 2.5, 3.0, 4.0])
        xyz, r, pids = [], [], []
        if not at_root:
            xyz.append([centre[j] + (g(int(rp * 8) + 12, int(rp * 8) + 28) if j == 0 else g(0, 16)) for j in range(3)]); r.append(rng.choice([0.5, 1.0])); pids.append(-1)
        bp = len(xyz)
        xyz.append(centre); r.append(rp); pids.append(bp - 1)
        nested = set(range(k)) if share == "all" else (set(rng.sample(range(k), k - 1)) if share == "all-but-one" else {rng.randrange(k)})
        for i in range(k):
            rc = rng.choice([x for x in (0.25, 0.5, 0.75, 1.0, 1.5) if x < rp])
            if i in nested:
                lim = rp - rc
                for _try in range(200):
                    d = [rng.randint(-int(lim * 8), int(lim * 8)) / 8.0 for _ in range(3)]
                    if math.sqrt(sum(v * v for v in d)) <= lim - 1 / 64:
                        break
                else:
                    d = [0.0, 0.0, 0.0]
            else:
                d = [g(0, 16) for _ in range(3)]; d[rng.randrange(3)] = g(int(rp * 8) + 16, int(rp * 8) + 40)
            xyz.append([centre[j] + d[j] for j in range(3)]); r.append(rc); pids.append(bp)
        goes_on = 0
        for i in sorted(nested):
            if rng.random() < 0.4:
                c = bp + 1 + i; ax = rng.randrange(3)
                d = [g(0, 12) for _ in range(3)]; d[ax] = g(int(rp * 8) + 12, int(rp * 8) + 32)
                xyz.append([centre[j] + d[j] for j in range(3)]); r.append(rng.choice([0.25, 0.5, 0.75])); pids.append(c); goes_on += 1
        n = len(xyz)
        t = {"class": "nested/sorted", "n": n, "pids": pids, "types": [1] + [rng.choice([2, 3, 4]) for _ in range(n - 1)], "xyz": xyz, "r": r}
        return {"class": f"n{n}/ball-holds-children/{share}-of-{k}-nested/" + ("root" if at_root else "stem") + (f"/{goes_on}-go-on" if goes_on else ""),
                "tree": t, "res": rng.choice([0.5, 1.0, 1.0, 0.75, [1.0, 0.5, 2.0], [1.0, 1.0, 0.5]])}

    # THE TYPE COLUMN: the property speaks of parents, children, positions and radii only, so the structure identifiers must not change a voxel.
    # The same kinds of small trees under the labelings reconstructions carry: the multi-point soma (the root and its first children typed soma -
    # the three-point soma of NeuroMorpho.org: centre plus two points at -/+ r along an axis, all of radius r -, neurites leaving any of them), a
    # run of soma-typed nodes from the root (contour somata), a soma-typed pair in the middle of the tree, every node soma, no soma at all (a
    # fragment), one type throughout, undefined (0) and custom (≥ 5) identifiers.
    LABELS = ["three-point-soma", "three-point-soma", "soma-run", "soma-pair-inside", "all-soma", "no-soma", "undefined-custom"]

    def label_cases(self, rng, big):
        return [self.label_case(rng, lab) for lab in self.LABELS * (3 if big else 1)]

    @staticmethod
    def label_case(rng, lab):
        g = lambda lo, hi: rng.choice([-1, 1]) * rng.randint(lo, hi) / 8.0
        if lab == "three-point-soma":
            rs_ = rng.choice([1.0, 1.5, 2.0, 2.5, 3.0, 4.0]); ax = rng.randrange(3)
            centre = [g(0, 16) for _ in range(3)]
            sat = lambda s: [centre[j] + (s * rs_ if j == ax else 0.0) for j in range(3)]
            xyz, r, pids, ty = [centre, sat(-1), sat(1)], [rs_] * 3, [-1, 0, 0], [1, 1, 1]
            for _ in range(rng.randint(0, 3)):
                par = rng.randrange(3); bx = rng.choice([j for j in range(3) if j != ax])
                d = [g(0, 12) for _ in range(3)]; d[bx] = g(int(rs_ * 8) + 8, int(rs_ * 8) + 32)
                xyz.append([xyz[par][j] + d[j] for j in range(3)]); r.append(rng.choice([0.25, 0.5, 0.75])); pids.append(par); ty.append(rng.choice([2, 3, 4]))
            t = {"class": "three-point-soma/sorted", "n": len(xyz), "pids": pids, "types": ty, "xyz": xyz, "r": r}
        else:
            n = rng.choice([3, 4, 5])
            t = gen.tree_case(rng, n, rng.choice(["chain", "caterpillar", "stem", "random", "star"]), numbering="sorted", coords="lattice")
            n, pids = t["n"], t["pids"]
            t["xyz"] = [[c / 6.0 for c in p] for p in t["xyz"]]
            t["r"] = [rng.choice([0.5, 1.0, 1.5]) for _ in t["r"]]
            other = lambda: rng.choice([2, 3, 4])
            if lab == "soma-run":
                m = rng.randint(2, n)                      # the first m nodes (parents come first: a connected set holding the root)
                ty = [1] * m + [other() for _ in range(n - m)]
            elif lab == "soma-pair-inside":
                c = rng.choice([i for i in range(1, n) if pids[i] > 0] or [n - 1])
                ty = [rng.choice([1, 3]) if i == 0 else (1 if i in (c, pids[c]) else other()) for i in range(n)]
            elif lab == "all-soma":
                ty = [1] * n
            elif lab == "no-soma":
                ty = [other() for _ in range(n)] if rng.random() < 0.5 else [other()] * n
            else:
                ty = [rng.choice([0, 5, 6, 7, 10]) for _ in range(n)]
            t["types"] = ty
        return {"class": f"n{t['n']}/type-column/{lab}", "tree": t, "res": rng.choice([0.5, 1.0, 1.0, 0.75, [1.0, 0.5, 2.0]])}

    # a SEQUENCE of rasterisations, as a pipeline does them: a neuron read from an SWC file (it then carries its `source`) or built in memory, and
    # variants of it - the augmentations and edits of the library (translated, mirrored, rescaled, radii reset, a tip pruned, the file edited and
    # read again) -, each rasterised through one of the three entry points (__call__, transform, transform_and_save + read_imgs), with ONE
    # ToImageStack object for the whole sequence or a new one per tree.  Every stack of the sequence is judged against the tree it was made from.
    DERIVE = ["translate", "mirror", "scale", "radius", "prune", "rewrite", "same"]
    VIA = ["call", "transform", "save"]

    def seq_cases(self, rng, big):
        out = []
        plan = [("file", True)] * 5 + [("file", False), ("memory", True), ("memory", True)]
        for origin, shared in plan * (3 if big else 1):
            n = rng.choice([2, 3, 3, 4] + ([6, 9] if big else []))
            t = gen.tree_case(rng, n, rng.choice(["chain", "caterpillar", "stem", "random", "star"]), numbering="sorted", coords="lattice")
            t["xyz"] = [[c / 8.0 for c in p] for p in t["xyz"]]
            t["r"] = [rng.choice([0.5, 1.0, 1.5]) for _ in t["r"]]
            steps = [{"derive": "load", "via": rng.choice(self.VIA)}]
            size = {"first": t["n"], "prev": t["n"]}
            for _ in range(rng.choice([1, 2, 2, 3] if not big else [2, 3, 4])):
                of = rng.choice(["first", "prev"])
                kinds = [d for d in self.DERIVE if (d != "prune" or size[of] >= 3) and (d != "rewrite" or origin == "file")]
                d = rng.choice(kinds)
                st = {"derive": d, "of": of, "via": rng.choice(self.VIA)}
                if d == "translate":
                    st["by"] = [rng.choice([-1, 1]) * rng.randint(1, 12) / 4.0 if rng.random() < 0.7 else 0.0 for _ in range(3)]
                    if not any(st["by"]):
                        st["by"][rng.randrange(3)] = rng.randint(1, 12) / 4.0
                elif d == "mirror":
                    st["axis"] = rng.randrange(3)
                elif d == "scale":
                    st["by"] = rng.choice([[0.5] * 3, [2.0] * 3, [1.5] * 3, [2.0, 1.0, 0.5], [1.0, 1.5, 1.0]])
                elif d == "radius":
                    st["r"] = rng.choice([0.5, 0.75, 1.0, 1.5, 2.0])
                elif d == "prune":
                    st["leaf"] = rng.randrange(1000)
                elif d == "rewrite":
                    # the file is edited (a node moved, a radius changed) and read again
                    t2 = {**t, "xyz": [list(p) for p in t["xyz"]], "r": list(t["r"])}
                    c = rng.randrange(t2["n"])
                    t2["xyz"][c] = [v + rng.choice([-8, -4, -2, 2, 4, 8]) / 8.0 for v in t2["xyz"][c]]
                    c = rng.randrange(t2["n"])
                    t2["r"][c] = rng.choice([x for x in (0.5, 1.0, 1.5) if x != t2["r"][c]])
                    st["tree"] = t2
                size["prev"] = size[of] - 1 if d == "prune" else (t["n"] if d == "rewrite" else size[of])
                steps.append(st)
            out.append({"class": f"seq/{origin}/{'one-transform' if shared else 'fresh-transform'}/{len(steps)}-trees",
                        "tree": t, "res": rng.choice([0.5, 1.0, 0.75, [1.0, 0.5, 2.0], [0.5, 0.5, 1.0]]), "origin": origin, "shared": shared, "steps": steps})
        return out

    def run_seq(self, case):
        from swcgeom.core import Tree, to_subtree
        from swcgeom.images.io import read_imgs
        from swcgeom.transforms import RadiusReseter, Scale, ToImageStack, Translate

        tmp = tempfile.mkdtemp(prefix="c20q_")
        path = os.path.join(tmp, "neuron.swc")

        def load(td):
            if case["origin"] != "file":
                return gen.make_tree(td)
            with open(path, "w") as f:
                f.write("# id type x y z r pid\n")
                for i in range(td["n"]):
                    x, y, z = td["xyz"][i]
                    f.write(f"{i + 1} {td['types'][i]} {x!r} {y!r} {z!r} {td['r'][i]!r} {td['pids'][i] + 1 if td['pids'][i] >= 0 else -1}\n")
            return Tree.from_swc(path)

        def derive(st, first, prev):
            d = st["derive"]
            if d == "load":
                return load(case["tree"])
            if d == "rewrite":
                return load(st["tree"])
            t = first if st["of"] == "first" else prev
            if d == "same":
                return t
            if d == "translate":
                return Translate(*st["by"])(t)
            if d == "mirror":
                return Scale(*[-1.0 if i == st["axis"] else 1.0 for i in range(3)], center="root")(t)
            if d == "scale":
                return Scale(*st["by"], center="root")(t)
            if d == "radius":
                return RadiusReseter(st["r"])(t)
            if d == "prune":
                ids, pid = [int(v) for v in t.id()], [int(v) for v in t.pid()]
                leaves = [i for i in ids if i not in pid and pid[ids.index(i)] != -1]
                return to_subtree(t, [leaves[st["leaf"] % len(leaves)]])
            raise ValueError(d)

        try:
            shared = ToImageStack(case["res"]) if case["shared"] else None
            first = prev = None
            out = []
            for i, st in enumerate(case["steps"]):
                with warnings.catch_warnings():
                    warnings.simplefilter("ignore")
                    try:
                        t = derive(st, first, prev)
                        ids = [int(v) for v in t.id()]
                        geom = {"xyz": np.asarray(t.xyz(), dtype=np.float64).tolist(), "r": np.asarray(t.r(), dtype=np.float64).tolist(),
                                "pids": [ids.index(int(p)) if int(p) != -1 else -1 for p in t.pid()], "has_source": bool(t.source)}
                    except Exception as e:  # noqa: BLE001 - preparing the input is not what C20 speaks about: the sequence ends here
                        out.append({"setup_exc": type(e).__name__, "msg": str(e)[:200]})
                        break
                    first = t if first is None else first
                    prev = t
                    r = {"geom": geom}
                    try:
                        tr = shared if shared is not None else ToImageStack(case["res"])
                        if st["via"] == "call":
                            img = tr(t)
                        elif st["via"] == "transform":
                            img = np.stack(list(tr.transform(t, verbose=False)), axis=0)
                        else:
                            fn = os.path.join(tmp, f"r{i}.tif")
                            tr.transform_and_save(fn, t, verbose=False)
                            try:
                                back = np.asarray(read_imgs(fn, dtype=np.uint8).get_full())
                            except Exception as e:  # noqa: BLE001 - the oracle decides
                                r["saved_exc"] = {"exc": type(e).__name__, "msg": str(e)[:200]}
                                back = None
                            if back is not None:
                                r["saved_shape"] = list(back.shape)
                                img = np.moveaxis(back[..., 0], 2, 0) if back.ndim == 4 else None      # (X, Y, Z, C) -> (Z, X, Y)
                            else:
                                img = None
                        if img is not None:
                            img = np.asarray(img)
                            r.update({"shape": list(img.shape), "lit": np.argwhere(img > 0).tolist(), "values": sorted(set(int(v) for v in np.unique(img)))})
                    except Exception as e:  # noqa: BLE001 - the oracle decides
                        r.update({"exc": type(e).__name__, "msg": str(e)[:200]})
                    out.append(r)
            return {"steps": out}
        finally:
            shutil.rmtree(tmp, ignore_errors=True)

    def run(self, case):
        from swcgeom.transforms import ToImageStack

        import swcgeom.transforms.image_stack as mod

        if "steps" in case:
            return self.run_seq(case)
        td = self.tree_of(case)
        long = "long_path" in case
        t = gen.make_tree(td)
        # record which solid the scene builder creates for each edge (wrapping the constructors it looks up in its own module)
        solids, samplers = [], []
        saved = {k: getattr(mod, k) for k in ("Sphere", "RoundCone", "RangeSampler") if hasattr(mod, k)}

        def wrap(kind, ctor):
            def make(*a):
                (samplers if kind == "RangeSampler" else solids).append(
                    [kind] + [[float(v) for v in x] if isinstance(x, (tuple, list)) else float(x) for x in a])
                return ctor(*a)
            return make

        try:
            for k, ctor in saved.items():
                setattr(mod, k, wrap(k, ctor))
            img = ToImageStack(case["res"])(t)
        finally:
            for k, ctor in saved.items():
                setattr(mod, k, ctor)
        res = {"shape": list(img.shape), "lit": np.argwhere(img > 0).tolist(), "values": sorted(set(int(v) for v in np.unique(img))), "solids": solids, "samplers": samplers}
        if long:
            # thousands of edges: the constructor calls are summarised (how many solids, for how many edges)
            res.update({"solids": [], "n_solids": len(solids), "n_edges": td["n"] - 1})
        if img.size and (case["save"] if long else td["n"] % 2 == 0):
            # the same raster written slice by slice to a TIFF and read back through the image-stack reader: (Z, X, Y) ↔ (X, Y, Z, C)
            # (a raster of ONE z plane is written as a single 2-D page which read_imgs refuses: known finding `raster-file-single-plane-raises`)
            import tempfile, shutil, os
            from swcgeom.images.io import read_imgs

            tmp = tempfile.mkdtemp(prefix="c20r_")
            try:
                fn = os.path.join(tmp, "r.tif")
                ToImageStack(case["res"]).transform_and_save(fn, t, verbose=False)
                try:
                    back = np.asarray(read_imgs(fn, dtype=np.uint8).get_full())
                    res["saved"] = {"shape": list(back.shape), "same": bool(back.shape == (img.shape[1], img.shape[2], img.shape[0], 1)
                                                                              and np.array_equal(back[..., 0], np.moveaxis(img, 0, 2)))}
                except Exception as e:  # noqa: BLE001 - the oracle decides
                    res["saved"] = {"exc": type(e).__name__, "msg": str(e)[:200]}
            finally:
                shutil.rmtree(tmp, ignore_errors=True)
        return res

    def lines(self, case, res):
        if "exc" in res or "steps" in case:
            return []
        t = self.tree_of(case)
        rs = case["res"] if isinstance(case["res"], list) else [case["res"]] * 3
        xyz = np.array(t["xyz"], dtype=np.float32); r = np.array(t["r"], dtype=np.float32).reshape(-1, 1)
        edge_lines = []
        # the solid chosen per edge: model decision on the float32 values the code sees vs the constructor calls recorded in-process
        F = lambda v: Fraction(float(v))
        made = set()
        for sld in res.get("solids", []):
            if sld[0] == "Sphere":
                made.add("ball " + ",".join(str(F(np.float32(v))) for v in sld[1] + [sld[2]]))
            else:
                made.add("cone " + ",".join(str(F(np.float32(v))) for v in sld[1] + sld[2] + [sld[3], sld[4]]))
        for c, par in enumerate(t["pids"]):
            if par < 0:
                continue
            a, b, ra, rb = xyz[par], xyz[c], r[par][0], r[c][0]
            d2 = sum((F(a[i]) - F(b[i])) ** 2 for i in range(3)); dr2 = (F(ra) - F(rb)) ** 2
            if 0 < abs(d2 - dr2) <= Fraction(1, 10**5):
                continue   # float32 norm may round either way at the boundary
            cone = "cone " + ",".join(str(F(v)) for v in list(a) + list(b) + [ra, rb])
            edge_lines.append((f"imgedge a={','.join(str(F(v)) for v in a)} b={','.join(str(F(v)) for v in b)} ra={F(ra)} rb={F(rb)}",
                               (lambda out, cone=cone, made=made: (cone if out == "cone" else out) in made)))
        lo = np.floor(np.min(xyz - r, axis=0)); hi = np.ceil(np.max(xyz + r, axis=0))
        out = []
        # shape is (Z, X, Y)
        for ax, dim in ((0, 1), (1, 2), (2, 0)):
            n_expected = res["shape"][dim]
            centres = [float(lo[ax]) + rs[ax] / 2 + i * rs[ax] for i in range(n_expected)]
            out.append((f"imggrid lo={Fraction(float(lo[ax]))} hi={Fraction(float(hi[ax]))} res={Fraction(rs[ax])}",
                        ",".join(str(Fraction(c)) for c in centres)))
        if "long_path" in case:
            return out                                  # the voxel grid; the per-edge lines are for trees of a few nodes
        return out + edge_lines + self.gen_lines(t, rs, xyz, r, res)

    def gen_lines(self, t, rs, xyz, r, res):
        """the GENERATED `_get_scene` / `transform` / `_get_samplers` (Gen/AlgoRaster.lean, run at Rat on the float32 values the code sees) against the
        constructor calls recorded in-process: the solids in the order they are added (exact), the samplers (box corners exact where the float32
        bounding box is exact; slice positions up to the float32 accumulation of `z += stride[2]`)"""
        F = lambda v: Fraction(float(v))
        n = t["n"]
        pids = t["pids"]
        rr = r[:, 0]
        # the distance handed to the comparison: what `np.linalg.norm(c.xyz() - n.xyz())` returns on the float32 rows
        d = [F(0) if pids[c] < 0 else F(np.linalg.norm(xyz[c] - xyz[pids[c]])) for c in range(n)]
        if any(pids[c] >= 0 and F(abs(rr[pids[c]] - rr[c])) != abs(F(rr[pids[c]]) - F(rr[c])) for c in range(n)):
            return []                                   # a float32 radius difference that is not exact: the comparison is outside the exact model
        col = lambda j: ",".join(str(F(xyz[i][j])) for i in range(n))
        a = (f"pids={gen.ints(pids)} x={col(0)} y={col(1)} z={col(2)} r={','.join(str(F(v)) for v in rr)} d={','.join(str(v) for v in d)}")
        out = []
        if "solids" in res:
            want = " | ".join(("ball " + ",".join(str(F(v)) for v in s[1] + [s[2]])) if s[0] == "Sphere"
                              else ("cone " + ",".join(str(F(v)) for v in s[1] + s[2] + [s[3], s[4]])) for s in res["solids"])
            out.append(("gscene " + a, want))
        if res.get("samplers"):
            rs32 = [np.float32(v) for v in rs]
            exact_box = all(F(np.float32(xyz[i][j]) - rr[i]) == F(xyz[i][j]) - F(rr[i]) and F(np.float32(xyz[i][j]) + rr[i]) == F(xyz[i][j]) + F(rr[i])
                            for i in range(n) for j in range(3))
            smp = res["samplers"]
            nsolid = len(res.get("solids", []))

            def same(outp, smp=smp, exact_box=exact_box, nsolid=nsolid):
                parts = outp.split(" # ")
                if len(parts) != 3 or not exact_box:
                    return len(parts) == 3 or not exact_box
                got = [[[float(Fraction(x)) for x in tri.split(",")] for tri in s_.split(";")] for s_ in parts[1].split(" | ")] if parts[1] else []
                if int(parts[0]) != len(smp) or len(got) != len(smp) or parts[2] != ",".join([str(nsolid)] * len(smp)):
                    return False
                return all(abs(g - w) <= 1e-4 * (1 + abs(w)) for gs, ws in zip(got, smp) for gt, wt in zip(gs, ws[1:]) for g, w in zip(gt, wt))
            # a slice boundary within float32 accumulation error of the top of the box may fall either way: such cases are left out
            lo = np.floor(np.min(xyz - r, axis=0)); hi = np.ceil(np.max(xyz + r, axis=0))
            k = (float(hi[2]) - (float(lo[2]) + float(rs32[2]) / 2)) / float(rs32[2])
            if abs(k - round(k)) > 1e-3:
                out.append((f"graster {a} res={','.join(str(F(v)) for v in rs32)}", same))
                want = " | ".join(";".join(",".join(str(F(x)) for x in tri) for tri in s_[1:]) for s_ in smp)
                if all(F(v).denominator <= 16 for v in rs32):
                    # dyadic resolution: every float operation of `_get_samplers` is exact, the samplers agree exactly (eps is the float 1e-6, the
                    # model's the decimal 10^-6: the upper z corner is compared up to that rounding and the float32 rounding of the difference)
                    def same_s(outp, smp=smp):
                        got = [[[Fraction(x) for x in tri.split(",")] for tri in s_.split(";")] for s_ in outp.split(" | ")] if outp not in ("", "E") else []
                        return len(got) == len(smp) and all(
                            (g == F(w)) if not (a_ == 1 and b_ == 2) else abs(float(g) - w) <= 1e-6 * (1 + abs(w))
                            for gs, ws in zip(got, smp) for a_, (gt, wt) in enumerate(zip(gs, ws[1:])) for b_, (g, w) in enumerate(zip(gt, wt)))
                    out.append((f"gsamplers min={','.join(str(F(v)) for v in lo)} max={','.join(str(F(v)) for v in hi)} res={','.join(str(F(v)) for v in rs32)}", same_s))
        return out

    def oracle(self, case, res):
        try:
            return self._oracle_seq(case, res) if "steps" in case else self._oracle(case, res)
        except Exception as e:  # noqa: BLE001 - a result the oracle cannot even read is not a raster of the tree
            return [("raster-malformed-result", f"{case.get('class')}: the result could not be judged ({type(e).__name__}: {str(e)[:200]}): {str(res)[:300]}")]

    def _oracle_seq(self, case, res):
        if "exc" in res:
            return [("raster-raises", f"{case['class']}: {res['exc']}: {res.get('msg')}")]
        rs = [float(v) for v in (case["res"] if isinstance(case["res"], list) else [case["res"]] * 3)]
        out = []
        steps = res.get("steps") or []
        if len(steps) != len(case["steps"]) and not any("setup_exc" in r for r in steps):
            out.append(("raster-malformed-result", f"{case['class']}: {len(case['steps'])} rasterisations asked, {len(steps)} results"))
        for i, (st, r) in enumerate(zip(case["steps"], steps)):
            if "setup_exc" in r:
                break
            g = r["geom"]
            xyz = np.array(g["xyz"], dtype=np.float64).reshape(-1, 3); rad = np.array(g["r"], dtype=np.float64)
            what = (f"rasterisation #{i + 1} of the sequence ({st['derive']}, via {st['via']}, {'the same' if case['shared'] else 'a new'} ToImageStack({case['res']}), "
                    f"tree {'with' if g.get('has_source') else 'without'} source; nodes {g['xyz']}, radii {g['r']}, parents {g['pids']})")
            lo, hi, want = bbox_shape(xyz, rad, rs)
            if "exc" in r:
                if want[0] == 0 and r["exc"] == "ValueError" and "at least one array to stack" in str(r.get("msg")):
                    out.append(("raster-empty-z-grid-raises", f"{what}: resolution {rs} leaves no z plane in the bounding box {lo}..{hi}: raises {r['exc']}: {r.get('msg')} instead of returning a (0, X, Y) stack"))
                else:
                    out.append(("raster-raises", f"{what}: {r['exc']}: {r.get('msg')}"))
                continue
            if "saved_exc" in r:
                sv = r["saved_exc"]
                if want[0] == 1 and sv["exc"] == "AssertionError" and "Should be shape" in str(sv["msg"]):
                    out.append(("raster-file-single-plane-raises", f"{what}: a raster of ONE z plane written by transform_and_save cannot be read back: read_imgs raises {sv['exc']}: {sv['msg']}"))
                else:
                    out.append(("raster-saved-raises", f"{what}: transform_and_save + read_imgs raised {sv['exc']}: {sv['msg']}"))
                continue
            if "shape" not in r:
                out.append(("raster-saved-differs", f"{what}: transform_and_save + read_imgs gives an array of shape {r.get('saved_shape')}, not (X,Y,Z,1)"))
                continue
            if "saved_shape" in r and (len(r["saved_shape"]) != 4 or r["saved_shape"][3] != 1):
                out.append(("raster-saved-differs", f"{what}: transform_and_save + read_imgs gives an array of shape {r['saved_shape']}, not (X,Y,Z,1)"))
                continue
            out.extend((k, f"{what}: {m}") for k, m in judge_raster(xyz, rad, g["pids"], rs, r["shape"], r["lit"]))
        return out

    def _oracle(self, case, res):
        t = self.tree_of(case)
        rs = case["res"] if isinstance(case["res"], list) else [case["res"]] * 3
        xyz = np.array(t["xyz"], dtype=np.float64); r = np.array(t["r"], dtype=np.float64)
        lo = np.floor(np.min(xyz - r.reshape(-1, 1), axis=0)); hi = np.ceil(np.max(xyz + r.reshape(-1, 1), axis=0))
        want_shape = [max(0, int(math.ceil((hi[2] - lo[2] - rs[2] / 2) / rs[2]))), max(0, int(math.ceil((hi[0] - lo[0] - rs[0] / 2) / rs[0]))),
                      max(0, int(math.ceil((hi[1] - lo[1] - rs[1] / 2) / rs[1])))]
        if "exc" in res:
            if want_shape[0] == 0 and res["exc"] == "ValueError" and "at least one array to stack" in str(res.get("msg")):
                # no voxel centre fits between the bottom and the top of the bounding box: there is no plane to stack
                return [("raster-empty-z-grid-raises", f"resolution {rs} leaves no z plane in the bounding box {lo}..{hi}: ToImageStack.__call__ raises {res['exc']}: {res.get('msg')} instead of returning a (0, X, Y) stack")]
            if "long_path" in case:
                return [("raster-raises", f"{case['class']}: a tree of {t['n']} nodes with a root-to-tip path of {case['long_path']['depth']} nodes "
                                          f"(long_path_tree({case['long_path']})), resolution {rs}: {res['exc']}: {res.get('msg')}")]
            return [("raster-raises", f"{res['exc']}: {res.get('msg')}")]
        out = []
        if "saved" in res and "exc" in res["saved"]:
            sv = res["saved"]
            if res["shape"][0] == 1 and sv["exc"] == "AssertionError" and "Should be shape" in sv["msg"]:
                out.append(("raster-file-single-plane-raises", f"a raster of ONE z plane (Z,X,Y)={res['shape']} written by transform_and_save cannot be read back: "
                                                               f"read_imgs raises {sv['exc']}: {sv['msg']} (the single slice is stored as a 2-D page)"))
            else:
                out.append(("raster-saved-raises", f"transform_and_save + read_imgs of a (Z,X,Y)={res['shape']} raster raised {sv['exc']}: {sv['msg']}"))
        elif "saved" in res and not res["saved"]["same"]:
            out.append(("raster-saved-differs", f"transform_and_save + read_imgs gives a stack of shape {res['saved']['shape']} (X,Y,Z,C) that is not the rasterised "
                                                 f"(Z,X,Y) = {res['shape']} stack with Z moved to the third axis"))
        if res["shape"] != want_shape:
            out.append(("raster-shape", f"stack shape (Z,X,Y)={res['shape']}, the bounding box {lo}..{hi} at resolution {rs} needs {want_shape}"))
            return out
        Z, X, Y = res["shape"]
        if Z * X * Y > 500 or "long_path" in case:
            # the same judgement, all voxels at once (large boxes)
            return out + judge_raster(xyz, r, t["pids"], [float(v) for v in rs], res["shape"], res["lit"], samples=None if "long_path" in case else 41)
        lit = {tuple(v) for v in res["lit"]}
        margin = 0.08
        bad = None
        for k in range(Z):
            for i in range(X):
                for j in range(Y):
                    p = np.array([lo[0] + (i + 0.5) * rs[0], lo[1] + (j + 0.5) * rs[1], lo[2] + (k + 0.5) * rs[2]])
                    s = 1
                    for c, par in enumerate(t["pids"]):
                        if par < 0:
                            continue
                        v = in_hull(p, xyz[par], xyz[c], r[par], r[c], margin)
                        if v == -1:
                            s = -1; break
                        if v == 0:
                            s = 0
                    if s == -1 and (k, i, j) not in lit:
                        bad = ("raster-unlit-inside", f"voxel (z,x,y)=({k},{i},{j}) centre {p.tolist()} is inside a round cone but not lit")
                    if s == 1 and (k, i, j) in lit:
                        bad = ("raster-lit-outside", f"voxel (z,x,y)=({k},{i},{j}) centre {p.tolist()} is lit but outside every round cone")
                    if bad:
                        break
                if bad:
                    break
            if bad:
                break
        if bad:
            out.append(bad)
        return out

    def nontrivial(self, case, res):
        return True


# ----------------------------------------------------------------------------- the GENERATED image I/O logic (Gen/AlgoImgIo.lean) against the real classes
_DT = {"u8": np.uint8, "u16": np.uint16, "u32": np.uint32, "i16": np.int16, "f32": np.float32, "f64": np.float64}
_DTN = {np.dtype(v).name: k for k, v in _DT.items()}


def _arr_text(b):
    """`shape|dtype|values` of an array, values as exact fractions (C order)"""
    b = np.asarray(b)
    vals = [str(Fraction(int(v))) if b.dtype.kind in "ui" else str(Fraction(float(v))) for v in b.flatten().tolist()]
    return f"{gen.ints(b.shape)}|{_DTN.get(b.dtype.name, b.dtype.name)}|{','.join(vals)}"


def _same_arr(got, want, exact):
    """a driver array text against the real one: exact, or (a float result of a uint -> float rescaling) up to float rounding"""
    if exact or got == want:
        return got == want
    g, w = got.split("|"), want.split("|")
    if len(g) != 3 or g[:2] != w[:2]:
        return False
    gv, wv = g[2].split(","), w[2].split(",")
    return len(gv) == len(wv) and all(abs(float(Fraction(x)) - float(Fraction(y))) <= 1e-6 * (1 + abs(float(Fraction(y)))) for x, y in zip(gv, wv))


class ImgIoGen(Suite):
    """`save_tiff`, `TiffImageStack.__init__`, `NDArrayImageStack.__init__ / __getitem__` as TRANSLATED (driver ops `gimg*`) against the real
    functions on small random arrays: what is handed to `tifffile.imwrite` (captured in-process), what the constructor makes of an array and an axes
    string (a stand-in `tifffile.TiffFile` hands them over), a real save / `read_imgs` round trip through a file, and element access"""
    name = "c20.imgio-gen"
    case_timeout = 60

    def cases(self, rng, tier, widen):
        n = 36 if tier == "thorough" or widen else 14
        out = []
        stems = ["a", "x.y", ".hid", "dir.d/z", "d/..x", "s.tif", "", "a.", "..", "p/q.r/s"]
        exts = [".tif", ".tiff", ".nrrd", ".v3dpbd", ".v3draw", ".npy", ".TIF", ".raw", "", ".tif.bak", ".npy/", ".swc"]
        for i in range(n):
            out.append({"op": "read", "fname": rng.choice(stems) + rng.choice(exts), "found": rng.random() < 0.85, "root": rng.random() < 0.4,
                        "rd": rng.choice([None, None, "u8", "f32", "u16"]), "class": "gen/read"})
        for i in range(n):
            op = ["save", "load", "io", "get", "nd"][i % 5]
            kind = rng.choice(["u8", "u16", "f32"])
            rank = rng.choice([3, 4, 4, 4]) if op != "get" else 4
            if rng.random() < 0.12 and op in ("save", "nd", "load"):
                rank = rng.choice([2, 5])
            shape = [rng.randint(1, 3) for _ in range(rank)]
            if rank == 4 and op in ("save", "io"):
                shape[3] = rng.choice([1, 3, 3, 2] if op == "save" else [1, 3])
            c = {"op": op, "kind": kind, "shape": shape, "seed": rng.randrange(10**6), "to": rng.choice([None, None, "u8", "u16", "f32"]),
                 "rd": rng.choice([None, "f32", "u8", "u16"]), "class": f"gen/{op}/{kind}"}
            if op == "load":
                pool = ["ZXYC", "XYZC", "CZYX", "ZYXC", "XYZ", "ZXY", "ZYX", "IXY", "QXYZ", "ZXYCC", "TZXY", "YX", ""]
                c["axes"] = rng.choice([a for a in pool if len(a) == rank] + pool[:1]) if rng.random() < 0.8 else rng.choice(pool)
            if op == "get":
                c["key"] = [rng.randint(-d - 1, d) for d in shape]
            out.append(c)
        return out

    @staticmethod
    def array(case):
        r = np.random.RandomState(case["seed"])
        if case["kind"] == "f32":
            return (r.randint(0, 257, size=case["shape"]) / 256.0).astype(np.float32)        # dyadic: every product with 255 / 65535 is exact
        return r.randint(0, 256 if case["kind"] == "u8" else 65536, size=case["shape"]).astype(_DT[case["kind"]])

    def run(self, case):
        import tifffile
        from swcgeom.images import io
        if case["op"] == "read":
            return self.run_read(case, io)
        a = self.array(case)
        to = None if case["to"] is None else _DT[case["to"]]
        rd = None if case["rd"] is None else _DT[case["rd"]]
        try:
            with warnings.catch_warnings(record=True) as ws:
                warnings.simplefilter("always")
                if case["op"] == "save":
                    got = {}
                    orig = tifffile.imwrite
                    tifffile.imwrite = lambda fname, data, **kw: got.update(data=np.array(data), kw=kw)
                    try:
                        io.save_tiff(a.copy(), "unused.tif", dtype=to)
                    finally:
                        tifffile.imwrite = orig
                    return {"arr": _arr_text(got["data"]), "axes": got["kw"]["metadata"]["axes"], "photometric": got["kw"]["photometric"]}
                if case["op"] == "nd":
                    return {"arr": _arr_text(io.NDArrayImageStack(a.copy(), dtype=to).get_full())}
                if case["op"] == "load":
                    class _S:
                        axes = case["axes"]
                        def asarray(self_):
                            return a.copy()
                    class _F:
                        series = [_S()]
                        def __init__(self_, *a_, **k_): pass
                        def __enter__(self_): return self_
                        def __exit__(self_, *a_): return False
                    orig = tifffile.TiffFile
                    tifffile.TiffFile = _F
                    try:
                        st = io.TiffImageStack("unused.tif", dtype=rd)
                    finally:
                        tifffile.TiffFile = orig
                    return {"arr": _arr_text(st.get_full()), "warnings": len([w for w in ws if "reset unexcept axes" in str(w.message)])}
                if case["op"] == "io":
                    tmp = tempfile.mkdtemp(prefix="c20g_")
                    try:
                        fn = os.path.join(tmp, "s.tif")
                        io.save_tiff(a.copy(), fn, dtype=to)
                        st = io.read_imgs(fn, dtype=rd)
                        return {"arr": _arr_text(st.get_full()), "warnings": len([w for w in ws if "reset unexcept axes" in str(w.message)])}
                    finally:
                        shutil.rmtree(tmp, ignore_errors=True)
                v = io.NDArrayImageStack(a.copy())[tuple(case["key"])]
                return {"val": str(Fraction(int(v))) if a.dtype.kind in "ui" else str(Fraction(float(v)))}
        except IndexError:
            return {"exc": "IndexError"}
        except (AssertionError, ValueError, KeyError) as e:
            return {"exc": type(e).__name__}

    @staticmethod
    def run_read(case, io):
        """the real `read_imgs` with the reader classes replaced by recorders (which class, which keyword arguments) and the file system answers
        (`os.path.exists`, `TeraflyImageStack.is_root`) given by the case"""
        names = ["TiffImageStack", "NrrdImageStack", "V3dpbdImageStack", "V3drawImageStack", "NDArrayImageStack", "TeraflyImageStack"]
        saved = {k: getattr(io, k) for k in names}
        saved_exists, saved_load = os.path.exists, np.load

        def recorder(name):
            class R:
                def __init__(self, *a, **kw):
                    self.rec = (name, kw)
                is_root = staticmethod(lambda root: case["root"])
            R.__name__ = name
            return R
        try:
            for k in names:
                setattr(io, k, recorder(k))
            os.path.exists = lambda f: case["found"]
            np.load = lambda f: None
            try:
                st = io.read_imgs(case["fname"], **({} if case["rd"] is None else {"dtype": _DT[case["rd"]]}))
            except ValueError:
                return {"exc": "ValueError"}
            name, kw = st.rec
            return {"cls": name, "dtype": _DTN[np.dtype(kw["dtype"]).name], "extra": sorted(set(kw) - {"dtype"})}
        finally:
            os.path.exists, np.load = saved_exists, saved_load
            for k, v in saved.items():
                setattr(io, k, v)

    def lines(self, case, res):
        if case["op"] == "read":
            line = f"gimgread fname={case['fname']} found={int(case['found'])} root={int(case['root'])} dt={case['rd'] or 'none'}"
            return [(line, "E" if "exc" in res else f"{res['cls']};{res['dtype']}")]
        a = self.array(case)
        vals = [str(Fraction(int(v))) if a.dtype.kind in "ui" else str(Fraction(float(v))) for v in a.flatten().tolist()]
        base = f"shape={gen.ints(case['shape'])} dt={case['kind']} data={','.join(vals)}"
        to, rd = case["to"] or "none", case["rd"] or "none"
        # a uint -> float rescaling multiplies by the float 1/UINT_MAX: compared up to float rounding; everything else is exact
        if case["op"] == "get":
            return [(f"gimgget {base} key={gen.ints(case['key'])}", "E" if "exc" in res else res["val"])]
        if "exc" in res:
            line = {"save": f"gimgsave {base} to={to}", "nd": f"gimgnd {base} to={to}", "load": f"gimgload {base} axes={case.get('axes')} to={rd}",
                    "io": f"gimgio {base} to={to} rd={rd}"}[case["op"]]
            return [(line, "E")]
        if case["op"] == "save":
            exact = not (case["kind"].startswith("u") and (case["to"] or "").startswith("f"))
            want = res["arr"]
            return [(f"gimgsave {base} to={to}", lambda o, want=want, exact=exact, res=res: len(o.split(";")) == 3 and _same_arr(o.split(";")[0], want, exact)
                     and o.split(";")[1:] == [res["axes"], res["photometric"]])]
        if case["op"] == "nd":
            exact = not (case["kind"].startswith("u") and (case["to"] or "").startswith("f"))
            return [(f"gimgnd {base} to={to}", lambda o, want=res["arr"], exact=exact: _same_arr(o, want, exact))]
        stored = case["to"] or case["kind"] if case["op"] == "io" else case["kind"]
        exact = not (stored.startswith("u") and (case["rd"] or "").startswith("f")) and not (
            case["op"] == "io" and case["kind"].startswith("u") and (case["to"] or "").startswith("f"))
        wtxt = ",".join(["0"] * res["warnings"])
        line = f"gimgload {base} axes={case['axes']} to={rd}" if case["op"] == "load" else f"gimgio {base} to={to} rd={rd}"
        return [(line, lambda o, want=res["arr"], exact=exact, wtxt=wtxt: len(o.split(";")) == 2 and o.split(";")[0] == wtxt
                 and _same_arr(o.split(";")[1], want, exact))]

    def nontrivial(self, case, res):
        return "exc" not in res

# ----------------------------------------------------------------------------- Gen/AlgoImgIo2.lean (harness/algo_specs/18c_imgio2.py) against the real code
class ImgIo2Gen(Suite):
    """`ToImageStack.__call__ / save_tif / transform_and_save`, the frame conversion of `transform`, `NrrdImageStack` / `V3d*ImageStack.__init__`,
    `ImageStack.get_full`, `GrayImageStack.get_full` as TRANSLATED (driver ops of Model/AlgoRunImgIo2.lean) against the real code: `np.stack` of given
    frames, the `TiffWriter.write` calls (recorded in-process), a REAL transform_and_save -> file -> read_imgs round trip against generated
    save_tif ∘ codec model ∘ generated TiffImageStack.__init__ (one-plane and empty files included), the constructors with the codec replaced by a
    stand-in, and a real rasterisation whose sampler answers are recorded and handed to the generated `transform`"""
    name = "c20.imgio2-gen"
    case_timeout = 60
    OPS = ["call", "savew", "saveio", "nrrd", "v3d", "v3draw", "v3dpbd", "full", "gray", "frame", "grayget", "init", "getk", "gets"]

    def cases(self, rng, tier, widen):
        n = 70 if tier == "thorough" or widen else 28
        out = []
        for i in range(n):
            op = self.OPS[i % len(self.OPS)]
            c = {"op": op, "seed": rng.randrange(10**6), "class": f"gen2/{op}"}
            if op in ("call", "savew", "saveio"):
                c.update(kind="u8", shape=[rng.choice([0, 1, 2, 2, 3, 4]) if op != "savew" else rng.randint(1, 4), rng.randint(1, 3), rng.randint(1, 3)],
                         rag=op == "call" and rng.random() < 0.25, rd=rng.choice([None, "u8", "f32", "u16"]))
                if c["rag"] and c["shape"][0] < 2:
                    c["shape"][0] = 2
            elif op in ("nrrd", "v3d", "v3draw", "v3dpbd"):
                rank = rng.choice([3, 4, 4, 2, 5]) if rng.random() < 0.3 else rng.choice([3, 4])
                c.update(kind=rng.choice(["u8", "u16", "f32"]), shape=[rng.randint(1, 3) for _ in range(rank)], to=rng.choice([None, "u8", "u16", "f32"]))
            elif op == "init":
                q = lambda: rng.choice([1, 2, 3, 0.5, 0.75, 1.25, 4])
                c["res"] = q() if rng.random() < 0.4 else [q() for _ in range(rng.choice([3, 3, 3, 1, 2, 4, 0]))]
            elif op in ("getk", "gets"):
                rank = rng.choice([4, 4, 3, 2])
                c.update(kind=rng.choice(["u8", "f32"]), shape=[rng.randint(1, 4) for _ in range(rank)])
                k = rng.randint(1, min(rank, 3 if op == "getk" else 4) + (1 if rng.random() < 0.1 and rank < (3 if op == "getk" else 4) else 0))
                if op == "getk":
                    c["key"] = [rng.randint(-d - 1, d) for d in (c["shape"] + [2])[:k]]
                else:
                    q = lambda d: rng.choice([None, None, rng.randint(-d - 2, d + 2)])
                    c["key"] = [[q(d), q(d), rng.choice([None, None, 1, 2, -1, -2, 3, -3, 0] if rng.random() < 0.7 else [None])] for d in (c["shape"] + [2])[:k]]
            elif op == "grayget":
                c.update(kind=rng.choice(["u8", "f32"]), shape=[rng.randint(1, 3) for _ in range(3)] + [1])
                c["key"] = [rng.randint(-d - 1, d) for d in c["shape"][:3]]
            elif op in ("full", "gray"):
                rank = rng.choice([4, 4, 4, 3, 5]) if op == "gray" else rng.choice([4, 4, 3, 5])
                c.update(kind=rng.choice(["u8", "f32"]), shape=[rng.randint(1, 3) for _ in range(rank)])
                if op == "gray" and rng.random() < 0.15:
                    c["shape"][-1] = 0
            else:
                t = gen.tree_case(rng, rng.choice([2, 3]), "chain", numbering="sorted", coords="lattice")
                t["xyz"] = [[v / 4.0 for v in p] for p in t["xyz"]]
                t["r"] = [rng.choice([0.5, 1.0]) for _ in t["r"]]
                c.update(tree=t, res=rng.choice([1.0, 0.5, [1.0, 0.5, 2.0]]))
            out.append(c)
        return out

    @staticmethod
    def array(case):
        r = np.random.RandomState(case["seed"])
        if case["kind"] == "f32":
            return (r.randint(0, 257, size=case["shape"]) / 256.0).astype(np.float32)
        return r.randint(0, 256 if case["kind"] == "u8" else 65536, size=case["shape"]).astype(_DT[case["kind"]])

    def frames(self, case):
        a = self.array(case)
        fs = [a[i].copy() for i in range(a.shape[0])]
        if case.get("rag"):
            fs[-1] = fs[-1].reshape(fs[-1].shape + (1,))
        return fs

    def run(self, case):
        import nrrd
        import tifffile
        from swcgeom.images import io
        from swcgeom.transforms import ToImageStack
        import swcgeom.transforms.image_stack as mod
        import logging
        logging.getLogger("tifffile").setLevel(logging.CRITICAL)      # the one-page / empty files are meant
        op = case["op"]
        try:
            with warnings.catch_warnings(record=True) as ws:
                warnings.simplefilter("always")
                if op in ("call", "savew", "saveio"):
                    tis = ToImageStack(1)
                    fs = self.frames(case)
                    tis.transform = lambda x, verbose=True, **kw: iter(fs)
                    if op == "call":
                        return {"arr": _arr_text(tis(None))}
                    if op == "savew":
                        rec = []

                        class W:
                            def __init__(self_, *a_, **k_): pass
                            def __enter__(self_): return self_
                            def __exit__(self_, *a_): return False
                            def write(self_, frame, **kw): rec.append((np.array(frame), kw))
                        orig = tifffile.TiffWriter
                        tifffile.TiffWriter = W
                        try:
                            tis.transform_and_save("unused.tif", None, verbose=False)
                        finally:
                            tifffile.TiffWriter = orig
                        return {"writes": [f"{_arr_text(f)};{int(kw['contiguous'] is True)};{kw['photometric']};{kw['metadata']['axes']}" for f, kw in rec],
                                "keys": sorted(set(k for _, kw in rec for k in kw))}
                    tmp = tempfile.mkdtemp(prefix="c20h_")
                    try:
                        fn = os.path.join(tmp, "s.tif")
                        tis.transform_and_save(fn, None, verbose=False)
                        try:
                            st = io.read_imgs(fn, dtype=None if case["rd"] is None else _DT[case["rd"]])
                        except Exception as e:  # noqa: BLE001 - an empty / one-page file: whatever the reader raises
                            return {"exc": type(e).__name__}
                        return {"arr": _arr_text(st.get_full()), "warnings": len([w for w in ws if "reset unexcept axes" in str(w.message)])}
                    finally:
                        shutil.rmtree(tmp, ignore_errors=True)
                if op == "init":
                    return {"res": [str(Fraction(float(v))) for v in ToImageStack(case["res"]).resolution.tolist()]}
                a = None if op == "frame" else self.array(case)
                if op in ("nrrd", "v3d", "v3draw", "v3dpbd"):
                    to = None if case["to"] is None else _DT[case["to"]]

                    class L:
                        def load(self_, fname): return a.copy()
                    saved = (nrrd.read, io.Raw, io.PBD)
                    nrrd.read = lambda fname, **kw: (a.copy(), {"k": 1})
                    io.Raw = io.PBD = L
                    try:
                        st = {"nrrd": lambda: io.NrrdImageStack("f", dtype=to), "v3d": lambda: io.V3dImageStack("f", L, dtype=to),
                              "v3draw": lambda: io.V3drawImageStack("f", dtype=to), "v3dpbd": lambda: io.V3dpbdImageStack("f", dtype=to)}[op]()
                    finally:
                        nrrd.read, io.Raw, io.PBD = saved
                    return {"arr": _arr_text(st.get_full())}
                if op == "full":
                    st = io.NDArrayImageStack.__new__(io.NDArrayImageStack)
                    st.imgs = a.copy()                       # any rank: what `self[:, :, :, :]` does to the array
                    return {"arr": _arr_text(io.ImageStack.get_full(st))}
                if op in ("getk", "gets"):
                    st = io.NDArrayImageStack.__new__(io.NDArrayImageStack)
                    st.imgs = a.copy()
                    key = tuple(case["key"]) if op == "getk" else tuple(slice(*x) for x in case["key"])
                    return {"arr": _arr_text(st[key[0] if len(key) == 1 else key])}
                if op == "grayget":
                    try:
                        v = io.GrayImageStack(io.NDArrayImageStack(a.copy()))[tuple(case["key"])]
                    except RecursionError:
                        return {"exc": "RecursionError"}
                    return {"arr": _arr_text(v)}
                if op == "gray":
                    st = io.NDArrayImageStack.__new__(io.NDArrayImageStack)
                    st.imgs = a.copy()
                    return {"arr": _arr_text(io.GrayImageStack(st).get_full())}
                # frame: a real rasterisation, the sampler answers recorded
                voxels = []
                orig = mod.RangeSampler

                class RS:
                    def __init__(self_, *a_): self_.s = orig(*a_)
                    def sample(self_, scene):
                        v = self_.s.sample(scene); voxels.append(np.array(v)); return v
                mod.RangeSampler = RS
                try:
                    t = gen.make_tree(case["tree"])
                    img = ToImageStack(case["res"])(t)
                finally:
                    mod.RangeSampler = orig
                frames = list(img)
                return {"voxels": _arr_text(np.stack(voxels, axis=0)), "vdtype": str(voxels[0].dtype), "frames": [_arr_text(f) for f in frames], "arr": _arr_text(img)}
        except IndexError:
            return {"exc": "IndexError"}
        except (AssertionError, ValueError, KeyError) as e:
            return {"exc": type(e).__name__}

    def lines(self, case, res):
        op = case["op"]
        if op == "init":
            scalar = not isinstance(case["res"], list)
            vals = [case["res"]] if scalar else case["res"]
            return [(f"gtsinit res={','.join(str(Fraction(float(v))) for v in vals)} scalar={int(scalar)}", "E" if "exc" in res else ",".join(res["res"]))]
        if op == "frame":
            if "exc" in res:
                return []
            td = case["tree"]
            pids = td["pids"]; xyz = td["xyz"]
            d = [0.0] + [float(np.linalg.norm(np.array(xyz[c], dtype=np.float32) - np.array(xyz[pids[c]], dtype=np.float32))) for c in range(1, td["n"])]
            fr = lambda v: str(Fraction(float(v)))
            resv = case["res"] if isinstance(case["res"], list) else [case["res"]] * 3
            sh, dt, data = res["voxels"].split("|")
            line = (f"gframend pids={gen.ints(pids)} x={','.join(fr(p[0]) for p in xyz)} y={','.join(fr(p[1]) for p in xyz)} z={','.join(fr(p[2]) for p in xyz)} "
                    f"r={','.join(fr(v) for v in td['r'])} d={','.join(fr(v) for v in d)} res={','.join(fr(v) for v in resv)} shape={sh} dt=f32 data={data}")
            return [(line, " / ".join(res["frames"]) + " # " + res["arr"])]
        a = self.array(case)
        vals = [str(Fraction(int(v))) if a.dtype.kind in "ui" else str(Fraction(float(v))) for v in a.flatten().tolist()]
        base = f"shape={gen.ints(case['shape'])} dt={case['kind']} data={','.join(vals)}"
        if op == "call":
            return [(f"gtostack {base} rag={int(case['rag'])}", "E" if "exc" in res else res["arr"])]
        if op == "savew":
            if "exc" in res:
                return [(f"gsavetifw {base}", "E")]
            # the keywords of `write` the translation knows (J4) are all there are
            return [(f"gsavetifw {base}", lambda o, want=" / ".join(res["writes"]), keys=res["keys"]: o == want
                     and keys == ["contiguous", "metadata", "photometric", "resolution"])]
        if op == "saveio":
            rd = case["rd"] or "none"
            if "exc" in res:
                return [(f"gsavetifio {base} rd={rd}", "E")]
            exact = not (case["rd"] or "f32").startswith("f")
            wtxt = ",".join(["0"] * res["warnings"])
            return [(f"gsavetifio {base} rd={rd}", lambda o, want=res["arr"], exact=exact, wtxt=wtxt: len(o.split(";")) == 2 and o.split(";")[0] == wtxt
                     and _same_arr(o.split(";")[1], want, exact))]
        if op == "getk":
            # as many ints as axes: the element, shown as a 0-d array (empty shape)
            return [(f"ggetk {base} ints={gen.ints(case['key'])}", "E" if "exc" in res else (res["arr"][1:] if res["arr"].startswith("_|") else res["arr"]))]
        if op == "gets":
            sl = "/".join(":".join("n" if v is None else str(v) for v in x) for x in case["key"])
            return [(f"ggets {base} sl={sl}", "E" if "exc" in res else res["arr"])]
        if op == "grayget":
            # the method calls itself: no result at any recursion depth (a value returned by the real method disagrees with `E`)
            return [(f"ggrayget {base} key={gen.ints(case['key'])} fuel={n}", "E" if "exc" in res else res["arr"]) for n in (1, 50)]
        if op in ("full", "gray"):
            return [(f"g{op} {base}", "E" if "exc" in res else res["arr"])]
        to = case["to"] or "none"
        if "exc" in res:
            return [(f"g{op} {base} to={to}", "E")]
        exact = not (case["kind"].startswith("u") and (case["to"] or "").startswith("f"))
        return [(f"g{op} {base} to={to}", lambda o, want=res["arr"], exact=exact: _same_arr(o, want, exact))]

    def nontrivial(self, case, res):
        return "exc" not in res


SUITES = [SaveLoad(), Raster(), ImgIoGen(), ImgIo2Gen()]
TECHNIQUE = ("Lean 4 theorems about the axis bookkeeping on index tuples (load ∘ save = identity for every (X,Y,Z,C) index, with the axes string and AXES_ORDER "
             "regenerated from the source), the rescaling decision table and its exact inverse on integers, and the voxel grid over ℚ (centres at min+(i+½)·res, "
             "all inside the bounding box, none missing) + real tifffile/nrrd/npy round trips and a raster oracle away from the surface. PARTIAL: codecs and the SDF "
             "sampler are outside the model")
LEVEL_TEXT = ("Kernel-checked: for every 4-index, moving Z to the front on save and transposing by the argsort of the axis orders on load returns the original index; "
              "the rescaling factor is UINT_MAX / 1/UINT_MAX / 1 exactly in the documented cases, and uint→float→uint is the identity on exact values; voxel centres are "
              "min+(i+½)·res, lie in [min, max), and the next centre would be ≥ max. Partial: voxel values go through tifffile/nrrd/numpy and the lit/unlit decision "
              "through sdflit, which are exercised by real round trips and a geometric oracle but not modelled. "
              "For the code AS TRANSLATED from images/io.py on this run (arrays of every shape over any element type): save_tiff hands the codec a (Z,X,Y,C) array "
              "with axes 'ZXYC' (3-d input promoted to C=1, other ranks / C∉{1,3} rejected), TiffImageStack.__init__ applied to that array and string returns a stack "
              "of the original (X,Y,Z,C) shape whose [x,y,z,c] is the original [x,y,z,c] converted by the dtype rule (generated_axes_roundtrip), the same for the four "
              "axes in any of the 24 orders and for 'ZXY' raster stacks, an unusable axes string is reset with one warning, __getitem__ returns that element for "
              "every index in range (negative = from the end) and raises IndexError exactly outside, the dtype rule is Img.saveFactor / Img.loadFactor for all "
              "11×11 dtype pairs, and read_imgs dispatches on os.path.splitext exactly as the extension table says with dtype defaulting to float32.")
LEVEL_NOTE = "PARTIAL. Trusted: Lean kernel; translator for the constants; tifffile/pynrrd/np.save, sdflit sampler and RoundCone SDF are outside every theorem."
