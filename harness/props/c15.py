"""C15 — Neurolucida ASC conversion is faithful to the document."""
import io
import os
import shutil
import sys
import tempfile
from fractions import Fraction

import numpy as np

from harness.framework import Suite
from harness.swctext import Expect, cps, sci_value

PID = "C15"
TRANSLATE_ALGO = ["AlgoAsc", "AlgoAscLex"]   # Gen/AlgoAsc.lean: the token-level Parser and from_ast / walk_ast of neurolucida_asc.py, regenerated on every run
DRIVER_FILES = ["SwcVerif/Model/AlgoRunAsc.lean", "SwcVerif/Model/AlgoRunAscLex.lean"]
LEAN_MODS = ["SwcVerif.Props.C15", "SwcVerif.Props.C15Gen", "SwcVerif.Props.C15Lex"]
THEOREMS = [
    "C15.convert_faithful", "C15.rows_count", "C15.trailing_ignored", "C15.comment_skipped", "C15.color_skipped", "C15.leading_comment_skipped",
    "C15.bad_point_rejected", "C15.unbracketed_point_rejected", "C15.node_error_propagates", "C15.truncation_rejected_body", "C15.header_truncation_rejected", "C15.truncation_rejected", "C15.lex_skips_blanks", "C15.lex_structural",
    # about the definitions GENERATED from the current source (Gen/AlgoAsc.lean)
    "C15.generated_from_ast_eq_rows", "C15.generated_walk_fuel", "C15.generated_rows_ids", "C15.generated_token_protocol",
    # generated parser ∘ generated walk = the model, for every token list (Refine/AscHeap, AscLoop, AscTop, AscFuel)
    "C15.model_fuel_suffices", "C15.generated_convert_eq_model_fuel", "C15.generated_convert_eq_model",
    "C15.generated_convert_faithful", "C15.generated_truncation_rejected", "C15.generated_bad_point_rejected",
    "RefineAscLoop.loop_sim", "RefineAscLoop.parse_color_refines", "RefineAscLoop.parse_comment_refines",
    "RefineAscTop.skip_comments_sim", "RefineAscTop.parse_tree_refines", "RefineAscTop.top_sim", "RefineAscTop.parse_refines",
    "RefineAscFuel.convertWith_nofuel",
    # the character level: the Lexer GENERATED from the current source (Gen/AlgoAscLex.lean) = the hand-written lexer model, on every text
    # (Refine/AscLex.lean), and text -> generated lexer -> generated parser -> generated walk = Asc.convert
    "C15.generated_lex_eq_model", "C15.generated_lexer_raises_iff_bad", "C15.generated_lex_noBad", "C15.generated_next_eq_model",
    "C15.model_lex_is_iterated_step", "C15.generated_text_convert_eq_model", "C15.generated_text_convert_bad_prefix",
    # EVERY text, the lexer raising in the middle of the on-demand token pulling included (Refine/AscBad.lean)
    "C15.generated_text_convert_eq_model_all", "C15.generated_text_rejected_iff", "C15.model_convert_bad",
    "C15.generated_bad_point_rejected_text", "C15.generated_truncation_rejected_text",
    "RefineAscBad.sub_ext", "RefineAscBad.top_ext", "RefineAscBad.convertWithL_ext", "RefineAscBad.convertTokens_bad",
    "RefineAscBad.parse_refinesL", "RefineAscBad.convertPrefix_eq", "RefineAscBad.convertPrefix_eq_model",
    "RefineAscLex.read_char_mk", "RefineAscLex.while1_loop", "RefineAscLex.while2_loop", "RefineAscLex.read_word_mk",
    "RefineAscLex.read_line_mk", "RefineAscLex.lex_loop", "RefineAscLex.init_mk",
]
TRUSTED = ["the character-level lexer model `Asc.lex` in Model/Asc.lean is no longer trusted: C15.generated_lex_eq_model proves it equal (token types and values, on every "
           "text) to the `Lexer` translated from the source, C15.generated_text_convert_eq_model composes it with the parser theorem; trusted there: the "
           "translator, the stream model (`read(1)` / `readline()` on the unread characters), `isNumber` = `Asc.looksFloat` for the PINNED `RE_FLOAT` prefix match, "
           "`parseNumber` = a full match of `SwcText.floatPrefix` for CPython `float()` (design_notes/session4/asclexer.md, items 1-5); a lexer failure in the middle of the "
           "on-demand token pulling (reached or not reached by the parser) is PROVED too: C15.generated_text_convert_eq_model_all holds for every text, with the "
           "driver-side composition `AlgoRun.ascConvertPrefix` (item 5) as the reading of `from_stream` when the lexer raises; "
           "the token-level parser model (`Asc.convertTokens`: the `flag` protocol, rows created in `_parse_node` order without "
           "materialising the AST) is not trusted either: C15.generated_convert_eq_model proves it equal to the parser and the walk translated from the "
           "source on every token list; what remains trusted there is the translator and its glue (design_notes/session4/ascparser.md, items 1-6)"]
ASSUMPTIONS = ["ASCII documents; CPython `float()` on the lexer's words (words with underscores or non-ASCII digits are outside the generator)",
               "a well-formed document has exactly one tree, labelled Axon or Dendrite; colour markers are `(Color <word>)`"]

COLORS = ["Red", "Blue", "DarkGreen", "RGB", "Yellow"]
NUMS = ["0", "1", "-1.5", "2.25", "+3", ".5", "1e1", "10.", "-0.125", "7", "12.75", "100"]


def gen_branch(rng, depth, maxpts, p_split):
    """Branch := (pts, split) with split = None | list of branches (alternatives, possibly empty)"""
    npts = rng.randint(0 if depth > 0 else 1, maxpts)
    pts = [[rng.choice(NUMS) for _ in range(4)] for _ in range(npts)]
    split = None
    # a branch that splits has at least one point (an alternative is either empty or starts with a point)
    if npts > 0 and depth < 6 and rng.random() < p_split:
        nalt = rng.choice([1, 2, 2, 3, 5])
        split = []
        for _ in range(nalt):
            if rng.random() < 0.2:
                split.append(([], None))          # empty alternative
            else:
                split.append(gen_branch(rng, depth + 1, maxpts, p_split * 0.7))
    if not pts and split is None and depth > 0:
        return ([], None)
    return (pts, split)


def ws(rng):
    return rng.choice(["", " ", " ", "  ", "\n", "\t", " \n  "])


def render(rng, doc, layout=True):
    """token list → text with random whitespace / comments / colour markers at token boundaries"""
    label, branch, top_color = doc
    toks = ["("]
    if top_color:
        toks += ["(", "Color", top_color, ")"]
    toks += ["(", label, ")"]

    def rb(b, first):
        pts, split = b
        for p in pts:
            toks.extend(["("] + p + [")"])
            if layout and rng.random() < 0.15:
                toks.extend(["(", "Color", rng.choice(COLORS), ")"])
        if split is not None:
            toks.append("(")
            for k, alt in enumerate(split):
                if k:
                    toks.append("|")
                rb(alt, False)
            toks.append(")")

    rb(branch, True)
    toks.append(")")
    out = []
    for i, t in enumerate(toks):
        out.append(t)
        sep = " "
        if layout:
            nxt = toks[i + 1] if i + 1 < len(toks) else ""
            glue_ok = t in "()|" or nxt in "()|"
            sep = ws(rng) if glue_ok else rng.choice([" ", "  ", "\n", "\t"])
            if rng.random() < 0.06 and t != "Color" and not (t == "(" and nxt in ("Color",)) and _comment_ok(toks, i):
                sep += rng.choice(["; a comment\n", ";\n", " ;; double ( | ) 1 2 3\n"])
        out.append(sep)
    return "".join(out), toks


def _comment_ok(toks, i):
    """comments are legal at token boundaries outside a point / colour marker / label"""
    # inside "( x y z r )" or "( Color X )" or "( Label )" no comment is allowed by the parser's grammar
    j = i
    while j >= 0 and toks[j] not in ("(", ")", "|"):
        j -= 1
    if j >= 0 and toks[j] == "(" and j != i:
        return False                       # we are inside a bracket that has content words
    if toks[i] == "(" and i + 1 < len(toks) and toks[i + 1] not in ("(", ")", "|"):
        return False                       # between "(" and the first word of a point/marker
    return True


def expected_rows(doc):
    """the property read literally: one row per point in document order …"""
    label, branch, _ = doc
    ty = 2 if label.upper() == "AXON" else 3
    rows = []

    def walk(b, parent):
        pts, split = b
        cur = parent
        for p in pts:
            rows.append((ty, [Fraction(_dec(v)) for v in p], cur))
            cur = len(rows) - 1
        if split is not None:
            for alt in split:
                walk(alt, cur)

    walk(branch, -1)
    return rows


def nested_document(depth):
    """`depth` splits nested inside each other, written and read WITHOUT recursion: the tree's first point, then for every level a split
    whose first alternative holds one point and the next level, and whose second alternative is one point; the rows the property states:
    the points in document order, a first-alternative point hangs from the point before its split (the previous level's point), a
    second-alternative point from that same point"""
    parts = ["( (Dendrite) (0 0 0 2)"]
    rows = [(3, [Fraction(0), Fraction(0), Fraction(0), Fraction(2)], -1)]
    for k in range(1, depth + 1):
        parts.append(f"( ({k} 1 0 0.5)")
        rows.append((3, [Fraction(k), Fraction(1), Fraction(0), Fraction(1, 2)], k - 1))
    for k in range(depth, 0, -1):
        parts.append(f"| ({k} -1 0.25 0.25) )")
        rows.append((3, [Fraction(k), Fraction(-1), Fraction(1, 4), Fraction(1, 4)], k - 1))
    parts.append(")")
    return " ".join(parts), rows


def _dec(s):
    from decimal import Decimal
    return Fraction(Decimal(s if not s.endswith(".") else s + "0") if not s.startswith(".") and not s.startswith("+.") else Decimal("0" + s.lstrip("+")))


def count_pts(b):
    return len(b[0]) + sum(count_pts(a) for a in (b[1] or []))


# ---- documents longer than a read buffer ---------------------------------------------------------------------------------------
# A reader may consume the stream in blocks (io.DEFAULT_BUFFER_SIZE = 8192, 64 KiB, 128 KiB, 1 MiB, …).  Whatever lies across the
# end of a block — a comment, a number, a run of blanks, a bracket, a colour marker — must be read as if the stream were delivered
# character by character.  `render_blocks` lays a long document out so that something of a chosen kind lies across EVERY multiple of
# `step` characters from the start of the stream; with step = 512 that covers every power-of-two block size from 512 up to the
# length of the document at once, with step = 1000 the decimal ones.
BLOCK_KINDS = ["comment", "comment-start", "comment-eol", "blank", "bracket-last", "bracket-first", "number", "point", "marker"]
COMMENT_BODIES = [" stem point {n}, traced with the 40x objective", " {n}", " 1 2 3 4", " (1 2 3 4)", " ) | (", " ( (Axon) (0 0 0 1) )", "; ;; {n} ;",
                  " Color Red", " -1.5e1 nan", "x", " end of contour {n} ( | )"]


def gen_long(rng, npts, depth=0):
    """a tree of the grammar with about `npts` points: long branches (hundreds to thousands of points), splits nested a few levels"""
    own = npts if depth >= 4 or npts < 40 or rng.random() < 0.15 else max(1, int(npts * rng.choice([0.1, 0.3, 0.5, 0.8])))

    def num():
        return rng.choice(NUMS) if rng.random() < 0.3 else f"{rng.randint(-99999, 99999) / 100:.2f}"

    pts = [[num(), num(), num(), f"{rng.randint(1, 999) / 100:.2f}"] for _ in range(max(1, own))]
    rest = npts - own
    if rest <= 0:
        return (pts, None)
    nalt = rng.choice([1, 2, 2, 3])
    cuts = sorted(rng.randint(0, rest) for _ in range(nalt - 1))
    shares = [b - a for a, b in zip([0] + cuts, cuts + [rest])]
    split = [gen_long(rng, s, depth + 1) if s > 0 else ([], None) for s in shares]
    return (pts, split)


def _blanks(rng, n):
    return "".join(rng.choice("    \n\t") for _ in range(n))


def render_blocks(rng, doc, step, kinds, p_comment):
    """→ (text, {kind: number of multiples of `step` it lies across}); comments, blanks and colour markers only where `render` puts them"""
    label, branch, top_color = doc
    units = []

    def rb(b):
        pts, split = b
        units.extend(pts)
        if split is not None:
            units.append("(")
            for k, alt in enumerate(split):
                if k:
                    units.append("|")
                rb(alt)
            units.append(")")

    rb(branch)
    units.append(")")
    out, pos, used = [], 0, {}

    def emit(s):
        nonlocal pos
        out.append(s)
        pos += len(s)

    emit(rng.choice(["", "", "\n", "  ", "; " + "file header " * rng.randint(1, 4) + "\n"]))
    emit("(" + rng.choice(["", " ", "\n "]) + ("(Color " + top_color + ")\n " if top_color else "") + "(" + label + ")\n")
    prev_point = False
    for n, u in enumerate(units):
        s = "(" + " ".join(u) + ")" if isinstance(u, list) else u
        nb = (pos // step + 1) * step                    # index of the first character of the next block
        if pos + len(s) + 120 < nb:                      # far from the end of the block: ordinary layout (at most 65 characters after the unit)
            emit(s)
            prev_point = isinstance(u, list)
            if prev_point and rng.random() < 0.05:
                emit(" (Color " + rng.choice(COLORS) + ")")
                prev_point = False                       # at most one marker after a point, as in `render`
            emit(rng.choice([" ", "\n", "\n  ", "  "]))
            if rng.random() < p_comment:
                emit(";" + rng.choice(COMMENT_BODIES).format(n=n)[:40] + "\n")
            continue
        room = nb - pos                                  # > 55 characters are left in this block
        kind = rng.choice(kinds)
        if kind in ("number", "point") and not isinstance(u, list) or kind == "marker" and not prev_point:
            kind = "comment" if "comment" in kinds else "blank"
        if kind == "comment":                            # text of the comment on both sides of the boundary
            c = ";" + rng.choice(COMMENT_BODIES).format(n=n) + " " * rng.randint(0, 30) + rng.choice(["traced", "7", ")", "|", "(", "0.5"]) + "\n"
            d = rng.randint(1, min(len(c) - 3, room - 1))        # c[:d+1] is in this block, c[d+1:] (≥ 1 character of text and the line break) in the next
            emit(_blanks(rng, room - 1 - d) + c)
        elif kind == "comment-start":                    # the ";" is the last character of the block
            emit(_blanks(rng, room - 1) + ";" + rng.choice(COMMENT_BODIES).format(n=n) + "\n")
        elif kind == "comment-eol":                      # the line break that ends the comment is the first character of the next block
            c = ";" + rng.choice(COMMENT_BODIES).format(n=n)[:room - 2]
            emit(_blanks(rng, room - len(c)) + c + "\n")
        elif kind == "blank":
            emit(_blanks(rng, room + rng.randint(1, 6)))
        elif kind == "bracket-last":                     # the unit's first character (always a bracket or a bar) ends the block
            emit(_blanks(rng, room - 1))
        elif kind == "bracket-first":
            emit(_blanks(rng, room))
        elif kind == "marker":
            m = "(Color " + rng.choice(COLORS) + ")"
            emit(_blanks(rng, room - rng.randint(1, len(m) - 1)) + m + " ")
        else:
            if kind == "number":                         # the boundary lies inside a field of the point
                f = rng.choice([k for k in range(4) if len(u[k]) > 1] or [0])
                q = 1 + sum(len(x) + 1 for x in u[:f]) + rng.randint(1, max(1, len(u[f]) - 1))
            else:                                        # anywhere inside the point, separators and brackets included
                q = rng.randint(1, len(s) - 1)
            emit(_blanks(rng, room - q))
        used[kind] = used.get(kind, 0) + 1
        emit(s + rng.choice([" ", "\n"]))
        prev_point = isinstance(u, list)
    return "".join(out), used



# ---- points that repeat the point they are attached to ------------------------------------------------------------------------
# "Exactly one node per point": a point is a node of its own whatever its coordinates are — also when it has the very coordinates and
# radius of its parent point (a tracing that was resumed repeats its last point; the first point of a child branch often repeats the
# branch point), when it is the same point spelled differently (1 / 1.0 / +1 / 1e0), or when it differs from it in a single field.
REPEAT_MODES = ["in-branch", "at-split", "both", "respelled", "one-field", "run"]


def respell(rng, s):
    """the same number of the ASC grammar [-+]digits[.digits][e[-+]digits], written differently"""
    alts = [s]
    plain = "e" not in s.lower()
    if plain and "." not in s:
        alts += [s + ".0", s + ".00"]
    if plain and "." in s and not s.endswith("."):
        alts += [s + "0", s + "00"]
    if not s.endswith("."):
        alts += [s + ("e0" if plain else ""), s + ("e+0" if plain else ""), s + ("E-0" if plain else "")]
    if s[0] not in "+-":
        alts += ["+" + s]
    if s[0].isdigit():
        alts += ["0" + s]
    alts = [a for a in alts if a != s] or [s]
    return rng.choice(alts)


def repeat_points(rng, branch, mode, last=None, depth=0):
    """`branch` with points that repeat the point they are attached to (`last` = the last point before the enclosing split)"""
    pts, split = branch

    def copy_of(p):
        if mode == "respelled":
            return [respell(rng, v) if rng.random() < 0.6 else v for v in p]
        if mode == "one-field":                       # equal in three of the four fields
            q, k = list(p), rng.randrange(4)
            q[k] = rng.choice([v for v in NUMS if _dec(v) != _dec(p[k])])
            return q
        return list(p)

    out = []
    if pts and last is not None and mode != "in-branch" and rng.random() < 0.75:
        out.append(copy_of(last))                     # the first point of the alternative repeats the point before the split
    for p in pts:
        out.append(p)
        if mode != "at-split":
            reps = rng.choice([0, 1, 1, 2]) if mode != "run" else rng.choice([0, 3, 8, 20])
            out.extend(copy_of(p) for _ in range(reps))
    if split is not None:
        split = [repeat_points(rng, a, mode, out[-1] if out else last, depth + 1) for a in split]
    return (out, split)


def n_repeats(rows):
    """number of rows equal (as numbers) to the row of their parent"""
    return sum(1 for ty, vals, pid in rows if pid >= 0 and [Fraction(v) for v in vals] == [Fraction(v) for v in rows[pid][1]])


# ---- documents stored as files ------------------------------------------------------------------------------------------------
# The file entry points read a TEXT file: the line ends of the file are the platform's (LF, or CR LF for a file written by the
# Windows program / checked out with autocrlf, or both in one file after an edit), and a line end is white space of the document.
# `render_lines` lays a document out the way a tracing program writes it: one point / bracket / bar / marker per line, indented, with
# end-of-line comments; `with_eol` gives the bytes of the file.
EOLS = ["lf", "crlf", "mixed"]
FILE_VIAS = ["file", "convert", "open"]              # NeurolucidaAscToSwc()(fname), .convert(fname), .from_stream(open(fname))
LINE_COMMENTS = ["", "", "", " ; R-{n}", "  ; {n}, {k}", " ;", "  ;; ( | )", " ; End of split", "\t; 1 2 3 4", " ; (Color Red)"]


def render_lines(rng, doc):
    label, branch, top_color = doc
    lines, n = [], [0]

    def com(p=0.5):
        n[0] += 1
        return rng.choice(LINE_COMMENTS).format(n=n[0], k=rng.randint(1, 9)) if rng.random() < p else ""

    ind = lambda d: rng.choice(["  ", "  ", "\t", " "]) * d if rng.random() < 0.9 else ""          # noqa: E731
    for _ in range(rng.choice([0, 0, 1, 3])):
        lines.append(rng.choice(["; V3 text file written for MicroBrightField products.", ";", "", "; traced by {n}".format(n=rng.randint(1, 99))]))
    lines.append("(" + com(0.3))
    if top_color:
        lines.append(ind(1) + "(Color " + top_color + ")" + com(0.3))
    lines.append(ind(1) + "(" + label + ")" + com(0.3))

    def rb(b, d):
        pts, split = b
        for p in pts:
            lines.append(ind(d) + "(" + rng.choice([" ", "  ", "\t"]).join(p) + ")" + com())
            if rng.random() < 0.1:
                lines.append(ind(d) + "(Color " + rng.choice(COLORS) + ")" + com(0.2))
            if rng.random() < 0.1:
                lines.append(rng.choice(["", " ", ind(d) + "; resumed"]))
        if split is not None:
            lines.append(ind(d) + "(" + com(0.3))
            for k, alt in enumerate(split):
                if k:
                    lines.append(ind(d) + "|" + com(0.2))
                rb(alt, d + 1)
            lines.append(ind(d) + ")" + com())

    rb(branch, 1)
    lines.append(")" + com())
    for _ in range(rng.choice([0, 0, 1])):
        lines.append(rng.choice(["", "; End of tree"]))
    return "\n".join(lines) + rng.choice(["\n", "\n", ""])


def with_eol(text, eol, eol_seed=0):
    """bytes of the file that stores `text` (lines separated by LF) with the given line ends"""
    import random
    if eol == "crlf":
        text = text.replace("\n", "\r\n")
    elif eol == "mixed":
        r = random.Random(eol_seed)
        text = "".join(("\r\n" if r.random() < 0.5 else "\n") if ch == "\n" else ch for ch in text)
    return text.encode("ascii")


def is_number_token(tok):
    """a number of the ASC grammar: the four fields of a point (so that `( x y z r )` is recognised as a point and nothing else is)"""
    import re
    return re.fullmatch(r"[-+]?(\d+\.?\d*|\.\d+)([eE][-+]?\d+)?", tok) is not None


# ---- the same path converted again in one process ---------------------------------------------------------------------------------
# "Converting a document yields …" holds for EVERY conversion, not only for the first one of a process: a path that is converted again
# must carry what the document stored under that path says at that moment, whatever happened in between — nothing, the caller edited
# the tree it got from the earlier conversion in place (`tree.ndata[k] -= …`, the ordinary way to post-process a result), or the file
# was rewritten with another document (of another length, or of the very same length with its time stamp preserved, `cp -p`).
EDITS = ["translate", "to-origin", "scale-r", "zero", "retype", "reparent", "reverse", "set-one"]
AGAIN_BETWEEN = ["nothing"] + EDITS + ["rewritten", "rewritten-same-stat"]


def apply_edit(nd, edit, seed):
    """edits the columns `nd` (dict of numpy arrays: a tree's `ndata`) IN PLACE the way a caller post-processes a result"""
    import random
    r = random.Random(seed)
    if edit == "translate":
        for k in "xyz":
            nd[k] += np.float32(r.choice([-1, 1]) * r.randint(1, 4000) / 4)
    elif edit == "to-origin":
        for k in "xyz":
            nd[k] -= nd[k][0]
    elif edit == "scale-r":
        nd["r"] *= np.float32(r.choice([0.5, 2, 10, 0.25]))
    elif edit == "zero":
        for k in r.sample("xyzr", r.randint(1, 4)):
            nd[k][...] = 0
    elif edit == "retype":
        nd["type"][...] = 5 - nd["type"]
    elif edit == "reparent":
        nd["pid"][1:] = 0
    elif edit == "reverse":
        for k in "xyzr":
            nd[k][...] = nd[k][::-1].copy()
    elif edit == "set-one":
        nd[r.choice("xyzr")][r.randrange(len(nd["x"]))] = np.float32(r.randint(-999, 999) / 8)
    else:
        raise AssertionError(edit)


def columns_of(rows):
    """the table the property states for `rows`, as the columns of a tree (to try an edit on)"""
    nd = {k: np.array([float(Fraction(v[j])) for _, v, _ in rows], dtype=np.float32) for j, k in enumerate("xyzr")}
    nd["type"] = np.array([ty for ty, _, _ in rows], dtype=np.int32)
    nd["pid"] = np.array([pid for _, _, pid in rows], dtype=np.int32)
    nd["id"] = np.arange(len(rows), dtype=np.int32)
    return nd


def edit_changes(rows, edit, seed):
    a, b = columns_of(rows), columns_of(rows)
    apply_edit(b, edit, seed)
    return any(a[k].tolist() != b[k].tolist() for k in a)


def same_length_variant(rng, doc):
    """another document whose plain rendering has exactly the same length: one digit of some of the points is another digit"""
    import copy
    label, branch, col = copy.deepcopy(doc)
    pts = []

    def collect(b):
        pts.extend(b[0])
        for a in b[1] or []:
            collect(a)

    collect(branch)
    for p in rng.sample(pts, max(1, len(pts) // 2)):
        j = rng.choice([k for k in range(4) if "e" not in p[k].lower()] or [None])
        if j is None:
            continue
        i = rng.choice([i for i, c in enumerate(p[j]) if c.isdigit()])
        p[j] = p[j][:i] + rng.choice([c for c in "123456789" if c != p[j][i]]) + p[j][i + 1:]
    return (label, branch, col)


# ---- what a comment says, and how many there are ----------------------------------------------------------------------------------
# "Comments do not change the result": a comment is everything from `;` to the end of the line (the next "\n"), WHATEVER characters it
# contains — control characters (a page break, a vertical tab, the separators FS/GS/RS, a lone CR in a stream), characters outside ASCII
# (NEL, the Unicode line / paragraph separators, no-break spaces, letters), text that looks like document content — and however many
# comment lines follow each other (a header block, a branch commented out line by line: tens, hundreds, thousands of lines).
COMMENT_CHARS = {
    "ctrl-sep": ["\x0b", "\x0c", "\x1c", "\x1d", "\x1e"],               # ASCII characters some line splitters take for a line end
    "ctrl-other": ["\x01", "\x07", "\x08", "\x1b", "\x1f", "\x7f"],     # other ASCII control characters
    "cr": ["\r"],                                                       # a lone CR (only in a stream: a text FILE reads it as a line end)
    "uni-sep": ["\x85", "\u2028", "\u2029"],                            # line boundaries outside ASCII
    "uni-other": ["\xa0", "\u3000", "\u200b", "\ufeff", "\xe9", "\xb5", "\u2026"],
}
COMMENT_CHAR_CLASSES = list(COMMENT_CHARS)
ASCII_CHAR_CLASSES = ["ctrl-sep", "ctrl-other"]                         # may be stored in a file through `with_eol`
COMMENT_WORDS = ["colour", "page", "was:", "tip", "checked", "R-{n}", "{n},", "see notes", "( {a} {b} 0 {r})", "({a} {b} {b} {r})", ")", "(", "|",
                 "(Color Red)", "(Axon)", "1e", "{a}", ";", "End of split"]
RUN_PLACES = ["header", "body", "body", "trailer"]
RUN_SCALES = [(10, 99), (100, 999), (1000, 2999), (3000, 9000)]


def comment_text(rng, chars, n=0):
    """a comment body (no "\n"): words / content look-alikes with characters of `chars` between or inside them"""
    words = [rng.choice(COMMENT_WORDS).format(n=n, a=rng.choice(NUMS), b=rng.choice(NUMS), r=rng.choice(["1", "0.75", ".5"])) for _ in range(rng.randint(1, 4))]
    out = rng.choice(["", " "])
    hit = rng.randrange(len(words))
    for k, w in enumerate(words):
        if k == hit or rng.random() < 0.3:
            out += rng.choice(["", " "]) + rng.choice(chars) * rng.choice([1, 1, 2]) + rng.choice(["", " "])
        elif k:
            out += " "
        out += w
    return out + (rng.choice(chars) if rng.random() < 0.2 else "")


def render_comment_chars(rng, doc, chars):
    """`render_lines` with the text of (most of) the end-of-line comments replaced / added: comments whose text contains `chars`"""
    lines = render_lines(rng, doc).split("\n")
    n = 0
    for i, ln in enumerate(lines):
        code, sep, _ = ln.partition(";")
        if (sep or code.strip()) and rng.random() < (0.8 if sep else 0.35) or (i == 0 and not code.strip()):
            n += 1
            lines[i] = code + rng.choice([";", " ;", "  ; ", ";;"]) + comment_text(rng, chars, n)
    if n == 0:
        lines.insert(0, ";" + comment_text(rng, chars, 0))
    return "\n".join(lines) + ("" if lines[-1] == "" else "\n"), max(n, 1)


def render_comment_run(rng, doc, place, count):
    """`render_lines` with a run of `count` consecutive comment lines (nothing but blanks between them) in the header / body / trailer"""
    lines = render_lines(rng, doc).rstrip("\n").split("\n")
    first = min(i for i, ln in enumerate(lines) if ln.split(";")[0].strip() == "(")
    last = max(i for i, ln in enumerate(lines) if ln.split(";")[0].strip() == ")")
    at = {"header": rng.randint(0, first), "body": rng.randint(first + 1, last), "trailer": rng.randint(last + 1, len(lines))}[place]
    style = rng.choice(["old", "plain", "mixed"])
    ind = rng.choice(["", "  ", "\t", "    "])

    def one(k):
        if style == "old" or style == "mixed" and rng.random() < 0.5:          # a tracing commented out line by line
            return f"{ind}; ( {k % 97}.{k % 10}0 {rng.choice(NUMS)} 0 0.75)" + rng.choice(["", f" ; {k}, R-1"])
        return ind + rng.choice([";", "; ", ";; "]) + rng.choice(["", f"note {k}", "-" * rng.randint(1, 30), f"section {k // 50}"])

    run = [one(k) for k in range(count)]
    return "\n".join(lines[:at] + run + lines[at:]) + "\n"


def table_of(t):
    n = t.number_of_nodes()
    return {"n": n, "id": t.id().tolist(), "pid": t.pid().tolist(), "type": t.type().tolist(),
            "xyzr": np.stack([t.x(), t.y(), t.z(), t.r()], axis=1).astype(float).tolist() if n else []}


class Convert(Suite):
    name = "c15.convert"

    def cases(self, rng, tier, widen):
        out = []
        big = tier == "thorough" or widen

        def doc():
            return (rng.choice(["Axon", "Dendrite", "axon", "DENDRITE"]), gen_branch(rng, 0, rng.choice([1, 2, 3, 6]), rng.choice([0.3, 0.6, 0.9])),
                    rng.choice([None, None, "Red"]))

        for _ in range(250 if big else 50):
            d = doc()
            text, toks = render(rng, d)
            out.append({"class": "valid", "text": text, "rows": _ser(expected_rows(d)), "via": rng.choice(["stream", "stream", "file"])})
        # structurally identical sub-branches at different places of the document (the same coordinates, the same sub-tree below):
        # every point is a node of its own, whatever other points look like
        import copy as _copy
        for _ in range(40 if big else 10):
            d = doc()
            def twin(b, depth=0):
                pts, split = b
                if split:
                    split = [twin(a, depth + 1) for a in split]
                    real = [a for a in split if a[0]]
                    if real and rng.random() < 0.7:
                        split.insert(rng.randrange(len(split) + 1), _copy.deepcopy(rng.choice(real)))
                elif pts and depth < 3 and rng.random() < 0.5:
                    a = ([[rng.choice(NUMS) for _ in range(4)] for _ in range(rng.randint(1, 2))], None)
                    split = [a, _copy.deepcopy(a)] + ([_copy.deepcopy(a)] if rng.random() < 0.3 else [])
                return (pts, split)
            d = (d[0], twin(d[1]), None)
            text, _ = render(rng, d, layout=False)
            out.append({"class": "twins", "text": text, "rows": _ser(expected_rows(d)), "via": "stream"})
        # deep nesting and long branches
        for depth in ([10, 40] if big else [12]):
            b = ([["9", "9", "9", "1"]], None)
            for k in range(depth):
                b = ([[str(k), "0", "0", "1"]], [b, ([[str(k), "1", "0", "1"]], None)])
            d = ("Axon", b, None)
            text, _ = render(rng, d, layout=False)
            out.append({"class": "deep", "text": text, "rows": _ser(expected_rows(d)), "via": "stream"})
        # nesting measured against the interpreter's recursion limit: C15 says "at any nesting depth", and the parser is recursive
        # descent.  Below half the limit the document MUST convert; from half the limit on the unchanged library raises
        # (ValueError from RecursionError: two frames per split) — a genuine defect recorded in known_findings.json under the key
        # `asc-rejected/nested-beyond-half-limit` (DESIGN §6, D33), so that a change which lowers the depth the parser can take is
        # still reported under `asc-rejected/nested`.
        L = sys.getrecursionlimit()
        for frac, cls in ([(0.3, "nested"), (0.42, "nested"), (0.6, "nested-beyond-half-limit")] + ([(0.15, "nested"), (2.0, "nested-beyond-half-limit")] if big else [])):
            text, rows = nested_document(int(L * frac))
            out.append({"class": f"{cls}/{frac}L", "text": text, "rows": _ser(rows), "via": "stream", "big": True})
        for npts in ([300, 5000] if big else [300]):
            d = ("Dendrite", ([[str(i % 50), "0", "0", "1"] for i in range(npts)], None), None)
            text, _ = render(rng, d, layout=False)
            out.append({"class": "long", "text": text, "rows": _ser(expected_rows(d)), "via": "stream"})
        # the defect classes by name
        named = {
            "nested-then-more-alts": "( (Axon) (1 0 0 1) ( (2 0 0 1) ( (3 0 0 1) | (4 0 0 1) ) | (5 0 0 1) ) )",
            "empty-first-alt": "( (Axon) (1 0 0 1) ( | (2 0 0 1) ) )",
            "empty-last-alt": "( (Axon) (1 0 0 1) ( (2 0 0 1) | ) )",
            "empty-mid-alt": "( (Dendrite) (1 0 0 1) ( (2 0 0 1) | | (3 0 0 1) ) )",
            "only-empty-alt": "( (Axon) (1 0 0 1) ( ) )",
            "comment-after-label": "( (Axon) ; c\n (1 0 0 1) (2 0 0 1) )",
            "comment-before-doc": "; header\n( (Axon) (1 0 0 1) )",
            "comment-after-top-color": "( (Color Red) ; c\n (Axon) (1 0 0 1) )",
            "comment-between-points": "( (Axon) (1 0 0 1) ; c\n (2 0 0 1) )",
            "comment-in-split": "( (Axon) (1 0 0 1) ( ; c\n (2 0 0 1) | ; d\n (3 0 0 1) ) )",
        }
        for name, text in named.items():
            d = _parse_reference(text)
            out.append({"class": "named/" + name, "text": text, "rows": _ser(d), "via": "stream"})
        # truncation: every proper token prefix of small documents must be rejected
        for _ in range(12 if big else 4):
            d = doc()
            if count_pts(d[1]) > 8:
                continue
            text, toks = render(rng, d, layout=False)
            for k in range(1, len(toks)):
                out.append({"class": "truncated", "text": " ".join(toks[:k]), "rows": None, "via": "stream"})
        # malformed points: 3 or 5 numbers, a literal inside a point
        # every kind in turn (a guaranteed share of each in the quick tier); a kind that does not fit the drawn document is retried on another one
        KINDS = ["three", "five", "literal", "literal-first", "badfloat", "nobracket"]
        todo = [KINDS[j % len(KINDS)] for j in range(60 if big else 18)]
        tries = 0
        while todo and tries < 40 * len(KINDS):
            tries += 1
            d = doc()
            text, toks = render(rng, d, layout=False)
            idx = [i for i, t in enumerate(toks) if t == "(" and i + 5 < len(toks) and toks[i + 5] == ")" and all(is_number_token(x) for x in toks[i + 1:i + 5])]
            if not idx:
                continue
            i = rng.choice(idx)
            kind = todo[0]
            t2 = list(toks)
            if kind == "three":
                del t2[i + 4]
            elif kind == "five":
                t2.insert(i + 4, "7")
            elif kind == "nobracket":
                ok = [j for j in idx if j >= 5 and t2[j - 1] == ")"]
                if not ok:
                    continue                      # only a point that follows another point / marker (not the first after the label)
                i = rng.choice(ok)
                del t2[i]                         # the point lost its opening bracket; the document gains a stray ")" at the end
            elif kind == "literal":
                t2[i + rng.randint(1, 4)] = rng.choice(["abc", "x1", "NaN"])
            elif kind == "literal-first":
                t2[i + 1] = rng.choice(["abc", "x", "l0", "Dot", "Cross", "#REF!", "NaN"])      # the first field of a point is a word
            else:
                t2[i + rng.randint(1, 4)] = rng.choice(["1e", "1..2", "12abc", "0x10"])
            todo.pop(0)
            out.append({"class": "badpoint/" + kind, "text": " ".join(t2), "rows": None, "via": "stream"})
        # malformed points, guaranteed share: one field is a word that a general-purpose number reader (CPython's float()) understands
        # but that is not a number of the ASC grammar [-+]digits[.digits][e[-+]digits]: nan / inf / infinity, signed, in any case
        for base in ("nan", "inf", "infinity"):
            for _ in range(8 if big else 2):
                word = rng.choice(["", "", "+", "-"]) + rng.choice([base, base.upper(), base.capitalize(), "".join(rng.choice([c, c.upper()]) for c in base)])
                d = doc()
                text, toks = render(rng, d, layout=False)
                idx = [i for i, t in enumerate(toks) if t == "(" and i + 5 < len(toks) and toks[i + 5] == ")" and all(is_number_token(x) for x in toks[i + 1:i + 5])]
                t2 = list(toks)
                t2[rng.choice(idx) + rng.randint(1, 4)] = word
                out.append({"class": "badpoint/float-word", "text": " ".join(t2), "rows": None, "via": rng.choice(["stream", "file"])})
        # documents longer than a read buffer: something lies across every multiple of `step` characters from the start of the stream
        # (multiples of 512 → every power-of-two block size up to the length of the document; multiples of 1000 → the decimal ones)
        def blocks(name, step, kinds, p_comment, longer_than, **kw):
            npts = max(50, longer_than // (45 if p_comment > 0.5 else 25))
            while True:
                d = (rng.choice(["Axon", "Dendrite"]), gen_long(rng, npts), rng.choice([None, None, "Blue"]))
                text, used = render_blocks(rng, d, step, kinds, p_comment)
                if len(text) > longer_than:
                    break
                npts = npts * 4 // 3
            c = {"class": "blocks/" + name, "text": text, "rows": _ser(expected_rows(d)), "via": rng.choice(["stream", "file"]),
                 "step": step, "across": used, "big": len(text) > 20000}
            c.update(kw)
            out.append(c)
            return c

        some = lambda: rng.sample(BLOCK_KINDS, rng.randint(2, 4))                                   # noqa: E731
        # end-of-line comments (a traced file has one on most lines) across every multiple of 512 up to 128 KiB
        blocks("comment", 512, ["comment"], 0.9, (1 << 17) + 600)
        c = blocks("mixed", 512, BLOCK_KINDS, 0.05, (1 << 16) + 600)
        blocks("decimal", 1000, BLOCK_KINDS, rng.choice([0.05, 0.5]), 66000)
        for _ in range(20 if big else 4):                                                          # a few blocks long, many layouts
            blocks("small", rng.choice([512, 1000, 1024]), some(), rng.choice([0, 0.1, 0.9]), rng.choice([1500, 3000, 6000]))
        if big:
            blocks("comment", 4096, ["comment"], 0.9, (1 << 20) + 5000)
            blocks("mixed", 4096, BLOCK_KINDS, 0.1, (1 << 20) + 5000)
            for _ in range(6):
                blocks("mixed", rng.choice([512, 1000, 4096, 8192]), some(), rng.choice([0, 0.1, 0.9]), rng.choice([70000, 140000, 270000]))
        # … and a long document that ends prematurely exactly at the end of a block
        for _ in range(4 if big else 1):
            end = c["text"].rindex(")")
            cut = rng.randrange(c["step"], end, c["step"])
            out.append({"class": "truncated/at-block", "text": c["text"][:cut], "rows": None, "via": rng.choice(["stream", "file"]), "big": True})
        # ---- appended families (after everything above, so that the cases above do not depend on them) ----
        # points that repeat the point they are attached to, exactly / respelled / in three of four fields; through every entry point
        for k in range(60 if big else 18):
            mode = REPEAT_MODES[k % len(REPEAT_MODES)]
            while True:
                d = (rng.choice(["Axon", "Dendrite"]), gen_branch(rng, 0, rng.choice([2, 3, 6]), rng.choice([0.6, 0.9])), rng.choice([None, None, "Red"]))
                d = (d[0], repeat_points(rng, d[1], mode), d[2])
                rows = expected_rows(d)
                if mode == "one-field" or n_repeats(rows) >= 1:
                    break
            text = render(rng, d, layout=rng.random() < 0.5)[0] if rng.random() < 0.7 else render_lines(rng, d)
            out.append({"class": "repeat/" + mode, "text": text, "rows": _ser(rows), "via": rng.choice(["stream", "stream"] + FILE_VIAS),
                        "repeats": n_repeats(rows)})
        # documents stored as files: every file entry point x every line-end convention, laid out line by line
        combos = [(v, e) for v in FILE_VIAS for e in EOLS]
        for k in range(54 if big else 18):
            via, eol = combos[k % len(combos)]
            d = doc()
            text = render_lines(rng, d) if rng.random() < 0.8 else render(rng, d)[0]
            if "\n" not in text:
                text += "\n"
            out.append({"class": f"eol/{eol}/{via}", "text": text, "rows": _ser(expected_rows(d)), "via": via, "eol": eol,
                        "eol_seed": rng.randrange(1 << 30)})
        # … a document longer than a read buffer, a truncated and a corrupted one stored with CR LF line ends
        d = ("Dendrite", gen_long(rng, 600), None)
        out.append({"class": "eol/crlf/long", "text": render_lines(rng, d), "rows": _ser(expected_rows(d)), "via": rng.choice(FILE_VIAS), "eol": "crlf"})
        for _ in range(8 if big else 3):
            d = doc()
            lines_ = render_lines(rng, d).split("\n")
            body = [i for i, ln in enumerate(lines_) if ln.strip().startswith("(") and len(ln.split(";")[0].split()) >= 4]
            if rng.random() < 0.5 or not body:
                first = min(i for i, ln in enumerate(lines_) if ln.split(";")[0].strip() == "(")
                last = max(i for i, ln in enumerate(lines_) if ln.split(";")[0].strip() == ")")
                text, kl = "\n".join(lines_[:rng.randint(first + 1, last)]) + "\n", "truncated/eol"     # at least "(", never the closing ")"
            else:
                i = rng.choice(body)
                code, sep, rest = lines_[i].partition(";")
                f = code.split()
                del f[rng.randrange(1, len(f))]               # the point lost a field (possibly with its closing bracket)
                lines_[i] = " ".join(f) + ((" ;" + rest) if sep else "")
                text, kl = "\n".join(lines_), "badpoint/eol"
            out.append({"class": kl, "text": text, "rows": None, "via": rng.choice(FILE_VIAS), "eol": rng.choice(["crlf", "mixed"]),
                        "eol_seed": rng.randrange(1 << 30)})
        # the same path converted again in one process: after nothing / after the caller edited the earlier result in place / after the
        # file was rewritten; every pair of file entry points, every kind of "in between" in turn (guaranteed share in the quick tier)
        entry = ["convert", "file"]                       # the two entry points that take a path; "open" = the caller opens the file
        for k in range(66 if big else 22):
            between = AGAIN_BETWEEN[k % len(AGAIN_BETWEEN)]
            # first round: both conversions through an entry point that takes the path; later rounds: any pair of the three
            first_via, via = (rng.choice(entry), rng.choice(entry)) if k < len(AGAIN_BETWEEN) else (rng.choice(FILE_VIAS), rng.choice(FILE_VIAS))
            c = {"via": via, "first_via": first_via, "between": between, "edit_seed": rng.randrange(1 << 30), "eol": rng.choice(["lf", "lf", "crlf"])}
            while True:
                d = doc()
                rows = expected_rows(d)
                if between in EDITS and not (len(rows) >= 2 and edit_changes(rows, between, c["edit_seed"])):
                    continue
                if between.startswith("rewritten"):
                    d0 = same_length_variant(rng, d) if between == "rewritten-same-stat" else doc()
                    if expected_rows(d0) == rows:
                        continue
                    plain = between == "rewritten-same-stat"
                    c["text_before"] = render(rng, d0, layout=False)[0] if plain else render_lines(rng, d0)
                    c["rows_before"] = _ser(expected_rows(d0))
                    text = render(rng, d, layout=False)[0] if plain else render_lines(rng, d)
                else:
                    text = render_lines(rng, d) if rng.random() < 0.7 else render(rng, d)[0]
                break
            c.update({"class": f"again/{between}/{first_via}-{via}", "text": text, "rows": _ser(rows)})
            out.append(c)
        # comments whose TEXT contains characters other than printable ASCII: every class of characters in turn, through every entry point
        # (a class outside ASCII and the lone CR only through a stream: the bytes / line ends of a file are the platform's business)
        for k in range(60 if big else 20):
            kl = COMMENT_CHAR_CLASSES[k % len(COMMENT_CHAR_CLASSES)]
            d = doc()
            text, ncom = render_comment_chars(rng, d, COMMENT_CHARS[kl])
            via = rng.choice(["stream"] + FILE_VIAS) if kl in ASCII_CHAR_CLASSES else "stream"
            out.append({"class": f"comment-chars/{kl}", "text": text, "rows": _ser(expected_rows(d)), "via": via, "comments": ncom,
                        "eol": rng.choice(["lf", "lf", "crlf"])})
        # … and a truncated / corrupted document with such comments is still rejected
        for k in range(10 if big else 4):
            kl = COMMENT_CHAR_CLASSES[k % len(COMMENT_CHAR_CLASSES)]
            d = doc()
            lines_ = render_comment_chars(rng, d, COMMENT_CHARS[kl])[0].split("\n")
            first = min(i for i, ln in enumerate(lines_) if ln.split(";")[0].strip() == "(")
            last = max(i for i, ln in enumerate(lines_) if ln.split(";")[0].strip() == ")")
            out.append({"class": f"truncated/comment-chars/{kl}", "text": "\n".join(lines_[:rng.randint(first + 1, last)]) + "\n", "rows": None, "via": "stream"})
        # runs of consecutive comment lines of every order of magnitude (tens … thousands), in the header / the body / behind the tree
        for k in range(16 if big else 8):
            place = RUN_PLACES[k % len(RUN_PLACES)]
            lo, hi = RUN_SCALES[(k + k // len(RUN_PLACES) * 2 + 2) % len(RUN_SCALES)] if not big or k < 8 else (3000, 30000)
            count = rng.randint(lo, hi)
            d = doc()
            out.append({"class": f"comment-run/{place}/1e{len(str(count)) - 1}", "text": render_comment_run(rng, d, place, count),
                        "rows": _ser(expected_rows(d)), "via": rng.choice(["stream", "stream"] + FILE_VIAS), "run": count, "big": count > 500})
        return out

    def run(self, case):
        from swcgeom.transforms import NeurolucidaAscToSwc

        def through(via, fn):
            if via == "convert":
                return NeurolucidaAscToSwc.convert(fn)
            if via == "open":
                with open(fn, "r") as f:
                    return NeurolucidaAscToSwc.from_stream(f)
            return NeurolucidaAscToSwc()(fn)

        def store(fn, text):
            with open(fn, "wb") as f:
                f.write(with_eol(text, case.get("eol", "lf"), case.get("eol_seed", 0)))

        via = case.get("via", "stream")
        if via in FILE_VIAS:
            tmp = tempfile.mkdtemp(prefix="c15_")
            try:
                fn = os.path.join(tmp, "d.asc")
                if "between" in case:                      # the path is converted, something happens, the path is converted again
                    between = case["between"]
                    store(fn, case.get("text_before", case["text"]))
                    t0 = through(case["first_via"], fn)
                    first = table_of(t0)
                    if between in EDITS:
                        apply_edit(t0.ndata, between, case["edit_seed"])
                    elif between.startswith("rewritten"):
                        st = os.stat(fn)
                        store(fn, case["text"])
                        if between == "rewritten-same-stat":
                            os.utime(fn, ns=(st.st_atime_ns, st.st_mtime_ns))
                    res = table_of(through(via, fn))
                    res["first"] = first
                    return res
                store(fn, case["text"])
                t = through(via, fn)
            finally:
                shutil.rmtree(tmp, ignore_errors=True)
        else:
            t = NeurolucidaAscToSwc.from_stream(io.StringIO(case["text"]))
        return table_of(t)

    def lines(self, case, res):
        if case["class"].startswith("nested-beyond-half-limit"):
            return []          # the model converts such a document (it has no stack); what the code does is judged by the oracle alone
        if "exc" in res:
            return ([(f"asc cp={cps(case['text'])}", "error")] + _gasc_lines(case, res) + _gasclex_lines(case, res)) if res["exc"] == "ValueError" else []

        def same(got):
            if not got.startswith("ok"):
                return False
            rows = [r.split() for r in got.split(" | ")[1:]]
            if len(rows) != res["n"]:
                return False
            for k, r in enumerate(rows):
                if int(r[0]) != res["type"][k] or int(r[5]) != res["pid"][k]:
                    return False
                if [float(np.float32(float(sci_value(v)))) for v in r[1:5]] != res["xyzr"][k]:
                    return False
            return True

        return [(f"asc cp={cps(case['text'])}", Expect(same, "impl=" + repr({k: res[k] for k in ("pid", "type")})[:600]))] + _gasc_lines(case, res) + _gasclex_lines(case, res)

    def oracle(self, case, res):
        try:
            return self._oracle(case, res)
        except Exception as e:  # noqa: BLE001 - a result that cannot even be read is not the table the property states
            return [("asc-malformed-output", f"{case.get('class')}: the result cannot be compared with the document ({type(e).__name__}: {e}): {str(res)[:300]}")]

    def _oracle(self, case, res):
        want = case["rows"]
        short = case["text"] if len(case["text"]) < 300 else case["text"][:300] + "…"
        if case.get("via", "stream") in FILE_VIAS:
            how = {"file": "NeurolucidaAscToSwc()(fname)", "convert": "NeurolucidaAscToSwc.convert(fname)", "open": "from_stream(open(fname))"}[case["via"]]
            short = f"[file with {case.get('eol', 'lf').upper()} line ends, through {how}] " + short
        if not isinstance(res, dict) or "exc" not in res and not all(k in res for k in ("n", "id", "pid", "type", "xyzr")):
            return [("asc-malformed-output", f"{case['class']}: no table came back: {str(res)[:300]}")]
        if "between" in case and "exc" not in res:
            what = {"nothing": "nothing happened in between", "rewritten": "the file was rewritten with another document in between",
                    "rewritten-same-stat": "the file was rewritten with another document of the same length and its time stamp restored in between"}.get(
                        case["between"], f"the caller edited the tree returned by the earlier conversion in place in between ({case['between']})")
            f_how = {"file": "NeurolucidaAscToSwc()(fname)", "convert": "NeurolucidaAscToSwc.convert(fname)", "open": "from_stream(open(fname))"}[case["first_via"]]
            first = res.get("first")
            if not isinstance(first, dict) or not all(k in first for k in ("n", "id", "pid", "type", "xyzr")):
                return [("asc-malformed-output", f"{case['class']}: no table came back from the first conversion: {str(first)[:300]}")]
            before = case.get("text_before", case["text"])
            bad = self._compare(case.get("rows_before", want), first, case, f"[first conversion, through {f_how}] " + repr(before[:300]))
            if bad:
                return bad
            bad = self._compare(want, res, case, short)
            if bad:                                                     # the first conversion of the path was faithful, the second is not
                return [(f"asc-again/{bad[0][0]}", f"second conversion of the same path in one process (first through {f_how}; {what}): " + bad[0][1] + f": {short!r}")]
            return []
        if case["class"].startswith("blocks/"):
            short = f"document of {len(case['text'])} characters, {sorted(case['across'])} across every multiple of {case['step']} characters: " + short
        if want is None:
            if "exc" in res:
                return [] if res["exc"] == "ValueError" else [("asc-wrong-error", f"{case['class']}: raised {res['exc']} instead of a ValueError: {short!r}")]
            return [(f"asc-accepted/{case['class'].split('/')[0]}", f"{case['class']} document converted to {res['n']} node(s) instead of being rejected: {short!r}")]
        if "exc" in res:
            key = "asc-rejected/" + (case["class"].split("/")[1] if case["class"].startswith("named/") else case["class"].split("/")[0])
            return [(key, f"well-formed document rejected with {res['exc']}: {res.get('msg')}: {short!r}")]
        return self._compare(want, res, case, short)

    def _compare(self, want, res, case, short):
        """the table `res` against the rows the document states"""
        if not isinstance(res.get("n"), int):
            return [("asc-malformed-output", f"{case['class']}: the number of nodes is {res.get('n')!r}: {short!r}")]
        if res["n"] != len(want):
            rep = f" ({case['repeats']} of the points repeat the point they are attached to)" if case.get("repeats") else ""
            return [("asc-node-count", f"{res['n']} nodes for {len(want)} points{rep}: {short!r}")]
        if any(not isinstance(res[k], list) or len(res[k]) != len(want) for k in ("id", "pid", "type", "xyzr")):
            return [("asc-malformed-output", f"columns of {[len(res[k]) if isinstance(res[k], list) else None for k in ('id', 'pid', 'type', 'xyzr')]} entries for {len(want)} nodes: {short!r}")]
        if res["id"] != list(range(res["n"])):
            return [("asc-ids", "ids are not document order 0..n-1")]
        for k, (ty, vals, pid) in enumerate(want):
            if res["type"][k] != ty:
                return [("asc-type", f"point {k} typed {res['type'][k]}, label says {ty}")]
            if res["pid"][k] != pid:
                return [("asc-parent", f"point {k} has parent {res['pid'][k]}, the document says {pid}: {short!r}")]
            if res["xyzr"][k] != [float(np.float32(float(Fraction(v)))) for v in vals]:
                return [("asc-coords", f"point {k} has {res['xyzr'][k]}, the document says {[float(Fraction(v)) for v in vals]}")]
        return []

    def nontrivial(self, case, res):
        return case["rows"] is None or len(case["rows"]) >= 3

    def klass(self, case, res):
        return case["class"] + ("/raised" if "exc" in res else "")


GASC_MAX_TOKENS = 60000     # the generated definitions work on Lean lists (appending at the end is linear): longer documents only go through `asc`


def lex_real(text):
    """the token stream of the REAL `Lexer` as protocol words `<TokenType value>:<payload>` (a str value as code points, a float as `#k`
    = the k-th float of the document) and the floats; None when the lexer itself raises (a word that looks like a number and is none)"""
    from swcgeom.transforms.neurolucida_asc import Lexer

    words, floats = [], []
    try:
        for tok in Lexer(io.StringIO(text)):
            if isinstance(tok.value, float):
                words.append(f"{tok.type.value}:#{len(floats)}")
                floats.append(tok.value)
            else:
                words.append(f"{tok.type.value}:" + ".".join(str(ord(c)) for c in tok.value))
    except ValueError:
        return None, None
    return words, floats


GASCLEX_MAX_CHARS = 3000    # the generated lexer works on Lean strings through their character lists (each `read(1)` is linear)


def lex_real_positions(text):
    """the tokens of the REAL `Lexer` as (type, value, lineno, column) and how the iteration ended (`END` = StopIteration, `BAD` = ValueError)"""
    from swcgeom.transforms.neurolucida_asc import Lexer

    toks, end = [], "END"
    try:
        for tok in Lexer(io.StringIO(text)):
            toks.append((tok.type.value, tok.value, tok.lineno, tok.column))
    except ValueError:
        end = "BAD"
    return toks, end


def _gasclex_lines(case, res):
    """the `Lexer` GENERATED from the current source (`__init__`, `__next__`, `_read_word`, `_read_char`, `_read_line`, `_token`) run on the
    text and compared token by token (type, value, line, column) with the real `Lexer`; then generated lexer + generated parser + generated
    walk (`gasctext`) against the real `from_stream`"""
    text = case["text"]
    if len(text) > GASCLEX_MAX_CHARS:
        return []
    toks, end = lex_real_positions(text)

    def same_toks(got):
        words = got.split(" ")
        if words[-1] != end or len(words) - 1 != len(toks):
            return False
        for w, (ty, val, ln, col) in zip(words, toks):
            head, pos = w.rsplit("@", 1)
            t, v = head.split(":", 1)
            if int(t) != ty or pos != f"{ln}:{col}":
                return False
            if isinstance(val, float):
                if not v.startswith("F") or float(sci_value(v[1:])) != val:
                    return False
            elif v != ("_" if val == "" else ".".join(str(ord(c)) for c in val)):
                return False
        return True

    out = [(f"gasclex cp={cps(text)}", Expect(same_toks, "real=" + repr(toks)[:600] + " " + end))]
    # (when the lexer raises, `gasctext` runs the parser on the tokens before the failure and rejects iff the parser asked for more: the real
    # parser pulls tokens on demand)
    if "exc" in res:
        return out + [(f"gasctext cp={cps(text)}", "error")] if res["exc"] == "ValueError" else out

    def same_table(got):
        head, *rows = got.split(" | ")
        if head != f"ok {res['n']}" or len(rows) != res["n"]:
            return False
        for k, r in enumerate(rows):
            f = r.split()
            if int(f[0]) != res["id"][k] or int(f[1]) != res["type"][k] or int(f[6]) != res["pid"][k]:
                return False
            if [float(np.float32(float(sci_value(v)))) for v in f[2:6]] != res["xyzr"][k]:
                return False
        return True

    return out + [(f"gasctext cp={cps(text)}", Expect(same_table, "impl=" + repr({k: res[k] for k in ("id", "pid", "type")})[:600]))] + _bad_tail_lines(case)


BAD_TAILS = [" ( 1abc", " 1abc", " ; c\n ) 2.5.1 ("]   # a word `RE_FLOAT` matches and `float()` rejects, behind / at the parser's last look-ahead


def _bad_tail_lines(case):
    """derived inputs (computed here with the real library): the document followed by a word on which the lexer raises — the real parser pulls
    tokens on demand, so the failure only matters when the parser reaches it; the generated lexer + parser + walk must agree"""
    from swcgeom.transforms import NeurolucidaAscToSwc

    text = case["text"]
    if "via" in case and case.get("via") != "stream" or len(text) > 600:
        return []
    out = []
    for tail in BAD_TAILS:
        t2 = text + tail
        try:
            r2 = table_of(NeurolucidaAscToSwc.from_stream(io.StringIO(t2)))
        except ValueError:
            out.append((f"gasctext cp={cps(t2)}", "error"))
            continue

        def same(got, r2=r2):
            head, *rows = got.split(" | ")
            if head != f"ok {r2['n']}" or len(rows) != r2["n"]:
                return False
            for k, r in enumerate(rows):
                f = r.split()
                if int(f[0]) != r2["id"][k] or int(f[1]) != r2["type"][k] or int(f[6]) != r2["pid"][k]:
                    return False
                if [float(np.float32(float(sci_value(v)))) for v in f[2:6]] != r2["xyzr"][k]:
                    return False
            return True

        out.append((f"gasctext cp={cps(t2)}", Expect(same, "impl=" + repr({k: r2[k] for k in ("id", "pid", "type")})[:600])))
    return out


def _gasc_lines(case, res):
    """the definitions GENERATED from the current source of the token-level parser (`Parser._parse` and everything below it) and of
    `from_ast` / `walk_ast`, run on the token stream of the real lexer and compared with the real `from_stream`"""
    words, floats = lex_real(case["text"])
    if words is None or len(words) > GASC_MAX_TOKENS:
        return []
    line = "gasc toks=" + ",".join(words)
    if "exc" in res:
        return [(line, "error")]

    def same(got):
        head, *rows = got.split(" | ")
        if head != f"ok {res['n']}" or len(rows) != res["n"]:
            return False
        for k, r in enumerate(rows):
            f = r.split()
            if int(f[0]) != res["id"][k] or int(f[1]) != res["type"][k] or int(f[6]) != res["pid"][k]:
                return False
            if [float(np.float32(floats[int(v)])) for v in f[2:6]] != res["xyzr"][k]:
                return False
        return True

    return [(line, Expect(same, "impl=" + repr({k: res[k] for k in ("id", "pid", "type")})[:600]))]


def _ser(rows):
    return [(ty, [str(v) for v in vals], pid) for ty, vals, pid in rows]


def _parse_reference(text):
    """tiny independent reader for the hand-written named documents (grammar of DESIGN §C15)"""
    import re
    text = re.sub(r";[^\n]*", " ", text)
    toks = re.findall(r"[()|]|[^\s()|]+", text)
    pos = [0]

    def peek():
        return toks[pos[0]] if pos[0] < len(toks) else None

    def eat(t=None):
        x = toks[pos[0]]; pos[0] += 1
        assert t is None or x == t, (x, t)
        return x

    rows = []
    eat("(")
    while peek() == "(" and toks[pos[0] + 1].upper() == "COLOR":
        eat(); eat(); eat(); eat(")")
    eat("("); label = eat(); eat(")")
    ty = 2 if label.upper() == "AXON" else 3

    def branch(parent):
        cur = parent
        while peek() == "(":
            nxt = toks[pos[0] + 1]
            if nxt.upper() == "COLOR":
                eat(); eat(); eat(); eat(")")
                continue
            if nxt in ("(", "|", ")"):
                eat("(")
                while True:
                    branch(cur)
                    if peek() == "|":
                        eat(); continue
                    break
                eat(")")
                return
            eat("(")
            vals = [eat() for _ in range(4)]
            eat(")")
            rows.append((ty, [Fraction(_dec(v)) for v in vals], cur))
            cur = len(rows) - 1

    branch(-1)
    eat(")")
    return rows


SUITES = [Convert()]
TECHNIQUE = ("Lean 4 theorems by induction on the document grammar about the lexer/parser model (tokens of a rendered document; conversion = one row per "
             "point in document order with the stated parents, at any nesting depth and branch length; truncations rejected) + differential correspondence "
             "on generated, truncated and corrupted documents + an oracle that computes the table directly from the document")
LEVEL_TEXT = ("Kernel-checked for every document of the grammar (any nesting depth, any branch length, empty alternatives anywhere, colour markers and comments "
              "at the permitted token boundaries): the model of the parser returns exactly one row per point in document order, typed by the label, whose "
              "parent is the preceding point of its branch or the last point before the enclosing split; a token stream that ends early is an error.")
LEVEL_NOTE = ("Trusted: Lean kernel; the lexer / parser model is no longer tied by correspondence only: the character-level Lexer, the token-level Parser and "
              "from_ast / walk_ast are translated from the source on every run and PROVED equal to the model for every text (C15.generated_text_convert_eq_model_all); "
              "trusted remain CPython float() and the pinned RE_FLOAT pattern (parameters), the hand-written driver composition of the stages (how from_stream pulls tokens "
              "on demand), and the interpreter's recursion limit (known finding D33: nesting beyond half the limit raises).")
