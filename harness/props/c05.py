"""C05 — node renumbering is a pure relabelling with parents before children."""
import io
import warnings

import numpy as np

from harness import gen
from harness.framework import Suite

PID = "C05"
LEAN_MODS = ["SwcVerif.Props.C05", "SwcVerif.Props.C05Gen"]
TRANSLATE_ALGO = ["AlgoSort"]          # Gen/AlgoSort.lean is regenerated from normalizer.py::sort_nodes_impl on every run
DRIVER_FILES = ["SwcVerif/Model/AlgoRunSort.lean"]
THEOREMS = [
    "C05.machine_eq_pre", "C05.sort_ok", "C05.sort_perm", "C05.sort_sorted", "C05.sort_parent", "C05.sort_root",
    "C05.sort_indices", "C05.edge_is_row", "C05.sort_columns", "C05.sort_again", "C05.isSorted_iff",
    # refinement: the definition generated from sort_nodes_impl on this run returns the model's result
    "RefineSort.sort_refines", "C05.generated_sort_ok", "C05.generated_eq_model",
]
TRUSTED = ["hand-written model Model/Sort.lean of sort_nodes_impl (tied by the c05.sort correspondence suite: new parents, row indices and id map compared exactly)"]
ASSUMPTIONS = [
    "numpy boolean-mask indexing `old_ids[old_pids == old_id]` returns the matching ids in table order; dict(zip(ids, range)) is the position of an id (ids distinct)",
    "pandas/numpy column permutation `col[indices]` is `indices.map col`",
]


ID_SPANS = ["x40", "1e6", "int32"]


def sparse_table(rng, pids, span, rows="shuffled"):
    """table form whose ids keep the numbering of something much larger: distinct ids drawn from a range far wider than the table
    (40 n, a million, the whole int32 range), rows shuffled / listed by increasing id / by decreasing id"""
    n = len(pids)
    hi = {"x40": 40 * n + 50, "1e6": 10**6, "int32": 2**31 - 2}[span]
    lo = rng.choice([0, 1, hi // 2])
    pool = set()
    while len(pool) < n:
        pool.add(rng.randint(lo, hi))
    pool = list(pool)
    rng.shuffle(pool)  # pool[node] = id of the node: unrelated to the tree order
    order = list(range(n))
    if rows == "shuffled":
        rng.shuffle(order)
    else:
        order.sort(key=lambda o: pool[o], reverse=(rows == "by-id-desc"))
    return [pool[o] for o in order], [-1 if pids[o] == -1 else pool[pids[o]] for o in order], order


def wide_parents(rng, n, kind):
    """trees with a wide generation: a soma with many stems (bare, or each carrying a little subtree), a bush whose second
    generation is wide, besides gen's star / binary / highdeg"""
    if kind in ("star", "binary", "highdeg", "random"):
        return gen.parents_sorted(rng, n, kind)
    if kind == "stems":  # soma + w stems, the rest hangs below the stems
        w = rng.randint(max(2, n // 3), max(2, (3 * n) // 4))
        p = [-1] + [0] * min(w, n - 1)
        for i in range(len(p), n):
            p.append(rng.randint(1, i - 1))
        return p
    # "bush": a short trunk, a few boughs, every bough with many twigs
    t = rng.randint(1, 3)
    p = [-1] + list(range(t - 1))
    b = rng.randint(2, 4)
    boughs = list(range(len(p), len(p) + b))
    p += [t - 1] * b
    for i in range(len(p), n):
        p.append(rng.choice(boughs) if rng.random() < 0.8 else rng.randint(t, i - 1))
    return p[:max(n, 1)]


def pick_alias(rng, nx, k):
    """per-node columns that are ONE array object under two names (`tree.ndata["r_raw"] = tree.r()`, `Tree(n, a=arr, b=arr)`,
    the old numbering kept as a column): [new name, name of the column whose array it is]"""
    options = [[["r_raw", "r"]], [["old_id", "id"]], [["old_pid", "pid"], ["r_raw", "r"]], [["kind", "type"], ["old_id", "id"]]]
    if nx:
        options += [[["e0_again", "e0"]], [["e0_again", "e0"], ["e0_third", "e0"]]]
    return options[k % len(options)] if rng.random() < 0.8 else rng.choice(options)


def sort_case(rng, n, shape, form, span=None, rows="shuffled", storage="own", k=0):
    pids = wide_parents(rng, n, shape) if shape in ("stems", "bush") else gen.parents_sorted(rng, n, shape)
    n = len(pids)
    if form == "table" and span:
        ids, pp, order = sparse_table(rng, pids, span, rows)
    elif form == "table":
        ids, pp, order = gen.table_form(rng, pids)
    elif form == "root0":
        pp = gen.renumber_root0(rng, pids)
        ids = list(range(n))
    elif form == "rootany":  # ids = positions, root anywhere
        perm = list(range(n))
        rng.shuffle(perm)
        ids = list(range(n))
        pp = [0] * n
        for old, p in enumerate(pids):
            pp[perm[old]] = -1 if p == -1 else perm[p]
    else:
        ids, pp = list(range(n)), pids
    nx = rng.choice([0, 0, 1, 3])
    case = {"class": f"{shape}/{form}" + (f"/ids-{span}" if form == "table" and span else "") + (f"/{storage}" if storage != "own" else ""),
            "ids": ids, "pids": pp, "key": list(range(100, 100 + n)),
            "types": [rng.randint(0, 7) for _ in range(n)], "r": [rng.randint(1, 40) / 8 for _ in range(n)],
            "extra": [[rng.randint(-50, 50) / 4 for _ in range(n)] for _ in range(nx)], "form": form}
    if form != "table" and storage != "own":
        # how the tree object holds its columns (the property speaks of the columns, not of their storage)
        case["storage"] = storage
        if storage == "shared":
            case["alias"] = pick_alias(rng, nx, k)
    return case


def alias_source(inp, src, o):
    """value of column `src` at input row o"""
    if src.startswith("e") and src[1:].isdigit():
        return inp["extra"][int(src[1:])][o]
    return {"id": inp["ids"], "pid": inp["pids"], "type": inp["types"], "r": inp["r"], "x": inp["key"]}[src][o]


def check_relabelling(inp, out, what):
    """out = dict(id, pid, key, type, r, extra...) lists; the property read literally"""
    n = len(inp["ids"])
    res = []
    if len(out["id"]) != n:
        return [("sort-node-count", f"{what}: {len(out['id'])} nodes out of {n}")]
    if list(out["id"]) != list(range(n)):
        res.append(("sort-ids", f"{what}: new ids are not 0..n-1: {out['id'][:8]}"))
    if out["pid"][0] != -1:
        res.append(("sort-root", f"{what}: node 0 has parent {out['pid'][0]}"))
    for k in range(1, n):
        if not (0 <= out["pid"][k] < k):
            res.append(("sort-order", f"{what}: node {k} has parent {out['pid'][k]} (parents must precede children)"))
            break
    row_of_key = {k: i for i, k in enumerate(inp["key"])}
    if sorted(out["key"]) != sorted(inp["key"]):
        return res + [("sort-bijection", f"{what}: result nodes are not a permutation of the input nodes")]
    for k in range(n):
        o = row_of_key[out["key"][k]]
        for c in ["types", "r"] + [f"extra{j}" for j in range(len(inp["extra"]))]:
            a = inp["extra"][int(c[5:])][o] if c.startswith("extra") else inp[c][o]
            b = out[c][k]
            if a != b:
                res.append(("sort-columns", f"{what}: column {c} of new node {k} is {b}, the corresponding old node has {a}"))
                return res
        for name, src in (inp.get("alias") or []) if "alias" in out else []:
            a, b = alias_source(inp, src, o), out["alias"][name][k]
            if a != b:
                res.append(("sort-columns", f"{what}: extra column {name!r} (the same array as {src!r} in the input tree) of new node {k} is {b}, "
                                            f"the corresponding old node has {a}"))
                return res
        if "seg" in out and out["seg"][k] != 2**60 + 7 * (out["key"][k] - 100) + 1:
            res.append(("sort-columns", f"{what}: the 64-bit integer column of new node {k} is {out['seg'][k]}, its node had {2**60 + 7 * (out['key'][k] - 100) + 1}"))
            return res
        oldp = inp["pids"][o]
        newp = out["pid"][k]
        if newp == -1:
            if oldp != -1:
                res.append(("sort-parent", f"{what}: new node {k} is a root but its old node has parent {oldp}")); return res
        else:
            if not (0 <= newp < n):
                res.append(("sort-parent", f"{what}: new node {k} has parent {newp} outside the table")); return res
            po = row_of_key[out["key"][newp]]
            if inp["ids"][po] != oldp:
                res.append(("sort-parent", f"{what}: new node {k} hangs from new {newp} (old id {inp['ids'][po]}), its old parent is {oldp}"))
                return res
    return res


class SortSuite(Suite):
    name = "c05.sort"

    def cases(self, rng, tier, widen):
        out = []
        reps = 3 if tier == "quick" and not widen else 10
        k = 0
        for n in gen.sizes(tier, widen):
            for _ in range(reps):
                shape = gen.pick_shape(rng, k); k += 1
                form = ["table", "root0", "rootany", "sorted"][k % 4]
                # tables: every other one with ids far apart; tree objects: the ways a Tree can hold its columns, in turn
                out.append(sort_case(rng, n, shape, form, span=ID_SPANS[(k // 8) % 3] if (k // 4) % 2 else None,
                                     rows=["shuffled", "by-id", "by-id-desc"][(k // 4) % 3],
                                     storage=["own", "shared", "views", "shared", "readonly"][(k // 4) % 5], k=k // 4))
        # ids far apart x a wide generation (a soma with many stems, a bush, a star, a full binary tree): the tables cut out of a
        # larger reconstruction; and the same trees as tree objects under a random numbering, with columns sharing one array
        big = [24, 40, 70, 130] if tier == "quick" and not widen else [24, 40, 70, 130, 200, 300, 500]
        j = 0
        for n in big:
            for shape in ["stems", "bush", "star", "binary", "highdeg"]:
                for _ in range(1 if tier == "quick" and not widen else 3):
                    out.append(sort_case(rng, n, shape, "table", span=ID_SPANS[j % 3], rows=["shuffled", "by-id", "shuffled", "by-id-desc"][j % 4]))
                    if n <= 70:
                        out.append(sort_case(rng, n, shape, ["rootany", "root0"][j % 2], storage=["shared", "views"][j % 3 == 2], k=j))
                    j += 1
        # small scope, exhaustively: every tree with the root first on up to 4 (5) nodes — as a tree object, and as a table whose rows are
        # rotated / reversed and whose ids are spread out
        for n in range(1, (6 if tier == "thorough" or widen else 5)):
            for t, pids in enumerate(gen.all_root0_trees(n)):
                base = {"key": list(range(100, 100 + n)), "types": [(3 * i + t) % 8 for i in range(n)], "r": [(i + 1) / 8 for i in range(n)],
                        "extra": [[float(i * i) for i in range(n)]] if t % 3 == 0 else []}
                out.append({"class": f"all-n{n}/root0", "ids": list(range(n)), "pids": pids, "form": "root0", **base})
                if n >= 3:  # the same tree object with two names for one column
                    al = [[["r_raw", "r"]], [["old_id", "id"]], [["old_pid", "pid"], ["kind", "type"]]][t % 3]
                    out.append({"class": f"all-n{n}/root0/shared", "ids": list(range(n)), "pids": pids, "form": "root0", **base,
                                "storage": "shared", "alias": al})
                ids = [7 + 3 * i for i in range(n)]
                order = list(range(n))[t % n:] + list(range(n))[:t % n]
                if t % 2:
                    order.reverse()
                row = lambda col: [col[i] for i in order]
                out.append({"class": f"all-n{n}/table", "ids": row(ids), "pids": row([-1 if p < 0 else ids[p] for p in pids]), "form": "table",
                            "key": row(base["key"]), "types": row(base["types"]), "r": row(base["r"]), "extra": [row(e) for e in base["extra"]]})
        return out

    def run(self, case):
        import pandas as pd
        from swcgeom.core import Tree
        from swcgeom.core.swc_utils import is_sorted, read_swc, sort_nodes, sort_nodes_, sort_nodes_impl
        from swcgeom.core.tree_utils import sort_tree

        ids = np.array(case["ids"], dtype=np.int32)
        pids = np.array(case["pids"], dtype=np.int32)
        n = len(ids)
        res = {}
        (nid, npid), indices = sort_nodes_impl((ids.copy(), pids.copy()))
        res["impl"] = {"new_ids": nid.tolist(), "new_pids": npid.tolist(), "indices": indices.tolist()}
        cols = {"id": ids, "type": np.array(case["types"], dtype=np.int32), "x": np.array(case["key"], dtype=np.float32),
                "y": np.zeros(n, dtype=np.float32), "z": np.zeros(n, dtype=np.float32), "r": np.array(case["r"], dtype=np.float32), "pid": pids}
        for j, e in enumerate(case["extra"]):
            cols[f"e{j}"] = np.array(e, dtype=np.float32)
        df = pd.DataFrame(cols)
        # a 64-bit integer column (segment / database ids): values that no float can hold
        df["seg"] = np.array([2**60 + 7 * (k - 100) + 1 for k in case["key"]], dtype=np.int64)
        before = df.copy()
        d2 = sort_nodes(df)
        res["df_input_unchanged"] = bool(df.equals(before))

        def pack(get, ex=True):
            o = {"id": [int(v) for v in get("id")], "pid": [int(v) for v in get("pid")], "key": [int(v) for v in get("x")],
                 "types": [int(v) for v in get("type")], "r": [float(v) for v in get("r")]}
            for j in range(len(case["extra"])):
                o[f"extra{j}"] = [float(v) for v in get(f"e{j}")] if ex else [case["extra"][j][case["key"].index(k)] for k in o["key"]]
            try:
                o["seg"] = [int(v) for v in get("seg")]
            except Exception:  # noqa: BLE001 - only the data-frame forms carry the column
                pass
            return o

        res["df"] = pack(lambda c: d2[c].tolist())
        d3 = sort_nodes(d2)
        res["df2"] = pack(lambda c: d3[c].tolist())
        d4 = before.copy()
        sort_nodes_(d4)  # the in-place form of the table sort
        res["df_inplace"] = pack(lambda c: d4[c].tolist())
        res["is_sorted_in"] = bool(is_sorted((ids, pids)))
        res["is_sorted_out"] = bool(is_sorted((d2["id"].to_numpy(), d2["pid"].to_numpy())))
        # tree API needs ids = positions
        if case["form"] != "table":
            storage = case.get("storage", "own")
            mine = {k: v.copy() for k, v in cols.items()}
            if storage == "views":  # the float columns are columns of one 2-d block, the int columns slices of one buffer
                fl = [k for k, v in mine.items() if v.dtype == np.float32]
                block = np.stack([mine[k] for k in fl], axis=1)
                mine.update({k: block[:, j] for j, k in enumerate(fl)})
                it = [k for k, v in mine.items() if v.dtype == np.int32]
                buf = np.concatenate([mine[k] for k in it])
                mine.update({k: buf[j * n:(j + 1) * n] for j, k in enumerate(it)})
            alias = case.get("alias") or []
            for name, src in alias:  # extra columns go through the constructor: Tree(n, ..., a=arr, b=arr)
                if src.startswith("e"):
                    mine[name] = mine[src]
            if storage == "readonly":
                for v in mine.values():
                    v.setflags(write=False)
            t = Tree(n, **mine)
            for name, src in alias:  # standard columns: tree.ndata["r_raw"] = tree.r()
                if not src.startswith("e"):
                    t.ndata[name] = t.ndata[src]
            expect_in = {k: np.array(t.get_ndata(k), copy=True) for k in t.ndata}
            st = sort_tree(t)
            res["tree"] = pack(lambda c: st.get_ndata(c).tolist())
            if alias:
                res["tree"]["alias"] = {name: [float(v) for v in st.get_ndata(name)] for name, _ in alias}
            res["tree_input_unchanged"] = bool(all(np.array_equal(t.get_ndata(k), cols[k]) for k in cols)
                                               and all(np.array_equal(t.get_ndata(k), expect_in[k]) for k in expect_in))
        # reading with sort_nodes=True
        lines = []
        for k in range(n):
            ex = "".join(f" {case['extra'][j][k]!r}" for j in range(len(case["extra"])))
            lines.append(f"{case['ids'][k]} {case['types'][k]} {case['key'][k]} 0 0 {case['r'][k]!r} {case['pids'][k]}{ex}\n")
        with warnings.catch_warnings():
            warnings.simplefilter("ignore")
            dfr, _ = read_swc(io.StringIO("".join(lines)), sort_nodes=True, extra_cols=[f"e{j}" for j in range(len(case["extra"]))] or None)
        res["read"] = pack(lambda c: dfr[c].tolist())
        return res

    def lines(self, case, res):
        if "exc" in res:
            return []
        i = res["impl"]
        a = f"ids={gen.ints(case['ids'])} pids={gen.ints(case['pids'])}"
        idmap = [case["ids"][k] for k in i["indices"]]
        return [("sort " + a, f"{gen.ints(i['new_pids'])} / {gen.ints(i['indices'])} / {gen.ints(idmap)}"),
                # the definition generated from sort_nodes_impl on this run (translator cross-check)
                ("gsort " + a, f"{gen.ints(i['new_pids'])} / {gen.ints(i['indices'])}"),
                ("issorted " + a, str(res["is_sorted_in"])),
                (f"issorted ids={gen.ints(res['df']['id'])} pids={gen.ints(res['df']['pid'])}", str(res["is_sorted_out"]))]

    def oracle(self, case, res):
        if "exc" in res:
            return [("sort-raises", f"sorting a well-formed table raised {res['exc']}: {res.get('msg')}")]
        out = []
        n = len(case["ids"])
        i = res["impl"]
        if i["new_ids"] != list(range(n)):
            out.append(("sort-ids", f"sort_nodes_impl new ids {i['new_ids'][:8]}"))
        for what in ("df", "df_inplace", "read", "tree"):
            if what in res:
                out += check_relabelling(case, res[what], {"df": "sort_nodes", "df_inplace": "sort_nodes_", "read": "read_swc(sort_nodes=True)",
                                                           "tree": "sort_tree"}[what])
        # sorting again: relabelling of the sorted result, still sorted
        again_in = {"ids": res["df"]["id"], "pids": res["df"]["pid"], "key": res["df"]["key"], "types": res["df"]["types"], "r": res["df"]["r"],
                    "extra": [res["df"][f"extra{j}"] for j in range(len(case["extra"]))]}
        out += [(k + "/again", m) for k, m in check_relabelling(again_in, res["df2"], "sort_nodes∘sort_nodes")]
        if not res["is_sorted_out"]:
            out.append(("is-sorted-out", "is_sorted is False on the sorted result"))
        truth = all(p < i_ for i_, p in zip(case["ids"], case["pids"]))
        if res["is_sorted_in"] != truth:
            out.append(("is-sorted", f"is_sorted says {res['is_sorted_in']} on ids={case['ids']} pids={case['pids']}"))
        if not res["df_input_unchanged"] or res.get("tree_input_unchanged") is False:
            out.append(("sort-mutates-input", "sort_nodes / sort_tree modified its argument"))
        return out[:4]

    def nontrivial(self, case, res):
        return len(case["ids"]) >= 3


SUITES = [SortSuite()]
TECHNIQUE = ("Lean 4 theorems: the stack loop of sort_nodes_impl equals a structural pre-order on Rose (induction, any shape/numbering/row order); "
             "the output is a bijective relabelling that transports the parent relation and permutes every column, with parents before children "
             "sort_nodes_impl itself is TRANSLATED from the current source on every run (harness/translate_algo.py → Gen/AlgoSort.lean: np.full_like fillers, list-as-stack, "
             "`old_ids[old_pids == old_id]`, dict(zip(...)) index, final comprehension) and proved to return the model's result on every tree table (RefineSort.sort_refines, C05.generated_sort_ok) "
             "+ differential correspondence of the loop model AND the generated definition against sort_nodes_impl + direct relabelling oracle on sort_tree / sort_nodes / read_swc(sort_nodes=True)")
LEVEL_TEXT = ("Kernel-checked for every table that is a tree (arbitrary distinct ids, arbitrary row order, root anywhere): the model of the sorting loop "
              "terminates after exactly n pops, its id map is a permutation of the ids, new parent = new index of the old parent (root ↦ -1), every parent "
              "index is smaller than the child's, node 0 is the root, and every column is read through the same row permutation; sorting again is again such a relabelling.")
LEVEL_NOTE = ("Trusted: Lean kernel; the imperative translator and its semantics library Model/Py.lean (numpy mask indexing, list / dict semantics; cross-checked by running the generated "
              "definition against the real function); the DataFrame glue of sort_nodes_ / _sort_tree is tied by correspondence; "
              "pandas column assignment.")
