"""C05 — node renumbering is a pure relabelling with parents before children."""
import io
import re
import warnings

import numpy as np

from harness import gen
from harness.framework import Suite

PID = "C05"
LEAN_MODS = ["SwcVerif.Props.C05", "SwcVerif.Props.C05Gen", "SwcVerif.Props.C05Wrap"]
# Gen/AlgoSort.lean is regenerated from normalizer.py::sort_nodes_impl on every run; Gen/AlgoSortWrap.lean from tree_utils.py::sort_tree, on top of
# `_sort_tree` in Gen/AlgoRedirect.lean (which imports Gen/AlgoNode.lean) (harness/algo_specs/72_helpers.py, T41)
# the table forms `sort_nodes_` (Gen/AlgoRepair.lean) / `sort_nodes` (Gen/AlgoCtor.lean) with the modules they import
TRANSLATE_ALGO = ["AlgoSort", "AlgoNode", "AlgoRedirect", "AlgoSortWrap", "AlgoDsu", "AlgoCheckers", "AlgoNormalizer", "AlgoRepair", "AlgoCtor"]
DRIVER_FILES = ["SwcVerif/Model/AlgoRunSort.lean", "SwcVerif/Model/AlgoRunSortWrap.lean", "SwcVerif/Gen/AlgoSortWrap.lean", "SwcVerif/Model/AlgoRunCtor.lean"]
THEOREMS = [
    "C05.machine_eq_pre", "C05.sort_ok", "C05.sort_perm", "C05.sort_sorted", "C05.sort_parent", "C05.sort_root",
    "C05.sort_indices", "C05.edge_is_row", "C05.sort_columns", "C05.sort_again", "C05.isSorted_iff",
    # refinement: the definition generated from sort_nodes_impl on this run returns the model's result
    "RefineSort.sort_refines", "C05.generated_sort_ok", "C05.generated_eq_model",
    # the wrapper the user calls, tree_utils.sort_tree = the generated _sort_tree on a copy (Props/C05Wrap.lean)
    "C05.generated_sort_tree_eq", "C05.generated_sort_tree_ok",
    # the table forms: sort_nodes_ (in place, also the step of read_swc(sort_nodes=True)) and sort_nodes (copying, with its frame statement)
    "C05.sortNodes_refines", "C05.generated_sort_nodes_inplace_ok", "C05.generated_sort_nodes_ok",
]
TRUSTED = ["imperative translator + the glue of sort_tree (harness/algo_specs/72_helpers.py: `tree.copy()` is the local columns), _sort_tree (translate_algo.py), sort_nodes_ / sort_nodes (50_repair.py, 51_ctor.py), cross-checked by the gsorttree / gcopying lines",
           "hand-written model Model/Sort.lean of sort_nodes_impl (tied by the c05.sort correspondence suite: new parents, row indices and id map compared exactly)"]
ASSUMPTIONS = [
    "numpy boolean-mask indexing `old_ids[old_pids == old_id]` returns the matching ids in table order; dict(zip(ids, range)) is the position of an id (ids distinct)",
    "pandas/numpy column permutation `col[indices]` is `indices.map col`",
]


ID_SPANS = ["x40", "1e6", "int32"]


def sparse_table(rng, pids, span, rows="shuffled"):
    """table form whose ids keep the numbering of something much larger: distinct ids drawn from a range far wider than the table
    (40 n, a million, the whole int32 range), rows shuffled / listed by increasing id / by decreasing id"""
    n = len(pids)
    hi = {"x40": 40 * n + 50, "1e6": 10**6, "int32": 2**31 - 2}[span]
    lo = rng.choice([0, 1, hi // 2])
    pool = set()
    while len(pool) < n:
        pool.add(rng.randint(lo, hi))
    pool = list(pool)
    rng.shuffle(pool)  # pool[node] = id of the node: unrelated to the tree order
    order = list(range(n))
    if rows == "shuffled":
        rng.shuffle(order)
    else:
        order.sort(key=lambda o: pool[o], reverse=(rows == "by-id-desc"))
    return [pool[o] for o in order], [-1 if pids[o] == -1 else pool[pids[o]] for o in order], order


WORD_BITS = [31, 32, 33, 40, 48, 56]


def packed_id_table(rng, pids, bits, rows="shuffled"):
    """table form with 64-bit ids made of two fields, id = block * 2**bits + local index (a reconstruction cut out of a volume
    whose node ids carry the block / segment number in the high word): the local indices come from a pool smaller than the table, so
    they repeat from block to block; the ids are distinct as 64-bit integers — what pandas holds for an integer column and what the
    parser of read_swc produces — and differ only ABOVE bit `bits` for some pairs of nodes"""
    n = len(pids)
    lows = [rng.randint(0, 60) for _ in range(max(1, (n + 2) // 3))]
    blocks = list(range(0, 5)) if bits <= 33 else [0] + [rng.randint(1, 2 ** (62 - bits) - 1) for _ in range(4)]
    pool = set()
    while len(pool) < n:
        pool.add(rng.choice(blocks) * 2 ** bits + rng.choice(lows))
        if len(pool) < n and rng.random() < 0.2:
            pool.add(rng.choice(blocks) * 2 ** bits + rng.randint(0, 60))
    pool = list(pool)
    rng.shuffle(pool)
    order = list(range(n))
    if rows == "shuffled":
        rng.shuffle(order)
    else:
        order.sort(key=lambda o: pool[o], reverse=(rows == "by-id-desc"))
    return [pool[o] for o in order], [-1 if pids[o] == -1 else pool[pids[o]] for o in order], order


def wide_parents(rng, n, kind):
    """trees with a wide generation: a soma with many stems (bare, or each carrying a little subtree), a bush whose second
    generation is wide, besides gen's star / binary / highdeg"""
    if kind in ("star", "binary", "highdeg", "random"):
        return gen.parents_sorted(rng, n, kind)
    if kind == "stems":  # soma + w stems, the rest hangs below the stems
        w = rng.randint(max(2, n // 3), max(2, (3 * n) // 4))
        p = [-1] + [0] * min(w, n - 1)
        for i in range(len(p), n):
            p.append(rng.randint(1, i - 1))
        return p
    # "bush": a short trunk, a few boughs, every bough with many twigs
    t = rng.randint(1, 3)
    p = [-1] + list(range(t - 1))
    b = rng.randint(2, 4)
    boughs = list(range(len(p), len(p) + b))
    p += [t - 1] * b
    for i in range(len(p), n):
        p.append(rng.choice(boughs) if rng.random() < 0.8 else rng.randint(t, i - 1))
    return p[:max(n, 1)]


def pick_alias(rng, nx, k):
    """per-node columns that are ONE array object under two names (`tree.ndata["r_raw"] = tree.r()`, `Tree(n, a=arr, b=arr)`,
    the old numbering kept as a column): [new name, name of the column whose array it is]"""
    options = [[["r_raw", "r"]], [["old_id", "id"]], [["old_pid", "pid"], ["r_raw", "r"]], [["kind", "type"], ["old_id", "id"]]]
    if nx:
        options += [[["e0_again", "e0"]], [["e0_again", "e0"], ["e0_third", "e0"]]]
    return options[k % len(options)] if rng.random() < 0.8 else rng.choice(options)


def sort_case(rng, n, shape, form, span=None, rows="shuffled", storage="own", k=0):
    pids = wide_parents(rng, n, shape) if shape in ("stems", "bush") else gen.parents_sorted(rng, n, shape)
    n = len(pids)
    if form == "table" and isinstance(span, int):
        ids, pp, order = packed_id_table(rng, pids, span, rows)
    elif form == "table" and span:
        ids, pp, order = sparse_table(rng, pids, span, rows)
    elif form == "table":
        ids, pp, order = gen.table_form(rng, pids)
    elif form == "root0":
        pp = gen.renumber_root0(rng, pids)
        ids = list(range(n))
    elif form == "rootany":  # ids = positions, root anywhere
        perm = list(range(n))
        rng.shuffle(perm)
        ids = list(range(n))
        pp = [0] * n
        for old, p in enumerate(pids):
            pp[perm[old]] = -1 if p == -1 else perm[p]
    else:
        ids, pp = list(range(n)), pids
    nx = rng.choice([0, 0, 1, 3])
    case = {"class": f"{shape}/{form}" + (f"/ids-{span}" if form == "table" and span else "") + (f"/{storage}" if storage != "own" else ""),
            "ids": ids, "pids": pp, "key": list(range(100, 100 + n)),
            "types": [rng.randint(0, 7) for _ in range(n)], "r": [rng.randint(1, 40) / 8 for _ in range(n)],
            "extra": [[rng.randint(-50, 50) / 4 for _ in range(n)] for _ in range(nx)], "form": form}
    if form == "table" and isinstance(span, int):
        case["idtype"] = "int64"
        case["class"] = f"{shape}/table/ids-int64-word{span}"
    if form != "table" and storage != "own":
        # how the tree object holds its columns (the property speaks of the columns, not of their storage)
        case["storage"] = storage
        if storage == "shared":
            case["alias"] = pick_alias(rng, nx, k)
    return case


def alias_source(inp, src, o):
    """value of column `src` at input row o"""
    if src.startswith("e") and src[1:].isdigit():
        return inp["extra"][int(src[1:])][o]
    return {"id": inp["ids"], "pid": inp["pids"], "type": inp["types"], "r": inp["r"], "x": inp["key"]}[src][o]


# ----------------------------------------------------------------------------------------------------------------------
# family "extra per-node columns of every pandas kind, with MISSING values" (a measurement that exists for part of the neuron
# only, a label given to some nodes): the property speaks of "any set of extra per-node columns"; a missing entry is the value
# of that node and travels with it.  Values are stored in the case as JSON (null = missing) and built in run().
XKINDS = ["float-nan", "object-none", "Int64-NA", "float32-nan", "string-NA", "datetime-NaT", "boolean-NA", "category-nan"]
XWHERE = ["some", "root", "all", "all-but-one", "leaves", "inner", "none"]
TREE_XKINDS = ("float-nan", "float32-nan", "object-none")  # what a Tree holds as a numpy column


def missing_column(rng, kind, where, ids, pids_in_rows, name):
    n = len(pids_in_rows)
    if kind in ("float-nan", "float32-nan"):
        vals = [rng.randint(-80, 80) / 4 for _ in range(n)]
    elif kind in ("object-none", "string-NA"):
        vals = ["".join(rng.choice("abcdxyz") for _ in range(rng.randint(1, 4))) for _ in range(n)]
    elif kind == "Int64-NA":
        vals = [rng.randint(-1000, 1000) for _ in range(n)]
    elif kind == "datetime-NaT":
        vals = [rng.randint(0, 9000) for _ in range(n)]  # days after 2000-01-01
    elif kind == "boolean-NA":
        vals = [rng.random() < 0.5 for _ in range(n)]
    else:
        vals = [rng.choice(["axon", "dend", "apic"]) for _ in range(n)]
    parents = set(pids_in_rows)
    rows = list(range(n))
    if where == "some":
        miss = [k for k in rows if rng.random() < 0.35] or [rng.randrange(n)]
    elif where == "root":
        miss = [k for k in rows if pids_in_rows[k] == -1]
    elif where == "all":
        miss = rows
    elif where == "all-but-one":
        keep = rng.randrange(n)
        miss = [k for k in rows if k != keep]
    elif where == "leaves":
        miss = [k for k in rows if ids[k] not in parents]
    elif where == "inner":
        miss = [k for k in rows if ids[k] in parents]
    else:
        miss = []  # the control: the same kinds of column, complete
    for k in miss:
        vals[k] = None
    return {"name": name, "kind": kind, "where": where, "values": vals}


def add_missing_columns(rng, case, kinds, where):
    cols = [missing_column(rng, kind, where if j == 0 else rng.choice(XWHERE[:-1]), case["ids"], case["pids"], f"m{j}_{kind.split('-')[0]}")
            for j, kind in enumerate(kinds)]
    case["xcols"] = cols
    case["class"] = f"missing/{cols[0]['kind']}/{'table' if case['form'] == 'table' else 'tree+table'}"
    return case


def build_xcol(kind, values):
    import pandas as pd
    if kind == "float-nan":
        return np.array([np.nan if v is None else v for v in values], dtype=np.float64)
    if kind == "float32-nan":
        return np.array([np.nan if v is None else v for v in values], dtype=np.float32)
    if kind == "object-none":
        a = np.empty(len(values), dtype=object)
        a[:] = values
        return a
    if kind == "Int64-NA":
        return pd.array(values, dtype="Int64")
    if kind == "string-NA":
        return pd.array(values, dtype="string")
    if kind == "boolean-NA":
        return pd.array(values, dtype="boolean")
    if kind == "datetime-NaT":
        return pd.to_datetime([None if v is None else pd.Timestamp("2000-01-01") + pd.Timedelta(days=v) for v in values])
    return pd.Categorical(values)


def norm_x(kind, v):
    """what the column holds for one node, as JSON: None = missing"""
    import pandas as pd
    try:
        if v is None or v is pd.NaT or v is pd.NA or (isinstance(v, (float, np.floating)) and v != v):
            return None
        if kind == "datetime-NaT":
            return int((pd.Timestamp(v) - pd.Timestamp("2000-01-01")).days)
        if kind in ("float-nan", "float32-nan"):
            return float(v)
        if kind == "Int64-NA":
            return int(v) if float(v) == int(v) else float(v)
        if kind == "boolean-NA":
            return bool(v)
        return str(v)
    except Exception as e:  # noqa: BLE001 - an entry of another nature than the column had: reported as a changed value
        return f"<{type(v).__name__}: {e}>"


# ----------------------------------------------------------------------------------------------------------------------
# family "the table has a HISTORY": it descends from a table the library returned earlier (sort_nodes, sort_nodes_,
# read_swc(sort_nodes=True)) through ordinary pandas steps — a new numbering (Series.map / column assignment / assign()),
# rows in another order (sample / iloc / sort_values), another root, copies of every kind, columns added or dropped — some on
# the same object, some on derived ones.  The derived table is again a single-rooted tree under some numbering, so sorting
# it must again be a relabelling of IT.  The steps are stored in the case; the objects are built in run().
H_SOURCES = ["sort_nodes", "sort_nodes_", "read_swc", "sort_nodes-twice"]
H_RENUMBER = ["renumber-map", "renumber-setitem", "renumber-assign"]
H_SHUFFLE = ["shuffle-sample", "shuffle-iloc", "shuffle-sort_values"]
H_COPY = ["copy", "deepcopy", "pickle", "constructor", "columns", "astype"]


def history_steps(rng, n, k):
    """a recipe that leaves the table under a numbering other than the sorted one"""
    core = [[H_RENUMBER[k % 3]], [H_SHUFFLE[k % 3]], [H_RENUMBER[(k // 3) % 3], H_SHUFFLE[k % 3]], ["reroot", H_RENUMBER[k % 3]],
            ["reroot"], [H_SHUFFLE[k % 3], "reroot"]][k % 6]
    ops = list(core)
    if rng.random() < 0.6:
        ops.insert(rng.randint(0, len(ops)), rng.choice(H_COPY))
    if rng.random() < 0.3:
        ops.insert(rng.randint(0, len(ops)), rng.choice(["addcol", "dropcol"]))
    steps = []
    for op in ops:
        st = {"op": op}
        if op in H_RENUMBER:  # new id of the node with the r-th smallest current id
            hi = rng.choice([n, 3 * n + 3, 40 * n + 50, 10**6])
            lo = rng.choice([0, 1, 7])
            st["ids"] = rng.sample(range(lo, lo + hi), n)
        elif op == "shuffle-sample":
            st["rs"] = rng.randint(0, 2**30)
        elif op == "shuffle-iloc":
            st["perm"] = rng.sample(range(n), n)
        elif op == "shuffle-sort_values":
            st["by"], st["ascending"] = rng.choice(["x", "r", "type"]), rng.random() < 0.5
        elif op == "reroot":
            st["key"] = 100 + rng.randrange(n)
        elif op == "addcol":
            st["values"] = [rng.randint(0, 99) for _ in range(n)]
        steps.append(st)
    return steps


def apply_step(d, st):
    """one ordinary pandas step on the table d; returns the table to go on with (the same object where the step is in place)"""
    import copy
    import pickle

    import pandas as pd
    op = st["op"]
    if op in H_RENUMBER:
        cur = sorted(int(v) for v in d["id"])
        m = dict(zip(cur, st["ids"]))
        m[-1] = -1
        if op == "renumber-map":
            d["id"], d["pid"] = d["id"].map(m), d["pid"].map(m)
        elif op == "renumber-setitem":
            new_id, new_pid = np.array([m[int(v)] for v in d["id"]]), np.array([m[int(v)] for v in d["pid"]])
            d["id"], d["pid"] = new_id, new_pid
        else:
            d = d.assign(id=[m[int(v)] for v in d["id"]], pid=[m[int(v)] for v in d["pid"]])
        return d
    if op == "shuffle-sample":
        return d.sample(frac=1, random_state=st["rs"]).reset_index(drop=True)
    if op == "shuffle-iloc":
        return d.iloc[st["perm"]].reset_index(drop=True)
    if op == "shuffle-sort_values":
        return d.sort_values(st["by"], ascending=st["ascending"], kind="stable").reset_index(drop=True)
    if op == "reroot":  # turn the edges on the way from the chosen node up to the root around
        par = {int(i): int(p) for i, p in zip(d["id"], d["pid"])}
        hit = d.loc[d["x"] == st["key"], "id"]
        a = int(hit.iloc[0])
        path = [a]
        while par[path[-1]] != -1 and len(path) <= len(par):
            path.append(par[path[-1]])
        for child, parent in zip(path[:-1], path[1:]):
            d.loc[d["id"] == parent, "pid"] = child
        d.loc[d["id"] == a, "pid"] = -1
        return d
    if op == "addcol":
        d["note"] = st["values"]
        return d
    if op == "dropcol":
        return d.drop(columns=["z"])
    if op == "copy":
        return d.copy()
    if op == "deepcopy":
        return copy.deepcopy(d)
    if op == "pickle":
        return pickle.loads(pickle.dumps(d))
    if op == "constructor":
        return pd.DataFrame(d)
    if op == "columns":
        return d[list(d.columns)]
    if op == "astype":
        return d.astype({"x": np.float64, "r": np.float64})
    raise ValueError(f"unknown step {op}")


def tree_table_defect(ids, pids):
    """None when (ids, pids) is a single-rooted tree under some numbering (what the property quantifies over)"""
    n = len(ids)
    if n == 0 or len(pids) != n or len(set(ids)) != n or any(i < 0 for i in ids):
        return "ids empty / not distinct / negative"
    if sum(1 for p in pids if p == -1) != 1:
        return "not exactly one root"
    par = dict(zip(ids, pids))
    if any(p != -1 and p not in par for p in pids):
        return "a parent is missing"
    for i in ids:
        j, steps = i, 0
        while par[j] != -1:
            j, steps = par[j], steps + 1
            if steps > n:
                return "a cycle"
    return None


def as_input(packed, case):
    """a packed table (an earlier output, a derived table) read as the INPUT of the next call"""
    return {"ids": packed["id"], "pids": packed["pid"], "key": packed["key"], "types": packed["types"], "r": packed["r"],
            "extra": [packed[f"extra{j}"] for j in range(len(case["extra"])) if f"extra{j}" in packed],
            "xcols": [{"name": c["name"], "kind": c["kind"], "values": packed["xcols"][c["name"]]}
                      for c in case.get("xcols") or [] if c["name"] in packed.get("xcols", {})]}


def check_relabelling(inp, out, what):
    """out = dict(id, pid, key, type, r, extra...) lists; the property read literally"""
    n = len(inp["ids"])
    res = []
    if not isinstance(out, dict) or any(not isinstance(out.get(c), list) for c in ("id", "pid", "key", "types", "r")):
        return [("sort-node-count", f"{what}: no table came back")]
    if any(len(out[c]) != len(out["id"]) for c in ("pid", "key", "types", "r")) or \
            any(len(out.get(f"extra{j}", [])) != len(out["id"]) for j in range(len(inp["extra"]))):
        return [("sort-node-count", f"{what}: the columns of the result have different lengths")]
    if len(out["id"]) != n:
        return [("sort-node-count", f"{what}: {len(out['id'])} nodes out of {n}")]
    if list(out["id"]) != list(range(n)):
        res.append(("sort-ids", f"{what}: new ids are not 0..n-1: {out['id'][:8]}"))
    if out["pid"][0] != -1:
        res.append(("sort-root", f"{what}: node 0 has parent {out['pid'][0]}"))
    for k in range(1, n):
        if not (0 <= out["pid"][k] < k):
            res.append(("sort-order", f"{what}: node {k} has parent {out['pid'][k]} (parents must precede children)"))
            break
    row_of_key = {k: i for i, k in enumerate(inp["key"])}
    if sorted(out["key"]) != sorted(inp["key"]):
        return res + [("sort-bijection", f"{what}: result nodes are not a permutation of the input nodes")]
    for k in range(n):
        o = row_of_key[out["key"][k]]
        for c in ["types", "r"] + [f"extra{j}" for j in range(len(inp["extra"]))]:
            a = inp["extra"][int(c[5:])][o] if c.startswith("extra") else inp[c][o]
            b = out[c][k]
            if a != b:
                res.append(("sort-columns", f"{what}: column {c} of new node {k} is {b}, the corresponding old node has {a}"))
                return res
        for name, src in (inp.get("alias") or []) if "alias" in out else []:
            a, b = alias_source(inp, src, o), out["alias"][name][k]
            if a != b:
                res.append(("sort-columns", f"{what}: extra column {name!r} (the same array as {src!r} in the input tree) of new node {k} is {b}, "
                                            f"the corresponding old node has {a}"))
                return res
        for xc in inp.get("xcols") or []:
            if "xcols" not in out:
                break  # this form does not carry such columns (a file)
            if "xcols_given" in out and xc["name"] not in out["xcols_given"]:
                continue  # a kind of column the tree object was not given
            col = out["xcols"].get(xc["name"])
            if col is None or len(col) != n:
                res.append(("sort-columns", f"{what}: extra column {xc['name']!r} ({xc['kind']}) is gone / has {None if col is None else len(col)} entries"))
                return res
            a, b = xc["values"][o], col[k]
            if a != b:
                res.append(("sort-columns", f"{what}: extra column {xc['name']!r} ({xc['kind']}, missing entries: {sum(v is None for v in xc['values'])} of {n}) "
                                            f"of new node {k} is {'missing' if b is None else repr(b)}, the corresponding old node has {'missing' if a is None else repr(a)}"))
                return res
        if "seg" in out and len(out["seg"]) == n and out["seg"][k] != 2**60 + 7 * (out["key"][k] - 100) + 1:
            res.append(("sort-columns", f"{what}: the 64-bit integer column of new node {k} is {out['seg'][k]}, its node had {2**60 + 7 * (out['key'][k] - 100) + 1}"))
            return res
        oldp = inp["pids"][o]
        newp = out["pid"][k]
        if newp == -1:
            if oldp != -1:
                res.append(("sort-parent", f"{what}: new node {k} is a root but its old node has parent {oldp}")); return res
        else:
            if not (0 <= newp < n):
                res.append(("sort-parent", f"{what}: new node {k} has parent {newp} outside the table")); return res
            po = row_of_key[out["key"][newp]]
            if inp["ids"][po] != oldp:
                res.append(("sort-parent", f"{what}: new node {k} hangs from new {newp} (old id {inp['ids'][po]}), its old parent is {oldp}"))
                return res
    return res


# ----------------------------------------------------------------------------------------------------------------------
# family "the caller's own COLUMN NAMES": every table / tree entry point takes `names=SWCNames(...)` — the table then carries its
# numbering, parents and payload under those names (and may carry columns that merely LOOK like the default names: an "id" column
# that is a database key, say — an extra per-node column like any other).  The tree is the same tree; the numbering the property
# speaks of is the one in the columns the caller named.  The name table is stored in the case; SWCNames is built in run().
NAME_POOL = {"id": ["n", "node", "ID", "idx", "node id", "#n"], "pid": ["parent", "p", "PID", "from", "parent id", "up"],
             "type": ["t", "kind", "label", "Type"], "x": ["px", "X", "pos_x"], "y": ["py", "Y", "pos_y"], "z": ["pz", "Z", "pos_z"],
             "r": ["radius", "R", "rad", "width"]}
NAME_SCOPES = ["id+pid", "all", "id", "pid", "id+pid+stray", "payload", "random"]


def pick_names(rng, scope):
    """the fields the caller renamed -> their column names"""
    fields = {"id+pid": ["id", "pid"], "id+pid+stray": ["id", "pid"], "id": ["id"], "pid": ["pid"], "payload": ["type", "x", "r"],
              "all": list(NAME_POOL), "random": ["id", "pid"] + [f for f in ("type", "x", "y", "z", "r") if rng.random() < 0.5]}[scope]
    if scope == "random":  # names nobody listed
        out, used = {}, set()
        for f in fields:
            while True:
                w = "".join(rng.choice("abcdefghkmnpqrtuvw_") for _ in range(rng.randint(2, 7))) + rng.choice(["", "", "_" + f, " " + f])
                if w not in used and w not in NAME_POOL and not re.fullmatch(r"e\d+|seg|note|m\d+_.*", w):
                    break
            used.add(w); out[f] = w
        return out
    return {f: rng.choice(NAME_POOL[f]) for f in fields}


def add_names(rng, case, scope):
    case["names"] = pick_names(rng, scope)
    n = len(case["ids"])
    if scope == "id+pid+stray":  # columns called like the defaults, holding something else (a database key, a count)
        case["xcols"] = [{"name": nm_, "kind": "float-nan", "where": "none", "values": [rng.randint(-400, 400) / 4 for _ in range(n)]}
                         for nm_ in (["id", "pid"] if rng.random() < 0.6 else [rng.choice(["id", "pid"])])]
    case["class"] = f"names/{scope}/{'table' if case['form'] == 'table' else 'tree+table'}"
    return case


# ----------------------------------------------------------------------------------------------------------------------
# family "the call REPEATED after the caller worked on the earlier result": a result belongs to the caller, who goes on with it through
# the ordinary API — re-attaches a twig (`r1.node(k).pid = j`), relabels a node, renumbers it 1-based for export (`ndata["id"] += 1`),
# rescales a column in place — and then sorts the untouched input again (the same object, an equal one built independently, the
# same topology through another entry point).  Every one of these calls gets a single-rooted tree and must return a relabelling of
# ITS input.  The recipe (entry points, edits) is stored in the case; all objects are built in run().
R_ENTRIES = ["sort_tree", "sort_nodes", "sort_nodes_", "sort_nodes_impl", "read_swc"]
R_EDITS = ["reattach", "retype", "renumber", "overwrite"]


def add_repeat(rng, case, j):
    n = len(case["ids"])
    tree_ok = case["form"] != "table"
    ents = [e for e in R_ENTRIES if tree_ok or e != "sort_tree"]
    first = ents[j % len(ents)]
    again = [rng.choice(["same", "equal"]) + ":" + first]
    if rng.random() < 0.6:
        again.append(rng.choice(["same", "equal"]) + ":" + rng.choice(ents))
    ops = list(dict.fromkeys([R_EDITS[j % len(R_EDITS)]] + [o for o in R_EDITS if rng.random() < 0.3]))
    edits = []
    for op in ops:
        ed = {"op": op}
        if op == "reattach":
            ed["moves"] = [[k, rng.choice(["root", "prev", "grandparent"])] for k in sorted(rng.sample(range(2, max(n, 2)), max(0, min(n - 2, rng.randint(1, 3)))))]
        elif op == "retype":
            ed["k"], ed["v"] = rng.randrange(max(n, 1)), rng.randint(8, 60)
        elif op == "renumber":
            ed["off"] = rng.choice([1, 1, 2, 10, 1000, n])
        edits.append(ed)
    case["repeat"] = {"first": first, "edits": edits, "again": again}
    case["class"] = f"repeat/{first}/{'+'.join(dict.fromkeys(ops))}/again-" + "+".join(again)
    return case


def apply_edit(kind, h, ed, cn=lambda c: c):
    """one ordinary step of the caller on a result: kind tree (Tree), df (DataFrame), impl ({"id","pid","indices"} arrays)"""
    col = (lambda c: h.ndata[cn(c)]) if kind == "tree" else (lambda c: h[c])
    if kind == "df":
        getv = lambda c, k: h.iloc[k, h.columns.get_loc(cn(c))]
        def setv(c, k, v): h.iloc[k, h.columns.get_loc(cn(c))] = v
    elif kind == "tree":
        getv = lambda c, k: getattr(h.node(k), c)
        def setv(c, k, v): setattr(h.node(k), c, v)
    else:
        getv = lambda c, k: h[c][k]
        def setv(c, k, v): h[c][k] = v
    op = ed["op"]
    if op == "reattach":
        base = int(getv("id", 0))     # row 0 of a sorted result is its root; an earlier "renumber" edit has shifted every id by its offset
        for k, to in ed["moves"]:
            cur = int(getv("pid", k)) - base          # ROW of the current parent (rows = ids - base in a sorted result)
            new = 0 if to == "root" else k - 1 if to == "prev" else (int(getv("pid", cur)) - base) if cur > 0 else 0
            setv("pid", k, base + max(new, 0))
    elif op == "retype" and kind != "impl":
        setv("type", ed["k"], ed["v"])
    elif op == "renumber":
        if kind == "df":
            h[cn("id")] += ed["off"]
            h.loc[h[cn("pid")] >= 0, cn("pid")] += ed["off"]
        else:
            i, p = col("id"), col("pid")
            i += ed["off"]
            p[p >= 0] += ed["off"]
    elif op == "overwrite":
        if kind == "impl":
            h["indices"][:] = h["indices"][::-1].copy()
        elif kind == "df":
            h[cn("r")] *= 2
        else:
            r = col("r")
            r *= 2


ROW_LABELS = ["permuted", "reversed", "shifted", "gapped", "text", "float", "range"]


def row_labels(spec, n):
    """the index of a DataFrame of n rows: what pandas leaves behind after rows were reordered / selected, or what a user set"""
    import random as _r

    import pandas as pd
    r = _r.Random(spec["seed"])
    kind = spec["kind"]
    if kind == "permuted":            # df.iloc[perm] / df.sample(frac=1) / df.sort_values(...)
        lab = list(range(n)); r.shuffle(lab)
        if n > 1 and lab == list(range(n)):
            lab[0], lab[-1] = lab[-1], lab[0]
        return pd.Index(lab)
    if kind == "reversed":            # df[::-1]
        return pd.Index(list(range(n - 1, -1, -1)))
    if kind == "shifted":             # a slice of a longer frame
        k = r.randint(1, 50)
        return pd.RangeIndex(k, k + n)
    if kind == "gapped":              # a boolean filter of a longer frame
        return pd.Index(sorted(r.sample(range(3 * n + 2), n)))
    if kind == "text":
        return pd.Index([f"n{r.randrange(10**4)}_{i}" for i in range(n)])
    if kind == "float":
        return pd.Index([i + 0.5 for i in range(n)])
    return pd.RangeIndex(n)


class SortSuite(Suite):
    name = "c05.sort"

    def __init__(self):
        self._trail = {}  # topology -> the call sequences (family "repeated after an edit") this process ran on it

    def cases(self, rng, tier, widen):
        out = []
        reps = 3 if tier == "quick" and not widen else 10
        k = 0
        for n in gen.sizes(tier, widen):
            for _ in range(reps):
                shape = gen.pick_shape(rng, k); k += 1
                form = ["table", "root0", "rootany", "sorted"][k % 4]
                # tables: every other one with ids far apart; tree objects: the ways a Tree can hold its columns, in turn
                out.append(sort_case(rng, n, shape, form, span=ID_SPANS[(k // 8) % 3] if (k // 4) % 2 else None,
                                     rows=["shuffled", "by-id", "by-id-desc"][(k // 4) % 3],
                                     storage=["own", "shared", "views", "shared", "readonly"][(k // 4) % 5], k=k // 4))
        # ids far apart x a wide generation (a soma with many stems, a bush, a star, a full binary tree): the tables cut out of a
        # larger reconstruction; and the same trees as tree objects under a random numbering, with columns sharing one array
        big = [24, 40, 70, 130] if tier == "quick" and not widen else [24, 40, 70, 130, 200, 300, 500]
        j = 0
        for n in big:
            for shape in ["stems", "bush", "star", "binary", "highdeg"]:
                for _ in range(1 if tier == "quick" and not widen else 3):
                    out.append(sort_case(rng, n, shape, "table", span=ID_SPANS[j % 3], rows=["shuffled", "by-id", "shuffled", "by-id-desc"][j % 4]))
                    if n <= 70:
                        out.append(sort_case(rng, n, shape, ["rootany", "root0"][j % 2], storage=["shared", "views"][j % 3 == 2], k=j))
                    j += 1
        # small scope, exhaustively: every tree with the root first on up to 4 (5) nodes — as a tree object, and as a table whose rows are
        # rotated / reversed and whose ids are spread out
        for n in range(1, (6 if tier == "thorough" or widen else 5)):
            for t, pids in enumerate(gen.all_root0_trees(n)):
                base = {"key": list(range(100, 100 + n)), "types": [(3 * i + t) % 8 for i in range(n)], "r": [(i + 1) / 8 for i in range(n)],
                        "extra": [[float(i * i) for i in range(n)]] if t % 3 == 0 else []}
                out.append({"class": f"all-n{n}/root0", "ids": list(range(n)), "pids": pids, "form": "root0", **base})
                if n >= 3:  # the same tree object with two names for one column
                    al = [[["r_raw", "r"]], [["old_id", "id"]], [["old_pid", "pid"], ["kind", "type"]]][t % 3]
                    out.append({"class": f"all-n{n}/root0/shared", "ids": list(range(n)), "pids": pids, "form": "root0", **base,
                                "storage": "shared", "alias": al})
                ids = [7 + 3 * i for i in range(n)]
                order = list(range(n))[t % n:] + list(range(n))[:t % n]
                if t % 2:
                    order.reverse()
                row = lambda col: [col[i] for i in order]
                out.append({"class": f"all-n{n}/table", "ids": row(ids), "pids": row([-1 if p < 0 else ids[p] for p in pids]), "form": "table",
                            "key": row(base["key"]), "types": row(base["types"]), "r": row(base["r"]), "extra": [row(e) for e in base["extra"]]})
        quick = tier == "quick" and not widen
        # extra columns of every pandas kind with MISSING entries (NaN / None / NA / NaT), on tables of every numbering and on tree
        # objects: every kind x every placement of the gaps, one or two such columns
        j = 0
        for rep in range(3 if quick else 10):
            for kind in XKINDS:
                n = rng.choice([4, 6, 9, 14, 22] if quick else [4, 6, 9, 14, 22, 40, 90])
                form = ["table", "rootany", "table", "root0"][(j + rep) % 4] if kind in TREE_XKINDS else "table"
                c = sort_case(rng, n, gen.pick_shape(rng, j), form, span=ID_SPANS[j % 3] if j % 2 else None,
                              rows=["shuffled", "by-id", "by-id-desc"][j % 3])
                kinds = [kind] + ([XKINDS[(j // 2) % len(XKINDS)]] if j % 3 == 0 else [])
                out.append(add_missing_columns(rng, c, kinds, XWHERE[j % len(XWHERE)]))
                j += 1
        # 64-bit ids: the id / pid columns of a table are int64 (pandas' integer dtype, what the parser of read_swc builds) and the numbering
        # packs a block number above bit 31 / 32 / 33 / 40 / 48 / 56 — distinct ids whose low words repeat; table and file forms
        j = 0
        for rep in range(2 if quick else 8):
            for bits in WORD_BITS:
                n = rng.choice([4, 6, 9, 14, 22] if quick else [4, 6, 9, 14, 22, 40, 90])
                out.append(sort_case(rng, n, gen.pick_shape(rng, j + rep), "table", span=bits, rows=["shuffled", "by-id", "by-id-desc"][j % 3]))
                j += 1
        # tables with a history: an earlier result of sort_nodes / sort_nodes_ / read_swc(sort_nodes=True), renumbered / shuffled /
        # re-rooted / copied with ordinary pandas steps, sorted again
        for j in range(30 if quick else 120):
            n = rng.choice([3, 5, 8, 13, 21] if quick else [3, 5, 8, 13, 21, 40, 80])
            c = sort_case(rng, n, gen.pick_shape(rng, j), "table", span=ID_SPANS[j % 3] if j % 2 else None)
            src = H_SOURCES[j % len(H_SOURCES)]
            c["history"] = {"source": src, "steps": history_steps(rng, len(c["ids"]), j // len(H_SOURCES) + j)}
            if j % 5 == 0 and src != "read_swc":
                add_missing_columns(rng, c, [XKINDS[j % len(XKINDS)]], "some")
            ops = [st["op"] for st in c["history"]["steps"]]
            c["class"] = f"derived/{src}/" + "+".join(o.split("-")[0] for o in ops if o not in H_COPY + ["addcol", "dropcol"]) + \
                ("+copy" if any(o in H_COPY for o in ops) else "")
            out.append(c)
        # the ROW LABELS of the table handed over: a table whose rows were put into another order with pandas (iloc / sample / sort_values /
        # a boolean filter) keeps its old labels; frames also come with labels starting elsewhere, with text or float labels.  The table is
        # the same table: "root anywhere in the table", every numbering
        j = 0
        for rep in range(2 if quick else 8):
            for lab in ROW_LABELS:
                n = rng.choice([2, 3, 5, 8, 13] if quick else [2, 3, 5, 8, 13, 30, 70])
                c = sort_case(rng, n, gen.pick_shape(rng, j), "table", span=ID_SPANS[j % 3] if j % 2 else None,
                              rows=["shuffled", "by-id", "by-id-desc"][j % 3])
                c["labels"] = {"kind": lab, "seed": rng.randrange(10**6)}
                c["class"] = f"row-labels/{lab}"
                out.append(c)
                j += 1
        # the caller's own column names (names=SWCNames(...)): which fields are renamed x table / tree object x every numbering
        j = 0
        for rep in range(2 if quick else 8):
            for scope in NAME_SCOPES:
                n = rng.choice([3, 5, 8, 13, 21] if quick else [3, 5, 8, 13, 21, 40, 90])
                form = ["table", "rootany", "table", "root0", "sorted"][(j + rep) % 5]
                c = sort_case(rng, n, gen.pick_shape(rng, j + 3 * rep), form, span=ID_SPANS[j % 3] if j % 2 else None,
                              rows=["shuffled", "by-id", "by-id-desc"][j % 3])
                out.append(add_names(rng, c, scope))
                j += 1
        # the call repeated after the caller worked on the earlier result (state carried between calls): every entry point x the kinds of
        # edit x the same input object / an equal one built independently / the same topology through another entry point
        for j in range(30 if quick else 120):
            n = rng.choice([3, 5, 8, 13, 21] if quick else [3, 5, 8, 13, 21, 40, 90])
            form = ["rootany", "table", "root0", "rootany", "sorted", "table"][j % 6]
            for t in range(8):  # shapes may come out shorter than asked for: a twig to re-attach needs three nodes
                c = sort_case(rng, n, gen.pick_shape(rng, j + t), form, span=ID_SPANS[j % 3] if j % 2 else None, rows=["shuffled", "by-id", "by-id-desc"][j % 3])
                if len(c["ids"]) >= 3:
                    break
            out.append(add_repeat(rng, c, j // 2 + j))
        return out

    def run(self, case):
        import pandas as pd
        from swcgeom.core import Tree
        from swcgeom.core.swc_utils import SWCNames, is_sorted, read_swc, sort_nodes, sort_nodes_, sort_nodes_impl
        from swcgeom.core.tree_utils import sort_tree

        idt = {"int64": np.int64}.get(case.get("idtype"), np.int32)  # the id / parent columns of a table: int32, or what pandas holds (int64)
        ids = np.array(case["ids"], dtype=idt)
        pids = np.array(case["pids"], dtype=idt)
        n = len(ids)
        res = {}
        # the caller's column names: N maps the standard field to the column that holds it; kw is handed to every entry point that takes it
        N = dict(case.get("names") or {})
        cn = lambda c: N.get(c, c)
        kw = {"names": SWCNames(**N)} if N else {}
        cols = {cn("id"): ids, cn("type"): np.array(case["types"], dtype=np.int32), cn("x"): np.array(case["key"], dtype=np.float32),
                cn("y"): np.zeros(n, dtype=np.float32), cn("z"): np.zeros(n, dtype=np.float32), cn("r"): np.array(case["r"], dtype=np.float32),
                cn("pid"): pids}
        for j, e in enumerate(case["extra"]):
            cols[f"e{j}"] = np.array(e, dtype=np.float32)
        df = pd.DataFrame(cols)
        # a 64-bit integer column (segment / database ids): values that no float can hold
        df["seg"] = np.array([2**60 + 7 * (k - 100) + 1 for k in case["key"]], dtype=np.int64)
        xcols = case.get("xcols") or []
        for c in xcols:  # extra columns of other kinds, with missing entries
            df[c["name"]] = build_xcol(c["kind"], c["values"])
        if case.get("labels"):
            df.index = row_labels(case["labels"], n)
        before = df.copy()
        text = "".join(f"{case['ids'][k]} {case['types'][k]} {case['key'][k]} 0 0 {case['r'][k]!r} {case['pids'][k]}"
                       + "".join(f" {case['extra'][j][k]!r}" for j in range(len(case["extra"]))) + "\n" for k in range(n))
        xc = [f"e{j}" for j in range(len(case["extra"]))]

        def fresh(entry):  # an input of that entry point, built from the case
            if entry == "sort_tree":
                return Tree(n, **{k: v.copy() for k, v in cols.items()}, **kw)
            if entry in ("sort_nodes", "sort_nodes_"):
                return before.copy()
            return (ids.copy(), pids.copy()) if entry == "sort_nodes_impl" else text

        def call(entry, inp):  # -> kind, handle the caller goes on with, packer
            if entry == "sort_tree":
                st = sort_tree(inp)
                return "tree", st, lambda: pack(lambda c: st.get_ndata(c).tolist())
            if entry == "sort_nodes_impl":
                (a, b), ix = sort_nodes_impl(inp)
                h = {"id": a, "pid": b, "indices": ix}
                src = {"x": np.array(case["key"]), "type": np.array(case["types"]), "r": np.array(case["r"], dtype=np.float32),
                       **{f"e{j}": np.array(e, dtype=np.float32) for j, e in enumerate(case["extra"])}}
                return "impl", h, lambda: pack(lambda c: (h[c] if c in ("id", "pid") else src[c][h["indices"]]).tolist())
            if entry == "read_swc":
                with warnings.catch_warnings():
                    warnings.simplefilter("ignore")
                    d, _ = read_swc(io.StringIO(inp), sort_nodes=True, extra_cols=xc or None, **kw)
            elif entry == "sort_nodes":
                d = sort_nodes(inp, **kw)
            else:
                d = inp.copy()  # the caller keeps the untouched table; the in-place form works on a copy of it
                sort_nodes_(d, **kw)
            return "df", d, lambda: pack(lambda c: d[c].tolist())

        def scenario(rep):  # an earlier call, the caller's edits of its result, the calls repeated
            r = {"again": []}
            inputs = {rep["first"]: fresh(rep["first"])}
            kind, h, pk = call(rep["first"], inputs[rep["first"]])
            r["first"] = pk()
            for ed in rep["edits"]:
                apply_edit(kind, h, ed, cn)
            r["edited"] = pk()
            for spec in rep["again"]:
                how, entry = spec.split(":")
                try:
                    inp = inputs.setdefault(entry, fresh(entry)) if how == "same" else fresh(entry)
                    r["again"].append([spec, call(entry, inp)[2]()])
                except Exception as e:  # noqa: BLE001
                    r["again"].append([spec, {"exc": type(e).__name__, "msg": str(e)[:200]}])
            return r

        # what this process did on this very topology before (call sequences of the family "repeated after an edit"): a result is a
        # function of the input alone; if this case fails, the oracle stores the sequence in the case ("after") so that the replay
        # starts with it
        topo = (tuple(case["ids"]), tuple(case["pids"]))
        res["trail"] = [t for t in self._trail.get(topo, []) if t not in (case.get("after") or [])][-8:]

        def pack(get, ex=True):
            o = {"id": [int(v) for v in get(cn("id"))], "pid": [int(v) for v in get(cn("pid"))], "key": [int(v) for v in get(cn("x"))],
                 "types": [int(v) for v in get(cn("type"))], "r": [float(v) for v in get(cn("r"))]}
            for j in range(len(case["extra"])):
                o[f"extra{j}"] = [float(v) for v in get(f"e{j}")] if ex else [case["extra"][j][case["key"].index(k)] for k in o["key"]]
            try:
                o["seg"] = [int(v) for v in get("seg")]
            except Exception:  # noqa: BLE001 - only the data-frame forms carry the column
                pass
            if xcols and ex:
                o["xcols"] = {}
                for c in xcols:
                    try:
                        col = get(c["name"])
                    except (KeyError, ValueError):
                        continue  # the column is not there (reported by the oracle where the form has to carry it)
                    o["xcols"][c["name"]] = [norm_x(c["kind"], v) for v in col]
            return o

        for rec in case.get("after") or []:
            try:
                scenario(rec)
            except Exception:  # noqa: BLE001 - the earlier calls are not what is judged here
                pass
        (nid, npid), indices = sort_nodes_impl((ids.copy(), pids.copy()))
        res["impl"] = {"new_ids": nid.tolist(), "new_pids": npid.tolist(), "indices": indices.tolist()}
        d2 = sort_nodes(df, **kw)
        res["df_input_unchanged"] = bool(df.equals(before))
        res["df"] = pack(lambda c: d2[c].tolist())
        d3 = sort_nodes(d2, **kw)
        res["df2"] = pack(lambda c: d3[c].tolist())
        d4 = before.copy()
        sort_nodes_(d4, **kw)  # the in-place form of the table sort
        res["df_inplace"] = pack(lambda c: d4[c].tolist())
        res["is_sorted_in"] = bool(is_sorted((ids, pids)))
        res["is_sorted_out"] = bool(is_sorted((d2[cn("id")].to_numpy(), d2[cn("pid")].to_numpy())))

        # tree API needs ids = positions
        def run_tree():
            storage = case.get("storage", "own")
            mine = {k: v.copy() for k, v in cols.items()}
            if storage == "views":  # the float columns are columns of one 2-d block, the int columns slices of one buffer
                fl = [k for k, v in mine.items() if v.dtype == np.float32]
                block = np.stack([mine[k] for k in fl], axis=1)
                mine.update({k: block[:, j] for j, k in enumerate(fl)})
                it = [k for k, v in mine.items() if v.dtype == np.int32]
                buf = np.concatenate([mine[k] for k in it])
                mine.update({k: buf[j * n:(j + 1) * n] for j, k in enumerate(it)})
            tree_x = [c for c in xcols if c["kind"] in TREE_XKINDS]
            for c in tree_x:
                mine[c["name"]] = build_xcol(c["kind"], c["values"])
            alias = case.get("alias") or []
            for name, src in alias:  # extra columns go through the constructor: Tree(n, ..., a=arr, b=arr)
                if src.startswith("e"):
                    mine[name] = mine[src]
            if storage == "readonly":
                for v in mine.values():
                    v.setflags(write=False)
            t = Tree(n, **mine, **kw)
            for name, src in alias:  # standard columns: tree.ndata["r_raw"] = tree.r()
                if not src.startswith("e"):
                    t.ndata[name] = t.ndata[src]
            expect_in = {k: np.array(t.get_ndata(k), copy=True) for k in t.ndata}
            st = sort_tree(t)
            o = pack(lambda c: st.get_ndata(c).tolist())
            if xcols:  # a Tree holds numpy columns: only those kinds were given to it
                o["xcols"] = {k: v for k, v in o["xcols"].items() if k in {c["name"] for c in tree_x}}
                o["xcols_given"] = [c["name"] for c in tree_x]
            if alias:
                o["alias"] = {name: [float(v) for v in st.get_ndata(name)] for name, _ in alias}
            same = lambda a, b: bool(np.array_equal(a, b) or (a.dtype.kind == "f" and np.array_equal(a, b, equal_nan=True))
                                     or (a.dtype == object and a.tolist() == b.tolist()))
            return o, bool(all(same(t.get_ndata(k), cols[k]) for k in cols) and all(same(t.get_ndata(k), expect_in[k]) for k in expect_in))

        if case["form"] != "table" and not N:
            res["tree"], res["tree_input_unchanged"] = run_tree()
        elif case["form"] != "table":  # a tree object built with the caller's names (kept apart: judged under its own finding key)
            try:
                res["tree_names"], res["tree_names_input_unchanged"] = run_tree()
            except Exception as e:  # noqa: BLE001
                res["tree_names"] = {"exc": type(e).__name__, "msg": str(e)[:200]}
        # reading with sort_nodes=True
        lines = []
        for k in range(n):
            ex = "".join(f" {case['extra'][j][k]!r}" for j in range(len(case["extra"])))
            lines.append(f"{case['ids'][k]} {case['types'][k]} {case['key'][k]} 0 0 {case['r'][k]!r} {case['pids'][k]}{ex}\n")
        with warnings.catch_warnings():
            warnings.simplefilter("ignore")
            try:
                dfr, _ = read_swc(io.StringIO("".join(lines)), sort_nodes=True, extra_cols=[f"e{j}" for j in range(len(case["extra"]))] or None, **kw)
            except Exception as e:  # noqa: BLE001
                if not N:
                    raise
                # reading under the caller's names stops with a KeyError before any table exists, with and without sort_nodes (DESIGN §6:
                # looked at, loud, the names are not among the read options the properties quantify over): recorded, not judged
                dfr, res["read_names_exc"] = None, f"{type(e).__name__}: {str(e)[:120]}"
        if dfr is not None:
            res["read"] = pack(lambda c: dfr[c].tolist())
            res["read"].pop("xcols", None)  # a file cannot hold these columns
        # a table with a history: derived from an earlier result by ordinary pandas steps, then sorted
        hist = case.get("history")
        if hist:
            src = hist["source"]
            if src == "sort_nodes_":
                d = before.copy()
                sort_nodes_(d)
            else:
                d = {"sort_nodes": d2, "sort_nodes-twice": d3, "read_swc": dfr}[src]
            for st in hist["steps"]:
                d = apply_step(d, st)
            h = {"in": pack(lambda c: d[c].tolist())}
            d_before = d.copy(deep=True)
            h["df"] = pack(lambda c, o=sort_nodes(d): o[c].tolist())
            h["input_unchanged"] = bool(d.equals(d_before))
            sort_nodes_(d)  # and in place, on the derived object itself
            h["df_inplace"] = pack(lambda c: d[c].tolist())
            h["is_sorted_out"] = bool(is_sorted((d["id"].to_numpy(), d["pid"].to_numpy())))
            res["hist"] = h
        if case.get("repeat"):
            res["repeat"] = scenario(case["repeat"])
            self._trail.setdefault(topo, []).append(case["repeat"])
        return res

    def lines(self, case, res):
        if "exc" in res:
            return []
        i = res["impl"]
        a = f"ids={gen.ints(case['ids'])} pids={gen.ints(case['pids'])}"
        idmap = [case["ids"][k] for k in i["indices"]]
        wrap = []
        tr = res.get("tree")
        if isinstance(tr, dict) and "id" in tr and len(case.get("types") or []) == len(case["ids"]):
            # the wrapper GENERATED from tree_utils.sort_tree on the tree object's columns against the real sort_tree(tree)
            wrap = [(f"gsorttree {a} types={gen.ints(case['types'])}", f"{gen.ints(tr['id'])} / {gen.ints(tr['pid'])} / {gen.ints(tr['types'])}")]
        d = res.get("df")
        if isinstance(d, dict) and len(case.get("types") or []) == len(case["ids"]) == len(case.get("key") or []):
            # the copying table form GENERATED from normalizer.sort_nodes (one further integer column: the key) against the real sort_nodes(df):
            # result frame | the argument after the call | a bystander frame | references and heap size
            fr = lambda i, p, t, k: f"{gen.ints(i)} / {gen.ints(p)} / {gen.ints(t)} / {gen.ints(k)}"
            if res.get("df_input_unchanged"):
                wrap.append((f"gcopying op=sort {a} types={gen.ints(case['types'])} rs={gen.ints(case['key'])}",
                             f"{fr(d['id'], d['pid'], d['types'], d['key'])} | {fr(case['ids'], case['pids'], case['types'], case['key'])} | "
                             "7,8 / -1,7 / 1,2 / 4,4 | 1 2 3"))
        return wrap + [("sort " + a, f"{gen.ints(i['new_pids'])} / {gen.ints(i['indices'])} / {gen.ints(idmap)}"),
                # the definition generated from sort_nodes_impl on this run (translator cross-check)
                ("gsort " + a, f"{gen.ints(i['new_pids'])} / {gen.ints(i['indices'])}"),
                ("issorted " + a, str(res["is_sorted_in"])),
                (f"issorted ids={gen.ints(res['df']['id'])} pids={gen.ints(res['df']['pid'])}", str(res["is_sorted_out"]))]

    def oracle(self, case, res):
        try:
            out = self._oracle(case, res)
            trail = res.get("trail") if isinstance(res, dict) else None
            if out and trail and isinstance(case, dict):
                # the input failed after this process had run call sequences on the same topology: they belong to the failing input
                case["after"] = (case.get("after") or []) + trail
                out = [(k, m + f" [after, in the same process on the same topology: {trail}]") for k, m in out]
            return out
        except Exception as e:  # noqa: BLE001 - a result of a shape no clause expected: a finding, never a crash of the check
            return [("sort-malformed-result", f"the result could not be judged ({type(e).__name__}: {e}): {str(res)[:300]}")]

    def _oracle(self, case, res):
        if not isinstance(res, dict):
            return [("sort-malformed-result", f"no result: {res!r}")]
        if "exc" in res:
            return [("sort-raises", f"sorting a well-formed table raised {res['exc']}: {res.get('msg')}")]
        out = []
        n = len(case["ids"])
        i = res["impl"]
        if i["new_ids"] != list(range(n)):
            out.append(("sort-ids", f"sort_nodes_impl new ids {i['new_ids'][:8]}"))
        for what in ("df", "df_inplace", "read", "tree"):
            if what in res:
                out += check_relabelling(case, res[what], {"df": "sort_nodes", "df_inplace": "sort_nodes_", "read": "read_swc(sort_nodes=True)",
                                                           "tree": "sort_tree"}[what])
        tn = res.get("tree_names")
        if tn is not None:
            # sort_tree on a tree object built with names=: the same property, one finding key of its own (at the time this family was
            # added _sort_tree wrote the new numbering under the literal keys "id" / "pid")
            what = f"sort_tree (tree object built with names={case['names']})"
            if not isinstance(tn, dict) or "exc" in tn:
                got = [("sort-raises", f"{what} raised {tn.get('exc') if isinstance(tn, dict) else tn!r}: {tn.get('msg') if isinstance(tn, dict) else ''}")]
            else:
                got = check_relabelling(case, tn, what)
                if res.get("tree_names_input_unchanged") is False:
                    got.append(("sort-mutates-input", f"{what} modified its argument"))
            out += [("sort-names/sort_tree", f"[{k}] {m}") for k, m in got[:1]]
        # sorting again: relabelling of the sorted result, still sorted
        out += [(k + "/again", m) for k, m in check_relabelling(as_input(res["df"], case), res["df2"], "sort_nodes∘sort_nodes")]
        if not res["is_sorted_out"]:
            out.append(("is-sorted-out", "is_sorted is False on the sorted result"))
        truth = all(p < i_ for i_, p in zip(case["ids"], case["pids"]))
        if res["is_sorted_in"] != truth:
            out.append(("is-sorted", f"is_sorted says {res['is_sorted_in']} on ids={case['ids']} pids={case['pids']}"))
        if not res["df_input_unchanged"] or res.get("tree_input_unchanged") is False:
            out.append(("sort-mutates-input", "sort_nodes / sort_tree modified its argument"))
        h = res.get("hist")
        if h and not out and tree_table_defect(h["in"]["id"], h["in"]["pid"]) is None and sorted(h["in"]["key"]) == sorted(case["key"]):
            # the derived table is a single-rooted tree under some numbering: the property holds for it like for any other
            hin = as_input(h["in"], case)
            hin["xcols"] = [c for c in hin["xcols"] if c["name"] in h["in"].get("xcols", {})]
            desc = f"(a table derived from the result of {case['history']['source']} by {'+'.join(s_['op'] for s_ in case['history']['steps'])})"
            for what, name in (("df", "sort_nodes"), ("df_inplace", "sort_nodes_")):
                got = [(k + "/derived", m + f" [derived table: ids={h['in']['id'][:12]} pids={h['in']['pid'][:12]}]")
                       for k, m in check_relabelling(hin, h[what], f"{name} {desc}")]
                out += got
                if got:
                    break
            if not out and not h["is_sorted_out"]:
                out.append(("is-sorted-out/derived", f"is_sorted is False on the sorted result {desc}"))
            if not h["input_unchanged"]:
                out.append(("sort-mutates-input", f"sort_nodes modified its argument {desc}"))
        rep = res.get("repeat")
        if case.get("repeat") and not out:
            if not isinstance(rep, dict) or not isinstance(rep.get("again"), list):
                return [("sort-malformed-result", f"no result of the repeated calls: {str(rep)[:200]}")]
            ops = "+".join(e["op"] for e in case["repeat"]["edits"])
            got = check_relabelling(case, rep.get("first"), case["repeat"]["first"])
            for spec, packed in rep["again"]:
                if got:
                    break
                how, entry = spec.split(":")
                what = (f"{entry} on {'the untouched input' if how == 'same' else 'an equal input built independently'}, called after the caller edited "
                        f"the result of an earlier {case['repeat']['first']} in place ({ops})")
                if isinstance(packed, dict) and "exc" in packed:
                    got = [("sort-raises", f"{what} raised {packed['exc']}: {packed.get('msg')}")]
                else:
                    got = check_relabelling(case, packed, what)
            out += [(k + "/repeated", m) for k, m in got]
        return out[:4]

    def nontrivial(self, case, res):
        if case.get("history"):  # the derived table really is under another numbering than the sorted one
            h = res.get("hist") if isinstance(res, dict) else None
            return bool(h) and len(case["ids"]) >= 3 and (h["in"]["id"] != list(range(len(case["ids"])))
                                                          or any(p >= i for i, p in zip(h["in"]["id"], h["in"]["pid"])))
        if case.get("repeat"):  # the caller's edit really changed the earlier result
            r = res.get("repeat") if isinstance(res, dict) else None
            return bool(r) and len(case["ids"]) >= 3 and r.get("edited") != r.get("first")
        if case.get("names"):
            return len(case["ids"]) >= 3
        if case.get("xcols"):  # some entry is missing on a node whose row moves
            return len(case["ids"]) >= 3 and any(v is None for c in case["xcols"] for v in c["values"])
        return len(case["ids"]) >= 3


SUITES = [SortSuite()]
FAMILIES = ("input families of the oracle suite beyond shape x numbering x column storage: tables / files whose id and parent columns are 64-bit "
            "(int64, ids = block * 2**b + local index for b = 31..56: distinct ids whose low words repeat); extra columns of every pandas kind with missing entries "
            "(NaN / None / NA / NaT; tables and tree objects); tables with a history (an earlier result of sort_nodes / sort_nodes_ / "
            "read_swc(sort_nodes=True) renumbered, shuffled, re-rooted, copied by ordinary pandas steps and sorted again); the caller's own column names "
            "(names=SWCNames(...) with id / pid / payload fields renamed, random names, and extra columns that are merely CALLED id / pid) through "
            "sort_nodes, sort_nodes_, is_sorted and Tree(..., names=) + sort_tree; the call repeated after the caller edited the earlier result in place "
            "(re-attach / relabel through node setters, renumber 1-based, rescale a column; then the untouched input, an equal one, or another entry point "
            "on the same topology: sort_tree, sort_nodes, sort_nodes_, sort_nodes_impl, read_swc(sort_nodes=True))")
TECHNIQUE = ("Lean 4 theorems: the stack loop of sort_nodes_impl equals a structural pre-order on Rose (induction, any shape/numbering/row order); "
             "the output is a bijective relabelling that transports the parent relation and permutes every column, with parents before children "
             "sort_nodes_impl itself is TRANSLATED from the current source on every run (harness/translate_algo.py → Gen/AlgoSort.lean: np.full_like fillers, list-as-stack, "
             "`old_ids[old_pids == old_id]`, dict(zip(...)) index, final comprehension) and proved to return the model's result on every tree table (RefineSort.sort_refines, C05.generated_sort_ok) "
             "+ differential correspondence of the loop model AND the generated definition against sort_nodes_impl + direct relabelling oracle on sort_tree / sort_nodes / read_swc(sort_nodes=True)")
LEVEL_TEXT = ("Kernel-checked for every table that is a tree (arbitrary distinct ids, arbitrary row order, root anywhere): the model of the sorting loop "
              "terminates after exactly n pops, its id map is a permutation of the ids, new parent = new index of the old parent (root ↦ -1), every parent "
              "index is smaller than the child's, node 0 is the root, and every column is read through the same row permutation; sorting again is again such a relabelling.")
LEVEL_NOTE = ("Trusted: Lean kernel; the imperative translator and its semantics library Model/Py.lean (numpy mask indexing, list / dict semantics; cross-checked by running the generated "
              "definition against the real function); the DataFrame glue of sort_nodes_ / _sort_tree is tied by correspondence; "
              "pandas column assignment.")
